"""C08 — sediment particles settle, rest and resuspend according to bed shear stress.

Correspondence: bit-exact per-particle model of sedimentation / mine `update_ibm` (both flag carriers);
nearest raster cell and critical stress of the grain-size maps (shipped grainsize.nc and synthetic rasters
with ascending / descending axes) through the real `get_taucrit_fn`.  Oracle: sink/settle/rest/resuspend
rules, flag distinction, mining retirement, cached bottom stress = fresh computation."""
import os, tempfile, shutil, math
import numpy as np
from . import ibmrun, c05
from .common import Driver, F, I, unF, same_bits
from .stubs import NumState, LinEnv, Obj

RULE = ("sedimentation and mine: mixtures of suspended/settled/previously-settled particles, depths around H, bottom "
        "speeds making tau =, <, > taucrit (to 1e-9 relative; exactly equal for taucrit 0 at rest), sink velocities 0..0.1, "
        "all mixing methods, numeric and boolean flag carriers, single updates and 2..6-step histories (thorough: up to 20) "
        "in which the tracker moves suspended particles over the sloping bed, particles are removed / released and the "
        "bottom current of every particle is re-drawn around its threshold between the steps (~70%); critical stress: "
        "absent, 0, constant (scalar or {method: constant}), mine 1000 / 2000 / 999.9 / key omitted, and (sedimentation, "
        "~35%) grain_size_bin / grain_size_poly maps read from synthetic rasters with the stub grid mapping (X, Y) to "
        "(lon, lat) with different slopes so that particles lie in different cells, bottom speeds drawn around each "
        "particle's own threshold; the stub bottom current is the case's (ub, vb) only at the bed of the particle's "
        "position (7 m/s stronger anywhere else); mine: states without an `active` variable (taucrit >= 1000), vertical "
        "advection with a depth-dependent current w + wz*z (~30%); grain-size rasters: shipped file + synthetic "
        "(3..7 x 3..7, ascending/descending axes, stored [lat,lon] or [lon,lat], NaN cells, a second variable / other "
        "variable name), query points inside, exactly on / one ulp beside cell borders and outside; bottom-stress cache "
        "histories for both modules with changing particle sets. Non-trivial: >=1 particle / point.")
ASSUMPTIONS = ["threshold comparisons within 1e-9 relative of tau = taucrit are not judged by the oracle (rounding of "
               "sqrt(c*U2)^2*1000 vs 1000*c*U2) unless both sides are exactly 0; the bit-exact correspondence with the "
               "model pins them",
               "with mixing present the oracle's expected depth replays the documented scheme (constant: Gaussian kick "
               "sqrt(2K dt) xi reflected at surface and bed; bounded_linear: kappa=0.41 linear profile capped at max_diff, "
               "absorbing bed, reflecting surface; mine: kick reflected at the surface) on the recorded draw, then adds "
               "sink velocity x dt (+ dt x vertical current at the depth after the kick for mine with vertical_advection)",
               "whether a particle whose age exceeds the lifespan is removed is C07's subject: the oracle on `alive` judges "
               "only particles within their lifespan; mine particles that are already settled when an update without "
               "resuspension starts are not judged (the code removes particles in the update in which they settle)",
               "for grain-size-map cases the model request carries each particle's critical stress as found by an "
               "exhaustive nearest-cell search of the harness (the cell lookup itself is compared with the model in the "
               "raster experiment)"]
SITE = "ladim_plugins/%s/ibm.py"


def after_sink(name, case, res, i):
    """depth of a suspended particle after the random walk and the sinking, before it is compared with the bed
    (replay of the documented scheme on the recorded draw, same operations in the same order); None when the draws of
    the update are not known (draw schedule differs from the expected one: reported as a disagreement elsewhere)"""
    if res["sched"][0] != res["sched"][1]:
        return None
    b, a = res["before"], res["after"]
    z = float(b["z"][i]); H = float(res["meta"]["H"][i]); xi = float(res["xi"][i]); dt = float(case["dt"])
    sv = float(a["sink"][i])
    if name == "mine":
        z1 = z + math.sqrt(2 * case["vdiff"]) * (xi * math.sqrt(dt))
        z1 = -z1 if z1 < 0 else z1
        w = sv + (float(res["meta"]["w"][i]) if case["vadv"] else 0.0)
        return z1 + dt * w
    mixing = case["mixing"]
    if mixing is None:
        z1 = z
    elif isinstance(mixing, dict) and mixing["method"] == "bounded_linear":
        ustar = math.sqrt(0.003 * (case["ub"][i] * case["ub"][i] + case["vb"][i] * case["vb"][i]))
        dA = 0.41 * ustar
        A = dA * max(H - z, 0.0)
        if A > mixing["max_diff"]:
            A = float(mixing["max_diff"]); dA = 0.0
        up = A + 0.5 * (dA * dA) * dt
        w = -dA + xi * math.sqrt(2 * up / dt)
        z1 = z + dt * w
        if z1 >= H:
            z1 = H
        if z1 < 0:
            z1 = -z1
    else:
        v = mixing["value"] if isinstance(mixing, dict) else mixing
        z1 = z + math.sqrt(2 * v) * (xi * math.sqrt(dt))
        if z1 < 0:
            z1 = -z1
        if z1 > H:
            z1 = 2 * H - z1
    return z1 + dt * sv


def oracle(ctx, name, case, res):
    b, a, n = res["before"], res["after"], res["n"]
    site = SITE % name
    H = res["meta"]["H"]
    a1 = res["mask_active"]
    has_flag = not case.get("no_active")
    tcs = res["meta"].get("tc")                      # per-particle critical stress (grain-size maps), else the constant
    amb = res["meta"].get("tc_ambiguous")
    if case.get("taucrit_map"):
        ctx.branch("sedimentation.update_with_%s_map" % case["taucrit_map"]["method"])
        if n:
            ctx.branch("sedimentation.map_distinct_thresholds_in_one_update", int(len(set(tcs)) > 1))
    if name == "mine" and case.get("wz") and case["vadv"]:
        ctx.branch("mine.depth_dependent_vertical_current")
    for i in range(n):
        cs = dict(module=name, case=ibmrun.case_summary(case), particle=i,
                  before={k: v[i] for k, v in b.items()}, after={k: v[i] for k, v in a.items()}, xi=res["xi"][i])
        tau = 1000 * 0.003 * (case["ub"][i] ** 2 + case["vb"][i] ** 2)
        tc = case["taucrit"] if tcs is None else tcs[i]
        if name == "mine" and tc is not None and tc >= 1000:
            tc = None
        if tcs is not None and tc is not None:
            cs["taucrit_of_particle"] = tc
        if b["active"][i] == 0 and not (amb is not None and amb[i]):
            if tc is None:
                ctx.oracle(not a1[i] and a["active"][i] == 0 and same_bits(a["z"][i], b["z"][i]),
                           "C08.%s.resuspends_without_taucrit" % name, site, "settled particle moved/activated without taucrit", cs)
            elif tau >= tc * (1 + 1e-9) and tau > tc:
                ctx.oracle(bool(a1[i]), "C08.%s.no_resuspension_above_threshold" % name, site,
                           "tau=%r >= taucrit=%r but particle stays settled" % (tau, tc), cs)
            elif tau <= tc * (1 - 1e-9) and tau < tc:
                ctx.oracle(not a1[i] and a["active"][i] == 0 and same_bits(a["z"][i], b["z"][i]),
                           "C08.%s.resuspension_below_threshold" % name, site,
                           "tau=%r < taucrit=%r but particle resuspended or moved" % (tau, tc), cs)
            elif tau == 0.0 and tc == 0.0:
                # both sides exactly 0 (no current, taucrit 0): the stress *reaches* the critical stress
                ctx.branch("%s.threshold_exactly_reached" % name)
                ctx.oracle(bool(a1[i]), "C08.%s.no_resuspension_at_threshold" % name, site,
                           "tau = taucrit = 0 exactly but particle stays settled", cs)
        zs_ref = after_sink(name, case, res, i) if a1[i] else None
        if a1[i]:
            sv = a["sink"][i]
            w = sv + (res["meta"]["w"][i] if (name == "mine" and case["vadv"]) else 0.0)
            no_mix = (case["mixing"] is None) if name == "sedimentation" else (case["vdiff"] == 0.0)
            if no_mix:
                zs = b["z"][i] + case["dt"] * w
                if name == "mine":
                    z1 = b["z"][i] + math.sqrt(2 * case["vdiff"]) * (res["xi"][i] * math.sqrt(case["dt"]))
                    z1 = -z1 if z1 < 0 else z1
                    zs = z1 + case["dt"] * w
                if zs > H[i]:
                    ctx.oracle(same_bits(a["z"][i], H[i]) and (a["active"][i] == 0 or not has_flag), "C08.%s.settle_on_bed" % name, site,
                               "sunk to %r > H=%r but Z'=%r active'=%r" % (zs, H[i], a["z"][i], a["active"][i]), cs)
                    if name == "mine" and tc is None:
                        ctx.oracle(not a["alive"][i], "C08.mine.settled_stays_in_simulation", site,
                                   "settled without resuspension but still alive", cs)
                else:
                    ctx.oracle(same_bits(a["z"][i], zs) and a["active"][i] != 0, "C08.%s.sink_exact" % name, site,
                               "Z=%r sink_vel*dt=%r expected %r got %r active'=%r" % (b["z"][i], case["dt"] * w, zs, a["z"][i], a["active"][i]), cs)
            else:
                ctx.oracle(a["z"][i] <= H[i] and (a["active"][i] != 0 or same_bits(a["z"][i], H[i])),
                           "C08.%s.settle_on_bed" % name, site, "Z'=%r H=%r active'=%r" % (a["z"][i], H[i], a["active"][i]), cs)
                if zs_ref is not None:
                    # exact sinking distance with the mixing present
                    ctx.branch("%s.sink_judged_with_mixing" % name)
                    if zs_ref > H[i]:
                        ctx.oracle(same_bits(a["z"][i], H[i]) and (a["active"][i] == 0 or not has_flag),
                                   "C08.%s.settle_on_bed_mixed" % name, site,
                                   "mixed and sunk to %r > H=%r but Z'=%r active'=%r" % (zs_ref, H[i], a["z"][i], a["active"][i]), cs)
                    else:
                        ctx.oracle(same_bits(a["z"][i], zs_ref) and a["active"][i] != 0, "C08.%s.sink_exact_mixed" % name, site,
                                   "Z=%r: mixing draw %r then sink_vel*dt=%r: expected %r got %r active'=%r"
                                   % (b["z"][i], res["xi"][i], case["dt"] * w, zs_ref, a["z"][i], a["active"][i]), cs)
        # who leaves the simulation: in the mining variant without resuspension the particles that settle; settling,
        # resting, sinking or resuspending removes nobody else (removal by age is C07's subject)
        if b["alive"][i] and a["age"][i] <= case["lifespan"]:
            if has_flag:
                settled_now = bool(a1[i]) and a["active"][i] == 0
            else:
                settled_now = None if zs_ref is None else zs_ref > H[i]
            if settled_now is None or (name == "mine" and tc is None and b["active"][i] == 0):
                pass
            elif name == "mine" and tc is None and settled_now:
                ctx.branch("mine.settled_leaves")
                ctx.oracle(not a["alive"][i], "C08.mine.settled_stays_in_simulation", site,
                           "settled without resuspension but still alive", cs)
            else:
                ctx.oracle(bool(a["alive"][i]), "C08.%s.removed_without_reason" % name, site,
                           "particle within its lifespan (age'=%r <= %r), %s, but alive'=False"
                           % (a["age"][i], case["lifespan"], "settled" if settled_now else "not settled in this update"), cs)
        if case["carrier"] == "numeric" and has_flag:
            want2 = (a["active"][i] != 0) and (b["active"][i] != 1)
            ctx.oracle((a["active"][i] == 2) == want2 and a["active"][i] in (0, 1, 2), "C08.%s.flag_distinct" % name, site,
                       "active %r -> %r" % (b["active"][i], a["active"][i]), cs)


# ---------------------------------------------------------------------------------------- grain size maps
def write_raster(path, clon, clat, vals, varname="grain_size", lon_first=False, extra=None):
    """`vals`: [lat, lon].  `lon_first`: the variable is stored with dimensions (longitude, latitude);
    `extra`: a second variable (other name, other values) stored next to it"""
    import xarray as xr
    dv = {varname: (("longitude", "latitude"), np.ascontiguousarray(vals.T)) if lon_first else (("latitude", "longitude"), vals)}
    if extra is not None:
        dv[extra[0]] = (("latitude", "longitude"), extra[1])
    ds = xr.Dataset(dv, coords=dict(latitude=clat, longitude=clon))
    ds.to_netcdf(path)


def make_rasters(ctx, tmp, count, tag="r"):
    """synthetic grain-size rasters: dict(source, varname, clon, clat, grain[lat, lon])"""
    out = []
    for r in range(count):
        ni = ctx.rng.randrange(3, 8); nj = ctx.rng.randrange(3, 8)
        dlon = ctx.rng.choice([0.01, 0.125, -0.01, 0.5]); dlat = ctx.rng.choice([0.01, -0.02, 0.25])
        clon = 5.0 + dlon * np.arange(ni); clat = 60.0 + dlat * np.arange(nj)
        vals = np.array([[ctx.rng.choice([0, 10, 69, 70, 100, 180, 181, 500]) for _ in range(ni)] for _ in range(nj)],
                        dtype=ctx.rng.choice(["int32", "float64"]))
        has_nan = False
        if vals.dtype == np.float64 and ctx.rng.random() < 0.5:
            # cells without a grain size (NaN): they count as grain size 0, i.e. the default stress
            for _ in range(ctx.rng.randrange(1, 4)):
                vals[ctx.rng.randrange(nj), ctx.rng.randrange(ni)] = np.nan
            has_nan = True
        varname = ctx.rng.choice(["grain_size", "grain_size", "d50"])
        lon_first = ctx.rng.random() < 0.4
        extra = None
        if ctx.rng.random() < 0.4:
            other = "grain_size" if varname != "grain_size" else "mud_fraction"
            extra = (other, np.array([[float(ctx.rng.choice([0, 10, 100, 500])) for _ in range(ni)] for _ in range(nj)]))
        p = os.path.join(tmp, "%s%d.nc" % (tag, r))
        write_raster(p, clon, clat, vals, varname, lon_first, extra)
        out.append(dict(source=p, varname=varname, clon=clon, clat=clat, grain=vals.astype(float), lon_first=lon_first,
                        has_nan=has_nan, second_variable=extra is not None))
    return out


def border_points(ctx, c, d):
    """a coordinate exactly on the border between two cells (exact when the step is a binary fraction) or one ulp
    beside it"""
    k = ctx.rng.randrange(len(c))
    v = c[k] + ctx.rng.choice([0.5, -0.5]) * d
    return ctx.rng.choice([v, np.nextafter(v, -1e9), np.nextafter(v, 1e9)])


def grain(ctx, drv):
    M = ibmrun.mod("sedimentation")
    tmp = tempfile.mkdtemp(prefix="verif_c08_")
    pend = []
    try:
        shipped = os.path.join(os.path.dirname(M.__file__), "grainsize.nc")
        rasters = [dict(source=shipped, varname="grain_size")] + make_rasters(ctx, tmp, ctx.n(6, 60))
        import xarray as xr
        for ras in rasters:
            path = ras["source"]; varname = ras["varname"]
            with xr.open_dataset(path) as ds:
                g = ds[varname].transpose("latitude", "longitude").values.astype(float)
                clat = ds.latitude.values.astype(float); clon = ds.longitude.values.astype(float)
            if ras.get("lon_first"):
                ctx.branch("grain.raster_stored_lon_lat")
            if ras.get("has_nan"):
                ctx.branch("grain.raster_with_nan_cells")
            if ras.get("second_variable") or varname != "grain_size":
                ctx.branch("grain.raster_other_variable_name_or_second_variable")
            dlon = clon[1] - clon[0]; dlat = clat[1] - clat[0]
            for method in ("grain_size_bin", "grain_size_poly"):
                fn = M.get_taucrit_fn(dict(method=method, source=path, varname=varname))
                npts = 30
                lon = np.array([ctx.rng.choice([clon[ctx.rng.randrange(len(clon))],
                                                clon[0] + dlon * ctx.rng.uniform(-1.5, len(clon) + 0.5),
                                                clon[ctx.rng.randrange(len(clon))] + 0.49 * dlon,
                                                border_points(ctx, clon, dlon)]) for _ in range(npts)])
                lat = np.array([ctx.rng.choice([clat[ctx.rng.randrange(len(clat))],
                                                clat[0] + dlat * ctx.rng.uniform(-1.5, len(clat) + 0.5),
                                                clat[ctx.rng.randrange(len(clat))] - 0.49 * dlat,
                                                border_points(ctx, clat, dlat)]) for _ in range(npts)])
                if ras.get("has_nan"):
                    # make sure cells without a value are asked for
                    jj, ii = np.nonzero(np.isnan(g))
                    for k in range(min(len(jj), 3)):
                        lon[k] = clon[ii[k]] + 0.2 * dlon; lat[k] = clat[jj[k]] - 0.2 * dlat
                tau = np.asarray(fn(lon, lat), dtype=float)
                for k in range(npts):
                    # exhaustive nearest-cell search (clamped outside)
                    di = np.abs(lon[k] - clon); dj = np.abs(lat[k] - clat)
                    near_i = set(np.flatnonzero(di <= di.min() * (1 + 1e-9) + 1e-12).tolist())
                    near_j = set(np.flatnonzero(dj <= dj.min() * (1 + 1e-9) + 1e-12).tolist())
                    cand = set()
                    nan_cell = False
                    for i in near_i:
                        for j in near_j:
                            sed = g[j, i]
                            nan_cell = nan_cell or sed != sed
                            sed = 0.0 if sed != sed else sed
                            if method == "grain_size_bin":
                                t = 0.12
                                if 0 < sed < 70: t = 0.06
                                if sed > 180: t = 0.32
                                t = float(np.float32(t))
                            else:
                                t = 0.12 if sed == 0 else 6e-6 * sed ** 2 + 3e-5 * sed + 0.0591
                            cand.add(t)
                    cs = dict(raster=os.path.basename(path), method=method, lon=lon[k], lat=lat[k], clon=clon, clat=clat, got=tau[k],
                              varname=varname, stored_lon_first=bool(ras.get("lon_first")))
                    ctx.case(key=("grain", path, method, float(lon[k]), float(lat[k])), nontrivial=True)
                    ctx.branch("grain.%s" % method)
                    if nan_cell:
                        ctx.branch("grain.query_in_nan_cell")
                    if len(near_i) > 1 or len(near_j) > 1:
                        ctx.branch("grain.query_on_cell_border")
                    ctx.oracle(any(abs(tau[k] - t) <= 1e-12 for t in cand), "C08.grain.nearest_cell_taucrit",
                               SITE % "sedimentation", "taucrit %r is not that of the nearest cell %r" % (tau[k], sorted(cand)), cs)
                    if drv.available:
                        a = drv.ask("grain.cell", F(clon[0]), F(dlon), I(len(clon) - 1), F(lon[k]))
                        b = drv.ask("grain.cell", F(clat[0]), F(dlat), I(len(clat) - 1), F(lat[k]))
                        pend.append((a, b, g, method, tau[k], cs))
        if drv.available:
            rep = drv.run()
            asks = []
            for a, b, g, method, t_impl, cs in pend:
                i = int(rep[a][1][0]); j = int(rep[b][1][0])
                sed = g[j, i]; sed = 0.0 if sed != sed else sed
                asks.append((drv.ask("grain.taucrit", I(0 if method == "grain_size_bin" else 1), F(sed)), t_impl, cs))
            rep = drv.run()
            for j, t_impl, cs in asks:
                ctx.eq_bits("grain.taucrit", t_impl, unF(rep[j][1][0]), cs)
    finally:
        shutil.rmtree(tmp, ignore_errors=True)


# ---------------------------------------------------------------------------------------- cached bottom stress
def cache_histories(ctx):
    """over a history with increasing step counter and changing particle sets the resuspension decision must use the
    current bottom current (cached value == fresh computation), in both modules"""
    from .common import RngRecorder
    for name in ("sedimentation", "mine"):
        M = ibmrun.mod(name)
        tagname = "sed" if name == "sedimentation" else "mine"
        for h in range(ctx.n(15, 200)):
            conf = dict(dt=60.0, ibm=dict(lifespan=1e9, taucrit=0.12, vertical_mixing=ctx.rng.choice([None, 1e-3]) or 0))
            if name == "mine":
                conf["ibm"]["land_collision"] = "freeze"
                conf["output_instance"] = []; conf["nc_attributes"] = {}
            ibm = M.IBM(conf)
            env = LinEnv(h0=30.0)
            tstep = 0
            for s in range(ctx.rng.randrange(2, 6)):
                tstep += ctx.rng.choice([1, 1, 2])
                n = ctx.rng.randrange(1, 6)
                ub = np.array([ctx.rng.choice([0.0, 0.1, 0.3, 0.5]) for _ in range(n)])
                st = NumState(X=np.full(n, 5.0), Y=np.full(n, 5.0), Z=np.full(n, 30.0), active=np.zeros(n),
                              alive=np.ones(n, bool), age=np.zeros(n), sink_vel=np.full(n, 1e-9), pid=np.arange(n),
                              dt=60.0, timestep=tstep)

                def velocity(x, y, z, tstep=0, _u=ub):
                    # the bottom current: (ub, 0) at the bed of the particle's position, much stronger elsewhere
                    u = _u.copy()
                    off = np.asarray(z, dtype=float) != env.depth(x, y)
                    u[off] += ibmrun.OFF_BED_SPEED
                    return u, np.zeros_like(u)
                forcing = Obj(velocity=velocity)
                seen = {}
                orig = ibm.diffuse

                def wrapped(_st=st, _seen=seen, _orig=orig):
                    _seen["a"] = (np.asarray(_st.active) != 0).copy()
                    _orig()
                ibm.diffuse = wrapped
                with RngRecorder(ctx.sub_seed()):
                    ibm.update_ibm(env.grid(), st, forcing)
                ibm.diffuse = orig
                fresh = np.sqrt(0.003 * (ub * ub))
                ok = ibm._ustar is not None and len(ibm._ustar) == n and all(same_bits(x, y) for x, y in zip(ibm._ustar, fresh))
                ctx.case(key=("cache", name, h, s, repr(ub.tolist())), nontrivial=True)
                ctx.branch("%s.cache_history_step" % tagname)
                cs = dict(module=name, history=h, step=s, ub=ub, timestep=tstep)
                ctx.oracle(ok, "C08.%s.stale_bottom_stress" % name, SITE % name,
                           "cached ustar %r differs from fresh %r at timestep %d" % (ibm._ustar, fresh, tstep), cs)
                # the decision itself: tau = 3*ub^2 is 0, 0.03 (< 0.12), 0.27, 0.75 (> 0.12)
                want = ub >= 0.3
                got = seen.get("a")
                ctx.oracle(got is not None and len(got) == n and bool(np.all(got == want)),
                           "C08.%s.resuspension_not_by_current_stress" % name, SITE % name,
                           "bottom speeds %r with taucrit 0.12: resuspended %r, expected %r" % (ub.tolist(), None if got is None else got.tolist(), want.tolist()), cs)


# ---------------------------------------------------------------------------------------- C08's own input classes
def speeds_around(rng, tcs):
    """per particle a bottom speed making tau = 1000*0.003*s^2 below / at / above the particle's own threshold"""
    ub = np.zeros(len(tcs))
    for i, tc in enumerate(tcs):
        tc = 0.12 if (tc is None or tc >= 1000) else tc
        s_at = math.sqrt(tc / 3.0) if tc > 0 else 0.0
        ub[i] = rng.choice([0.0, s_at, s_at * (1 - 1e-9), s_at * (1 + 1e-9), 2 * s_at + 0.01, 0.3 * s_at,
                            s_at * 0.9, s_at * 1.1])
    vb = np.array([rng.choice([0.0, 0.0, 0.01]) for _ in tcs])
    return ub, vb


def thresholds(name, case):
    if name == "mine":
        return [case["taucrit"]] * len(case["x"])
    return ibmrun.sed_taucrit_per_particle(case, case["x"], case["y"])[0]


def make_gens(rasters):
    def sed_gen(rng, n=None, force_map=False, **kw):
        c = ibmrun.sed_case(rng, n, **kw)
        if rasters and (force_map or rng.random() < 0.35):
            ras = rng.choice(rasters)
            c["taucrit_map"] = dict(method=rng.choice(["grain_size_bin", "grain_size_poly"]), source=ras["source"],
                                    varname=ras["varname"], grain=ras["grain"], clon=ras["clon"], clat=ras["clat"])
            c["taucrit"] = 0.12          # placeholder (a critical stress is configured); per particle: res["meta"]["tc"]
            c["taucrit_dict"] = False
            # the stub grid maps X in [2, 19] to one cell before .. one cell after the raster's longitudes and Y
            # likewise to its latitudes (different slopes, so exchanging the two axes changes the cells)
            env = c["env"]
            clon, clat = ras["clon"], ras["clat"]
            dlon = clon[1] - clon[0]; dlat = clat[1] - clat[0]
            env.lonx = (len(clon) + 2) * dlon / 17.0
            env.lon0 = clon[0] - 1.5 * dlon - 2.0 * env.lonx
            env.laty = (len(clat) + 2) * dlat / 17.0
            env.lat0 = clat[0] - 1.5 * dlat - 2.0 * env.laty
            c["ub"], c["vb"] = speeds_around(rng, thresholds("sedimentation", c))
        return c

    def mine_gen(rng, n=None, **kw):
        c = ibmrun.mine_case(rng, n, **kw)
        if rng.random() < 0.1 and not c.get("no_active"):
            c["taucrit"] = 999.9         # just below the "no resuspension" mark: resuspension is configured
        # bottom speeds around the mining configuration's own threshold (the shared generator draws them around the
        # threshold of the sedimentation case it starts from)
        c["ub"], c["vb"] = speeds_around(rng, thresholds("mine", c))
        if rng.random() < 0.3:
            c["vadv"] = True
            c["wz"] = rng.choice([1e-5, -1e-5, 1e-4])
        return c
    return dict(sedimentation=sed_gen, mine=mine_gen)


def change_forcing(ctx, name, case, state):
    """between two updates of a history the bottom current changes (new speeds around each particle's threshold at its
    current position)"""
    if len(case["x"]) and ctx.rng.random() < 0.7:
        case = dict(case)
        case["ub"], case["vb"] = speeds_around(ctx.rng, thresholds(name, case))
        ctx.branch("%s.bottom_current_changes_between_steps" % name)
    return case


def map_histories(ctx, rasters):
    """histories under a grain-size map in which the tracker carries the suspended particles across raster cells
    (+-4 grid cells in X and Y), often down to just above the bed so that they settle in the new cell, particles are
    removed / released and the bottom current is re-drawn around the threshold of each particle's current cell: the
    critical stress must always be the one of the cell nearest to the particle's current position"""
    gen = make_gens(rasters)["sedimentation"]
    drv = Driver()
    use_drv = drv.available and not getattr(ctx, "widened", False)
    name = "sedimentation"
    pending = []
    for h in range(ctx.n(25, 300)):
        case = gen(ctx.rng, n=ctx.rng.randrange(2, 7), force_map=True)
        ibm = None; state = None
        for s_ in range(ctx.rng.randrange(3, 8)):
            res = ibmrun.sed_run(case, ctx.sub_seed(), drv if use_drv else None, ibmrun.tail_injector(ctx.rng, 0.1),
                                 ibm=ibm, state=state)
            ibm, state = res["ibm"], res["state"]
            state.timestep = state.timestep + 1
            ctx.case(key=(name, "map_hist", h, s_, repr(ibmrun.case_summary(case))), nontrivial=True)
            ctx.branch("sedimentation.map_history_step")
            now = list(res["meta"]["tc"])
            oracle(ctx, name, case, res)
            pending.append((name, case, res))
            case = c05.refresh_case(name, case, res)
            # the tracker: suspended particles only
            env = case["env"]
            X = state["X"]; Y = state["Y"]; Z = state["Z"]
            act = np.asarray(state["active"]) != 0
            for i in range(len(X)):
                if act[i] and ctx.rng.random() < 0.7:
                    X[i] = min(19.0, max(2.0, X[i] + ctx.rng.uniform(-4, 4)))
                    Y[i] = min(19.0, max(2.0, Y[i] + ctx.rng.uniform(-4, 4)))
                    Hn = float(env.depth(X[i], Y[i]))
                    Z[i] = Hn * (1 - 2.0 ** -40) if ctx.rng.random() < 0.5 else min(Z[i], Hn)
            cells = list(ibmrun.sed_taucrit_per_particle(case, np.asarray(X), np.asarray(Y))[0])
            if cells != now:
                ctx.branch("sedimentation.map_history_particle_carried_to_a_cell_with_another_threshold")
            case = c05.between_steps(ctx, name, case, state)
            if len(case["x"]) == 0:
                break
            case = change_forcing(ctx, name, case, state)
    if use_drv:
        replies = drv.run()
        for nm, case, res in pending:
            if "finish" in res:
                res["finish"](replies)
            c05.compare(ctx, nm, case, res, c05.KEYS[nm])
    else:
        for nm, case, res in pending:
            exp, got = res["sched"]
            if exp != got:
                ctx.disagreement("%s.draw_schedule" % nm, "model declares %r, implementation requested %r" % (exp, got),
                                 dict(module=nm, case=ibmrun.case_summary(case)))


def run(ctx):
    tmp = tempfile.mkdtemp(prefix="verif_c08_maps_")
    try:
        rasters = make_rasters(ctx, tmp, ctx.n(5, 25), tag="m")
        c05.run(ctx, modules=["sedimentation", "mine"], oracle=oracle, extras=True, gens=make_gens(rasters),
                between=change_forcing)
        map_histories(ctx, rasters)
    finally:
        shutil.rmtree(tmp, ignore_errors=True)
    drv = Driver()
    if getattr(ctx, "widened", False):
        drv.available = False
    grain(ctx, drv)
    cache_histories(ctx)


def replay(payload):
    print("predicate:", payload.get("predicate"), "|", payload.get("detail"))
    return False
