"""C08 — sediment particles settle, rest and resuspend according to bed shear stress.

Correspondence: bit-exact per-particle model of sedimentation / mine `update_ibm` (both flag carriers);
nearest raster cell and critical stress of the grain-size maps (shipped grainsize.nc and synthetic rasters
with ascending / descending axes) through the real `get_taucrit_fn`.  Oracle: sink/settle/rest/resuspend
rules, flag distinction, mining retirement, cached bottom stress = fresh computation."""
import os, tempfile, shutil, math
import numpy as np
from . import ibmrun, c05
from .common import Driver, F, I, unF, same_bits
from .stubs import NumState, LinEnv, Obj

RULE = ("sedimentation and mine: mixtures of suspended/settled/previously-settled particles, depths around H, bottom "
        "speeds making tau =, <, > taucrit (to 1e-9 relative), sink velocities 0..0.1, all mixing methods, numeric and "
        "boolean flag carriers, single updates and 2..6-step histories; grain-size rasters: shipped file + synthetic "
        "(3..7 x 3..7, ascending/descending axes), query points inside, on cell borders and outside. Non-trivial: >=1 particle / point.")
ASSUMPTIONS = ["threshold comparisons within 1e-9 relative of tau = taucrit are not judged by the oracle (rounding of "
               "sqrt(c*U2)^2*1000 vs 1000*c*U2); the bit-exact correspondence with the model pins them"]
SITE = "ladim_plugins/%s/ibm.py"


def oracle(ctx, name, case, res):
    b, a, n = res["before"], res["after"], res["n"]
    site = SITE % name
    H = res["meta"]["H"]
    a1 = res["mask_active"]
    for i in range(n):
        cs = dict(module=name, case=ibmrun.case_summary(case), particle=i,
                  before={k: v[i] for k, v in b.items()}, after={k: v[i] for k, v in a.items()}, xi=res["xi"][i])
        tau = 1000 * 0.003 * (case["ub"][i] ** 2 + case["vb"][i] ** 2)
        tc = case["taucrit"]
        if name == "mine" and tc is not None and tc >= 1000:
            tc = None
        if b["active"][i] == 0:
            if tc is None:
                ctx.oracle(not a1[i] and a["active"][i] == 0 and same_bits(a["z"][i], b["z"][i]),
                           "C08.%s.resuspends_without_taucrit" % name, site, "settled particle moved/activated without taucrit", cs)
            elif tau >= tc * (1 + 1e-9) and tau > tc:
                ctx.oracle(bool(a1[i]), "C08.%s.no_resuspension_above_threshold" % name, site,
                           "tau=%r >= taucrit=%r but particle stays settled" % (tau, tc), cs)
            elif tau <= tc * (1 - 1e-9) and tau < tc:
                ctx.oracle(not a1[i] and a["active"][i] == 0 and same_bits(a["z"][i], b["z"][i]),
                           "C08.%s.resuspension_below_threshold" % name, site,
                           "tau=%r < taucrit=%r but particle resuspended or moved" % (tau, tc), cs)
        if a1[i]:
            sv = a["sink"][i]
            w = sv + (case["w"] if (name == "mine" and case["vadv"]) else 0.0)
            no_mix = (case["mixing"] is None) if name == "sedimentation" else (case["vdiff"] == 0.0)
            if no_mix:
                zs = b["z"][i] + case["dt"] * w
                if name == "mine":
                    z1 = b["z"][i] + math.sqrt(2 * case["vdiff"]) * (res["xi"][i] * math.sqrt(case["dt"]))
                    z1 = -z1 if z1 < 0 else z1
                    zs = z1 + case["dt"] * w
                if zs > H[i]:
                    ctx.oracle(same_bits(a["z"][i], H[i]) and a["active"][i] == 0, "C08.%s.settle_on_bed" % name, site,
                               "sunk to %r > H=%r but Z'=%r active'=%r" % (zs, H[i], a["z"][i], a["active"][i]), cs)
                    if name == "mine" and tc is None:
                        ctx.oracle(not a["alive"][i], "C08.mine.settled_stays_in_simulation", site,
                                   "settled without resuspension but still alive", cs)
                else:
                    ctx.oracle(same_bits(a["z"][i], zs) and a["active"][i] != 0, "C08.%s.sink_exact" % name, site,
                               "Z=%r sink_vel*dt=%r expected %r got %r active'=%r" % (b["z"][i], case["dt"] * w, zs, a["z"][i], a["active"][i]), cs)
            else:
                ctx.oracle(a["z"][i] <= H[i] and (a["active"][i] != 0 or same_bits(a["z"][i], H[i])),
                           "C08.%s.settle_on_bed" % name, site, "Z'=%r H=%r active'=%r" % (a["z"][i], H[i], a["active"][i]), cs)
        if case["carrier"] == "numeric":
            want2 = (a["active"][i] != 0) and (b["active"][i] != 1)
            ctx.oracle((a["active"][i] == 2) == want2 and a["active"][i] in (0, 1, 2), "C08.%s.flag_distinct" % name, site,
                       "active %r -> %r" % (b["active"][i], a["active"][i]), cs)


# ---------------------------------------------------------------------------------------- grain size maps
def write_raster(path, clon, clat, vals):
    import xarray as xr
    ds = xr.Dataset(dict(grain_size=(("latitude", "longitude"), vals)), coords=dict(latitude=clat, longitude=clon))
    ds.to_netcdf(path)


def grain(ctx, drv):
    M = ibmrun.mod("sedimentation")
    tmp = tempfile.mkdtemp(prefix="verif_c08_")
    pend = []
    try:
        rasters = [os.path.join(os.path.dirname(M.__file__), "grainsize.nc")]
        for r in range(ctx.n(6, 60)):
            ni = ctx.rng.randrange(3, 8); nj = ctx.rng.randrange(3, 8)
            dlon = ctx.rng.choice([0.01, 0.125, -0.01, 0.5]); dlat = ctx.rng.choice([0.01, -0.02, 0.25])
            clon = 5.0 + dlon * np.arange(ni); clat = 60.0 + dlat * np.arange(nj)
            vals = np.array([[ctx.rng.choice([0, 10, 69, 70, 100, 180, 181, 500]) for _ in range(ni)] for _ in range(nj)],
                            dtype=ctx.rng.choice(["int32", "float64"]))
            p = os.path.join(tmp, "r%d.nc" % r)
            write_raster(p, clon, clat, vals)
            rasters.append(p)
        import xarray as xr
        for path in rasters:
            with xr.open_dataset(path) as ds:
                g = ds["grain_size"].transpose("latitude", "longitude").values.astype(float)
                clat = ds.latitude.values.astype(float); clon = ds.longitude.values.astype(float)
            dlon = clon[1] - clon[0]; dlat = clat[1] - clat[0]
            for method in ("grain_size_bin", "grain_size_poly"):
                fn = M.get_taucrit_fn(dict(method=method, source=path, varname="grain_size"))
                npts = 30
                lon = np.array([ctx.rng.choice([clon[ctx.rng.randrange(len(clon))],
                                                clon[0] + dlon * ctx.rng.uniform(-1.5, len(clon) + 0.5),
                                                clon[ctx.rng.randrange(len(clon))] + 0.49 * dlon]) for _ in range(npts)])
                lat = np.array([ctx.rng.choice([clat[ctx.rng.randrange(len(clat))],
                                                clat[0] + dlat * ctx.rng.uniform(-1.5, len(clat) + 0.5),
                                                clat[ctx.rng.randrange(len(clat))] - 0.49 * dlat]) for _ in range(npts)])
                tau = np.asarray(fn(lon, lat), dtype=float)
                for k in range(npts):
                    # exhaustive nearest-cell search (clamped outside)
                    di = np.abs(lon[k] - clon); dj = np.abs(lat[k] - clat)
                    near_i = set(np.flatnonzero(di <= di.min() * (1 + 1e-9) + 1e-12).tolist())
                    near_j = set(np.flatnonzero(dj <= dj.min() * (1 + 1e-9) + 1e-12).tolist())
                    cand = set()
                    for i in near_i:
                        for j in near_j:
                            sed = g[j, i]
                            sed = 0.0 if sed != sed else sed
                            if method == "grain_size_bin":
                                t = 0.12
                                if 0 < sed < 70: t = 0.06
                                if sed > 180: t = 0.32
                                t = float(np.float32(t))
                            else:
                                t = 0.12 if sed == 0 else 6e-6 * sed ** 2 + 3e-5 * sed + 0.0591
                            cand.add(t)
                    cs = dict(raster=os.path.basename(path), method=method, lon=lon[k], lat=lat[k], clon=clon, clat=clat, got=tau[k])
                    ctx.case(key=("grain", path, method, float(lon[k]), float(lat[k])), nontrivial=True)
                    ctx.branch("grain.%s" % method)
                    ctx.oracle(any(abs(tau[k] - t) <= 1e-12 for t in cand), "C08.grain.nearest_cell_taucrit",
                               SITE % "sedimentation", "taucrit %r is not that of the nearest cell %r" % (tau[k], sorted(cand)), cs)
                    if drv.available:
                        a = drv.ask("grain.cell", F(clon[0]), F(dlon), I(len(clon) - 1), F(lon[k]))
                        b = drv.ask("grain.cell", F(clat[0]), F(dlat), I(len(clat) - 1), F(lat[k]))
                        pend.append((a, b, g, method, tau[k], cs))
        if drv.available:
            rep = drv.run()
            asks = []
            for a, b, g, method, t_impl, cs in pend:
                i = int(rep[a][1][0]); j = int(rep[b][1][0])
                sed = g[j, i]; sed = 0.0 if sed != sed else sed
                asks.append((drv.ask("grain.taucrit", I(0 if method == "grain_size_bin" else 1), F(sed)), t_impl, cs))
            rep = drv.run()
            for j, t_impl, cs in asks:
                ctx.eq_bits("grain.taucrit", t_impl, unF(rep[j][1][0]), cs)
    finally:
        shutil.rmtree(tmp, ignore_errors=True)


# ---------------------------------------------------------------------------------------- cached bottom stress
def cache_histories(ctx):
    """over a history with increasing step counter and changing particle sets the resuspension decision must use the
    current bottom current (cached value == fresh computation)"""
    M = ibmrun.mod("sedimentation")
    for h in range(ctx.n(15, 200)):
        ibm = M.IBM(dict(dt=60.0, ibm=dict(lifespan=1e9, taucrit=0.12, vertical_mixing=ctx.rng.choice([None, 1e-3]) or 0)))
        if ibm.vdiff_fn is None:
            pass
        env = LinEnv(h0=30.0)
        tstep = 0
        for s in range(ctx.rng.randrange(2, 6)):
            tstep += ctx.rng.choice([1, 1, 2])
            n = ctx.rng.randrange(1, 6)
            ub = np.array([ctx.rng.choice([0.0, 0.1, 0.3, 0.5]) for _ in range(n)])
            st = NumState(X=np.full(n, 5.0), Y=np.full(n, 5.0), Z=np.full(n, 30.0), active=np.zeros(n),
                          alive=np.ones(n, bool), age=np.zeros(n), sink_vel=np.full(n, 1e-9), pid=np.arange(n),
                          dt=60.0, timestep=tstep)
            forcing = Obj(velocity=lambda x, y, z, tstep=0, _u=ub: (_u.copy(), np.zeros_like(_u)))
            from .common import RngRecorder
            with RngRecorder(ctx.sub_seed()):
                ibm.update_ibm(env.grid(), st, forcing)
            fresh = np.sqrt(0.003 * (ub * ub))
            ok = ibm._ustar is not None and len(ibm._ustar) == n and all(same_bits(x, y) for x, y in zip(ibm._ustar, fresh))
            ctx.case(key=("cache", h, s, repr(ub.tolist())), nontrivial=True)
            ctx.branch("sed.cache_history_step")
            ctx.oracle(ok, "C08.sedimentation.stale_bottom_stress", SITE % "sedimentation",
                       "cached ustar %r differs from fresh %r at timestep %d" % (ibm._ustar, fresh, tstep),
                       dict(history=h, step=s, ub=ub, timestep=tstep))


def run(ctx):
    c05.run(ctx, modules=["sedimentation", "mine"], oracle=oracle)
    drv = Driver()
    if getattr(ctx, "widened", False):
        drv.available = False
    grain(ctx, drv)
    cache_histories(ctx)


def replay(payload):
    print("predicate:", payload.get("predicate"), "|", payload.get("detail"))
    return False
