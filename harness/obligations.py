"""Obligations (theorem names) per property; audited with `#print axioms` on every run."""

TRUSTED_BASE = [
    "Lean 4.33.0 kernel (thorough tier: leanchecker re-check of the compiled .olean files)",
    "axioms: at most propext, Classical.choice, Quot.sound (audited per theorem on every run); no native_decide, no bv_decide, no sorry, no own axioms",
    "Mathlib v4.33.0 modules imported one at a time by LadimProofs/* only",
    "translator/py2lean.py (regenerates LadimModel/Generated/Formulas.lean from /repo on every run) and the correspondence harness harness/*.py (differential test of the model driver against the implementation, bit-exact where only correctly-rounded operations are involved)",
    "exact-arithmetic semantics: theorems are over linear ordered fields / the reals; rounding, overflow, NaN/Inf, -0.0 of binary64/32 are not modelled (floating-point behaviour is exercised by the correspondence run only)",
    "modelled rather than verified: numpy legacy generator output domains, scipy splines / map_coordinates / generic_filter / binary_dilation, np.histogramdd, np.interp, np.searchsorted, np.unique, pandas concat/sort/to_csv, numpy datetime parsing/rendering, yaml, json, pyproj, netCDF4/xarray, sqlite3, triangle, skyfield, LADiM 2.3.3 itself (solver loop, tracker, State)",
]

LEVEL = {}

# proof module per property when it is not LadimProofs/<id>.lean
MODULES = {"C12": "C12Fjord", "C06": "C06Main", "C13": "C13Buffer"}

OBLIGATIONS = {
    "C05": [
        "C05.reflect_band", "C05.reflectPred_band", "C05.reflect_disp_band", "C05.advect_band",
        "C05.diffuseConst_band", "C05.labolleSub_band", "C05.diffuseLabolle_band", "C05.uniform_step_le",
        "C05.vertical_band", "C05.horizontal_band", "C05.update_band", "C05.horzdiff_without_clamp_fails",
        "C05.bury_le_H", "C05.bury_nonneg", "C05.mixConst_band", "C05.mixConst_nonneg",
        "C05.mixBoundedLinear_nonneg", "C05.mixBoundedLinear_can_exceed_h", "C05.mixMine_nonneg",
        "C05.sed_update_band", "C05.mine_update_band",
        "C05.mirrorCap_band", "C05.eggZ_band", "C05.lice_band", "C05.clipDepth_band", "C05.npClip_band",
        "C05.reflexive_band", "C05.sandeelZ_band", "C05.eelZ_band", "C05.shrimpMix_nonneg",
        "C05.migration_band_partial", "C05.migration_band_clamped", "C05.migration_overshoot_fails",
        "C05.vpsZ_band", "C05.history_invariant", "C05.egg_history", "C05.sandeel_history",
    ],
    "C07": [
        "C07.chem_age_advance", "C07.chem_age_untouched", "C07.chem_alive_monotone", "C07.chem_death_iff",
        "C07.chem_death_iff_horz", "C07.sed_age_advance", "C07.sed_alive_iff", "C07.mine_age_advance",
        "C07.mine_alive_monotone", "C07.mine_alive_iff_resusp", "C07.sed_age_history",
        "C07.degree_day_age", "C07.degree_day_monotone", "C07.larva_age_advance", "C07.lice_age_advance",
        "C07.lice_alive_iff", "C07.lice_super", "C07.exp_rate_add", "C07.lice_survival_partition",
        "C07.lice_survival_history", "C07.lice_one_day", "C07.shrimp_age_advance", "C07.vps_age_advance",
        "C07.vps_alive_iff", "C07.dead_forever", "C07.sed_dead_forever", "C07.chem_dead_forever",
        "RealInst.expLaws",
    ],
    "C10": [
        "C10.update_perm", "C10.update_sublist", "C10.update_select", "C10.update_nil", "C10.update_pointwise",
        "C10.stuck_ignores_others", "C10.stuck_cons_other", "C10.lookup_perm", "C10.stuck_perm",
        "C10.new_particle_not_stuck",
    ],
    "C08": [
        "C08.tau_formula", "C08.update_z", "C08.update_active", "C08.sink_exact", "C08.sink_exact_mixing",
        "C08.stays_suspended", "C08.settle_on_bed", "C08.settled_rests", "C08.never_resuspends_without_taucrit",
        "C08.resuspends_iff", "C08.flag_range", "C08.flag_distinct", "C08.flag_never_back_to_one", "C08.flag_history",
        "C08.mine_settled_leaves", "C08.nearest_cell_is_nearest", "C08.nearest_cell_clamped", "C08.taucrit_bin_table",
        "C08.taucrit_poly_default", "C08.taucrit_poly_pos", "C08.cache_fresh", "C08.cache_same_step",
        "C08.cache_transparent", "RealInst.sqrtLaws",
    ],
    "C20": [
        "C20.Tplus_eq", "C20.Tminus_eq", "C20.mem_preimagesPlus", "C20.mem_preimagesMinus", "C20.preimages_count",
        "C20.preimagesPlus_nodup", "C20.preimagesMinus_nodup", "C20.Tplus_isometry", "C20.clamp_piles_up",
        "C20.uniform_step_sq", "C20.uniform_second_moment", "C20.normal_step_sq", "C20.normal_step_sq_single",
        "C20.velocity_step_sq", "C20.labolle_const_reduces", "C20.sampleK_capped", "C20.substeps_cover",
        "C20.zCoarse_ge", "C20.zCoarse_near", "RealInst.sqrtLaws",
    ],
    "C09": [
        "C09.quad3_knots", "C09.hatch_time_table", "C09.hatch_time_clamps", "C09.hatch_time_pos", "C09.egg_rate",
        "C09.egg_stage_increases", "C09.egg_activates_iff", "C09.egg_noop_on_others", "C09.larval_stage_eq",
        "C09.larva_stage_increases", "C09.larva_deactivates_iff", "C09.larva_noop_on_others",
        "C09.sandeel_stage_monotone", "C09.sandeel_history_monotone", "C09.shrimp_delta_stage_nonneg",
        "C09.shrimp_delta_stage_pos", "C09.shrimp_stage_range", "C09.shrimp_stage_monotone", "C09.shrimp_stage_rate",
        "C09.shrimp_length_table", "C09.shrimp_length_monotone", "C09.egg_keeps_weight", "C09.larva_weight_eq",
        "C09.larva_weight_floor", "C09.growth_rate_pos", "C09.growth_pos",
        "InterpLemmas.interp_mono", "InterpLemmas.interpGo_ge", "InterpLemmas.interpGo_le",
        "RealInst.expLaws", "RealInst.rpowLaws", "RealInst.logLaws",
    ],
    "C16": [
        "C16.density_poly_form", "C16.coefB_lower", "C16.coefC_bounds", "C16.density_increases_with_salinity",
        "C16.density_copies_equal", "C16.viscosity_copies_equal", "C16.viscosity_generated_copies_equal",
        "C16.sunheight_copy_equal", "C16.density_check_values", "C16.fabs_neg", "C16.fsign_neg",
        "C16.sink_speed_odd", "C16.sink_speed_zero_at_neutral", "C16.sink_speed_stokes", "C16.sink_speed_sign_stokes",
        "C16.sink_speed_sign_dallavalle", "C16.larva_swims_down_iff", "C16.larva_uses_light_at_depth",
        "C16.lice_up_in_light", "C16.lice_down_in_fresh", "C16.lice_velocity_values", "C16.shrimp_toward_pref",
        "C16.band_light_bounds", "C16.band_light_continuity", "C16.cascade_eq_band", "C16.surface_light_is_band",
        "C16.surface_light_bounds", "C16.day_ratio_unit", "C16.light_decay", "C16.light_decay_monotone",
        "C16.light_decay_additive", "RealInst.sqrtLaws", "RealInst.expLaws", "RealInst.rpowLaws",
    ],
    "C02": [
        "C02.valid_timestamp", "C02.single_particle_old_fails", "C02.releaseTime_eq", "C02.first_is_start",
        "C02.single_particle", "C02.last_is_stop", "C02.last_is_stop_exact", "C02.tdiv_mono",
        "C02.monotone_of_nonneg_span", "C02.antitone_of_neg_span", "C02.even_spacing", "C02.zero_span_constant",
        "C02.sorted_after_sort",
    ],
    "C04": [
        "C04.const_repeated", "C04.list_verbatim", "C04.callable_result", "C04.range_in_range", "C04.range_values",
        "C04.gaussian_bounds", "C04.gaussian_unbounded", "C04.gaussian_bounds_partial", "C04.gaussian_lower_fails",
        "C04.exponential_bounds", "C04.piecewise_range", "C04.piecewise_monotone", "C04.piecewise_hits_knots",
        "C04.mapM_length", "C04.generators_length", "InterpLemmas.interp_mono",
    ],
    "C03": [
        "C03.fold_in_triangle", "C03.bary_convex", "C03.sample_in_halfplanes", "C03.bary_between", "C03.triArea_nonneg",
        "C03.triArea_swap", "C03.pick_in_range", "C03.sample_in_chosen_triangle", "C03.point_exact",
        "C03.metric_deg_inverse", "C03.deg_metric_inverse", "SampleLemmas.searchsorted_spec",
        "SampleLemmas.searchsorted_lt_length",
    ],
    "C17": [
        "C17.normCum_pairwise", "C17.pick_interval", "C17.pick_interval_length", "C17.pick_interval_length_zero",
        "C17.normCum_last", "C17.fold_preimages", "C17.fold_reflection_involutive", "C17.bary_det", "C17.bary_injective",
        "C17.triangle_areas_abs", "C04.range_values", "C04.range_in_range", "SampleLemmas.searchsorted_eq_iff",
        "SampleLemmas.cumsum_get_succ",
    ],
    "C01": [
        "C01.rowsOf_length", "C01.rowCount_eq_sum", "C01.columns_rectangular", "C01.group_contributes_num",
        "C01.row_integrity", "C01.missing_attr_zero", "C01.insertRow_perm", "C01.sortRows_perm", "C01.sortRows_sorted",
        "C01.rows_perm_of_groups", "C01.columns_requested", "C01.columns_default", "C01.dictMerge_new",
        "C01.single_release_default_order",
    ],
    "C18": [
        "C18.flat_eq_grouped", "C18.list_eq_grouped", "C18.validate_congr", "C18.containers_agree", "C18.missing_spec",
        "C18.validate_none_iff", "C18.invalid_rejected", "C01.rows_perm_of_groups",
    ],
    "C19": [
        "C19.slots_partition", "C19.slots_count", "C19.slots_lengths", "C19.zip_flatMap_snd", "C19.sqlite_rows_once",
        "C19.sqlite_row_times", "C19.binGo_sound", "C19.binGo_isSome_iff", "C19.binIndex_lt", "C19.sum_indicator",
        "C19.hist_conserves_count", "C19.in_grid_iff", "C19.edges_three", "C19.mids_length", "C19.mids_get",
        "C19.findIdx_spec", "C19.settled_is_last_instance", "C19.mem_insertSorted", "C19.insertSorted_sorted",
        "C19.uniquePids_spec",
    ],
    "C14": [
        "C14.huon_linear", "C14.hvom_linear", "C14.dW_linear", "C14.wcum_linear", "C14.wscl_linear", "C14.vert_linear",
        "C14.vertW_linear", "C14.w_linear", "C14.w_lateral_zero", "C14.wcum_eq_sum", "C14.vert_flat", "C14.vertW_flat",
        "C14.w_flat_identity", "C14.w_bed_zero_flat", "C14.w_surface_zero_flat", "C14.w_zero_nondivergent",
        "C14.w_positive_surface_convergence", "C14.dW_is_minus_divergence",
    ],
    "C12": [
        "C12BFS.minNonneg_spec", "C12BFS.dilate_step_sound", "C12BFS.dilate_iter_spec", "C12BFS.descent_lowers",
        "C12BFS.follow_reaches_ocean", "C12BFS.dilateIter_descending", "C12.bdilateIter_spec", "C12.fjordInput_init",
        "C12.land_is_obstacle", "C12.fjord_index_is_shortest_path", "C12.follow_fjord_index_reaches_ocean",
        "C12.ocean_velocity_zero", "C12.picture_orientation_fails",
    ],
    "C15": [
        "C15.clampIdx_range", "C15.clampIdx_inside", "C15.clampIdx_edges", "C15.clampIdx_nearest", "C15.raw_wraps_fails",
        "C15.raw_raises_fails", "C15.raw_agrees_inside", "C15.bilinear_at_node", "C15.bilinear_between",
        "C15.trilinear_weights", "C15.sample3D_convex", "C15.velocity_is_layer_value", "C15.z2sK_range", "C15.z2sA_unit",
        "C15.countBelow_brackets", "C15.z2s_reproduces_depth", "C15.vertdiffLevel_interior", "C15.vertdiff_nonneg",
        "C15.horzdiff_nonneg", "C15.horzdiff_zero_on_land",
    ],
    "C06": [
        "C06.steps_aligned", "C06.unaligned_dt_fails", "C06.late_start_fails", "C06.late_start_fixed", "C06.gap_fails",
        "C06.scalar_t0_fails", "C06.scalar_t0_current", "C06.scalar_prestep_fails", "C06.scalar_stepdiff_ok",
        "C06.nextStep_spec", "C06.nextStep_of_mem", "C06.prestepOf_spec", "C06.bracket_unique", "C06.inv_step", "C06.inv_main",
        "C06.velocity_consecutive", "C06.updateRange_add", "C06.run_loop_eq_range", "C06.update_loop_eq_range",
        "C06.velocity_any_schedule", "C06.velocity_on_frame", "C06.scalar_on_frame", "C06.scalar_on_frame_t0", "C06.scalar_held",
        "C06.scalar_held_after_prestep", "C06.scalar_before_first_frame", "C06.lerpS_between", "C06.scalar_between",
    ],
    "C13": [
        "C13.interp_is_lerp", "C13.interp_whole_hour", "C13.interp_between", "C13.backward_whole_hour_fails",
        "C13.backward_is_mirrored", "C13.backward_differs", "C13.hour_fraction_range", "C13.hour_decomposition",
        "C13.time_of_step", "C13.metric_index_in_range", "C13.raw_outermost_fails", "C13.z2k_monotone",
        "C13.z2k_exact_first", "C13.z2k_tail", "C13.z2k_clamps_left",
        "C13.lookup_assign_self", "C13.lookup_assign_other", "C13.valid_empty", "C13.valid_prune", "C13.get_push_self",
        "C13.valid_push", "C13.contains_iff", "C13.getVar_transparent", "C13.getVar_reads_iff_miss", "C13.serve_of_valid",
        "C13.buffer_transparent", "C13.push_two_live_frames",
    ],
}
