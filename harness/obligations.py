"""Obligations (theorem names) per property; audited with `#print axioms` on every run."""

TRUSTED_BASE = [
    "Lean 4.33.0 kernel (thorough tier: leanchecker re-check of the compiled .olean files)",
    "axioms: at most propext, Classical.choice, Quot.sound (audited per theorem on every run); no native_decide, no bv_decide, no sorry, no own axioms",
    "Mathlib v4.33.0 modules imported one at a time by LadimProofs/* only",
    "translator/py2lean.py (regenerates LadimModel/Generated/Formulas.lean from /repo on every run) and the correspondence harness harness/*.py (differential test of the model driver against the implementation, bit-exact where only correctly-rounded operations are involved)",
    "exact-arithmetic semantics: theorems are over linear ordered fields / the reals; rounding, overflow, NaN/Inf, -0.0 of binary64/32 are not modelled (floating-point behaviour is exercised by the correspondence run only)",
    "modelled rather than verified: numpy legacy generator output domains, scipy splines / map_coordinates / generic_filter / binary_dilation, np.histogramdd, np.interp, np.searchsorted, np.unique, pandas concat/sort/to_csv, numpy datetime parsing/rendering, yaml, json, pyproj, netCDF4/xarray, sqlite3, triangle, skyfield, LADiM 2.3.3 itself (solver loop, tracker, State)",
]

LEVEL = {}

# proof module per property when it is not LadimProofs/<id>.lean
MODULES = {"C17": "C17Measure", "C20": "C20Measure", "C02": "C02Iso", "C12": "C12Fjord", "C06": "C06Main", "C13": "C13Buffer", "C05": "C05Rounded", "C19": "C19Weighted"}

# bridge modules per property (LadimProofs/Bridge/<name>.lean): hand-written model function = generated window of the
# current source; re-proved on every run
BRIDGES = {
    "C05": ["Mixing", "Band", "SinkBury", "Swim", "Seq"],
    "C07": ["Age", "Stage", "Seq"],
    "C08": ["SinkBury", "Settle", "Seq"],
    "C09": ["Stage", "Develop"],
    "C11": ["Reseed"],
    "C16": ["Swim"],
    "C15": ["Grid"],
    "C13": ["Nk"],
    "C04": ["Attr"],
    "C03": ["Release"],
    "C17": ["Release"],
    "C20": ["Mixing", "Seq"],
}
BRIDGE_THEOREMS = {
    "Mixing": ["chem_reflect", "chem_diffuse_const", "chem_labolle_substep", "chem_labolle_time", "chem_horzdiff_K",
               "chem_horzdiff_step", "sed_mix_const", "sed_mix_bounded_linear", "mine_mix", "sed_ladis", "shrimp_mix",
               "sandeel_reflexive", "eel_reflexive", "sandeel_vertical", "eel_vertical"],
    "Band": ["lice_Z", "egg_Z", "egg_update_z", "larvae_Z", "saithe_Z", "chem_clamp", "chem_advect"],
    "SinkBury": ["sed_sink", "mine_sink", "mine_sink_vadv", "sed_bury", "mine_bury"],
    "Swim": ["lice_W", "shrimp_migrate"],
    "Age": ["lice_age", "lice_alive", "egg_age", "chem_kill_old", "sed_kill_old", "mine_kill_old", "vps_update"],
    "Stage": ["larvae_age", "saithe_age", "shrimp_stage"],
    "Develop": ["larvae_weight", "saithe_weight"],
    "Settle": ["sed_ustar", "mine_ustar", "sed_shear", "mine_shear", "sed_resuspend"],
    "Reseed": ["chem_reposition", "chem_coastal", "mine_reposition"],
    "Grid": ["sample3D_weights", "sample3D_offsets", "sample3D_offsets_unit", "sample3D_weights_sum", "z2s_A", "horzdiff_smag",
             "vertdiff_value"],
    "Nk": ["nk_interp"],
    "Attr": ["rel_gaussian", "rel_gaussian_model", "rel_exponential"],
    "Release": ["rel_triangle_area", "rel_bary"],
    "Seq": ["lice_update", "sed_update_seq", "mine_update_seq", "chem_update_seq"],
}

OBLIGATIONS = {
    "C05": [
        "C05.reflect_band", "C05.reflectPred_band", "C05.reflect_disp_band", "C05.advect_band",
        "C05.diffuseConst_band", "C05.labolleSub_band", "C05.diffuseLabolle_band", "C05.uniform_step_le",
        "C05.vertical_band", "C05.horizontal_band", "C05.update_band", "C05.horzdiff_without_clamp_fails",
        "C05.bury_le_H", "C05.bury_nonneg", "C05.mixConst_band", "C05.mixConst_nonneg",
        "C05.mixBoundedLinear_nonneg", "C05.mixBoundedLinear_can_exceed_h", "C05.mixMine_nonneg",
        "C05.sed_update_band", "C05.mine_update_band",
        "C05.mirrorCap_band", "C05.eggZ_band", "C05.lice_band", "C05.clipDepth_band", "C05.npClip_band",
        "C05.reflexive_band", "C05.sandeelZ_band", "C05.eelZ_band", "C05.shrimpMix_nonneg",
        "C05.migration_band_partial", "C05.migration_band_clamped", "C05.migration_overshoot_fails",
        "C05.vpsZ_band", "C05.history_invariant", "C05.egg_history", "C05.sandeel_history",
        "C05.collision_clamp_band", "C05.reposition_without_clamp_keeps_depth", "C05.larva_final_band", "C05.larva_update_z_final",
        # the boundary statements again under rounded arithmetic with an arbitrary monotone, idempotent, odd rounding
        "C05R.Rounding.rnd_mem_Icc", "C05R.Rounding.rnd_abs_le", "C05R.reflect_val", "C05R.reflect_in_range_rd",
        "C05R.reflect_band_rd", "C05R.reflect_rep", "C05R.reflectPred_in_range_rd", "C05R.prereflect_in_range",
        "C05R.reflect_disp_band_rd", "C05R.advect_in_range_rd", "C05R.advect_prereflect_in_range", "C05R.advect_band_rd",
        "C05R.diffuseConst_band_rd", "C05R.labolleSub_band_rd", "C05R.clamp_in_range_rd", "C05R.bury_le_H_rd",
        "C05R.bury_nonneg_rd", "C05R.sink_nonneg_rd", "C05R.sink_bury_in_range_rd", "C05R.mixConst_in_range_rd",
        "C05R.mixMine_nonneg_rd", "C05R.mixBoundedLinear_nonneg_rd", "C05R.mirrorCap_in_range_rd", "C05R.mirrorCap_egg_rd",
        "C05R.mirrorCap_lice_rd", "C05R.shrimpMix_nonneg_rd", "C05R.clipDepth_in_range_rd", "C05R.npClip_in_range_rd",
        "C05R.reflexive_in_range_rd", "C05R.eggZ_in_range_rd", "C05R.lice_in_range_rd", "C05R.toZero", "C05R.Rounding.scale",
        "C05R.fixedPoint",
    ],
    "C07": [
        "C07.chem_age_advance", "C07.chem_age_untouched", "C07.chem_alive_monotone", "C07.chem_death_iff",
        "C07.chem_death_iff_horz", "C07.sed_age_advance", "C07.sed_alive_iff", "C07.mine_age_advance",
        "C07.mine_alive_monotone", "C07.mine_alive_iff_resusp", "C07.sed_age_history",
        "C07.degree_day_age", "C07.degree_day_monotone", "C07.larva_age_advance", "C07.lice_age_advance",
        "C07.lice_alive_iff", "C07.lice_super", "C07.exp_rate_add", "C07.lice_survival_partition",
        "C07.lice_survival_history", "C07.lice_one_day", "C07.shrimp_age_advance", "C07.vps_age_advance",
        "C07.vps_alive_iff", "C07.dead_forever", "C07.sed_dead_forever", "C07.chem_dead_forever",
        "RealInst.expLaws",
    ],
    "C10": [
        "C10.update_perm", "C10.update_sublist", "C10.update_select", "C10.update_nil", "C10.update_pointwise",
        "C10.stuck_ignores_others", "C10.stuck_cons_other", "C10.lookup_perm", "C10.stuck_perm",
        "C10.new_particle_not_stuck",
    ],
    "C08": [
        "C08.tau_formula", "C08.update_z", "C08.update_active", "C08.sink_exact", "C08.sink_exact_mixing",
        "C08.stays_suspended", "C08.settle_on_bed", "C08.settled_rests", "C08.never_resuspends_without_taucrit",
        "C08.resuspends_iff", "C08.flag_range", "C08.flag_distinct", "C08.flag_never_back_to_one", "C08.flag_history",
        "C08.mine_settled_leaves", "C08.nearest_cell_is_nearest", "C08.nearest_cell_clamped", "C08.taucrit_bin_table",
        "C08.taucrit_poly_default", "C08.taucrit_poly_pos", "C08.cache_fresh", "C08.cache_same_step",
        "C08.cache_transparent", "RealInst.sqrtLaws",
    ],
    "C20": [
        "C20.Tplus_eq", "C20.Tminus_eq", "C20.mem_preimagesPlus", "C20.mem_preimagesMinus", "C20.preimages_count",
        "C20.preimagesPlus_nodup", "C20.preimagesMinus_nodup", "C20.Tplus_isometry", "C20.clamp_piles_up",
        "C20.uniform_step_sq", "C20.uniform_second_moment", "C20.normal_step_sq", "C20.normal_step_sq_single",
        "C20.velocity_step_sq", "C20.labolle_const_reduces", "C20.sampleK_capped", "C20.substeps_cover",
        "C20.zCoarse_ge", "C20.zCoarse_near", "RealInst.sqrtLaws",
        # measure-theoretic conclusion (LadimProofs/C20Measure.lean): a symmetric reflected walk keeps the uniform law, a clamp does not
        "C20M.reflect_eq_piecewise", "C20M.reflect_mem_Icc", "C20M.T_maps_into", "C20M.volume_T_plus", "C20M.volume_T_minus",
        "C20M.volume_T_preimage_pair_outer", "C20M.volume_T_preimage_pair", "C20M.single_displacement_not_preserving", "C20M.clamp_has_atom",
        "C20M.volume_T_preimage_family", "C20M.volume_T_preimage_average", "C20M.measurable_T", "C20M.map_T_pair", "C20M.measurable_T_uncurry",
        "C20M.wellmixed_invariant",
    ],
    "C09": [
        "C09.quad3_knots", "C09.hatch_time_table", "C09.hatch_time_clamps", "C09.hatch_time_pos", "C09.egg_rate",
        "C09.egg_stage_increases", "C09.egg_activates_iff", "C09.egg_noop_on_others", "C09.larval_stage_eq",
        "C09.larva_stage_increases", "C09.larva_deactivates_iff", "C09.larva_noop_on_others",
        "C09.sandeel_stage_monotone", "C09.sandeel_history_monotone", "C09.shrimp_delta_stage_nonneg",
        "C09.shrimp_delta_stage_pos", "C09.shrimp_stage_range", "C09.shrimp_stage_monotone", "C09.shrimp_stage_rate",
        "C09.shrimp_length_table", "C09.shrimp_length_monotone", "C09.egg_keeps_weight", "C09.larva_weight_eq",
        "C09.larva_weight_floor", "C09.growth_rate_pos", "C09.growth_pos",
        "InterpLemmas.interp_mono", "InterpLemmas.interpGo_ge", "InterpLemmas.interpGo_le",
        "RealInst.expLaws", "RealInst.rpowLaws", "RealInst.logLaws",
    ],
    "C16": [
        "C16.density_poly_form", "C16.coefB_lower", "C16.coefC_bounds", "C16.density_increases_with_salinity",
        "C16.density_copies_equal", "C16.viscosity_copies_equal", "C16.viscosity_generated_copies_equal",
        "C16.sunheight_copy_equal", "C16.density_check_values", "C16.fabs_neg", "C16.fsign_neg",
        "C16.sink_speed_odd", "C16.sink_speed_zero_at_neutral", "C16.sink_speed_stokes", "C16.sink_speed_sign_stokes",
        "C16.sink_speed_sign_dallavalle", "C16.larva_swims_down_iff", "C16.larva_uses_light_at_depth",
        "C16.lice_up_in_light", "C16.lice_down_in_fresh", "C16.lice_velocity_values", "C16.shrimp_toward_pref",
        "C16.band_light_bounds", "C16.band_light_continuity", "C16.cascade_eq_band", "C16.surface_light_is_band",
        "C16.surface_light_bounds", "C16.day_ratio_unit", "C16.light_decay", "C16.light_decay_monotone",
        "C16.light_decay_additive", "RealInst.sqrtLaws", "RealInst.expLaws", "RealInst.rpowLaws",
    ],
    "C02": [
        "C02.valid_timestamp", "C02.single_particle_old_fails", "C02.releaseTime_eq", "C02.first_is_start",
        "C02.single_particle", "C02.last_is_stop", "C02.last_is_stop_exact", "C02.tdiv_mono",
        "C02.monotone_of_nonneg_span", "C02.antitone_of_neg_span", "C02.even_spacing", "C02.zero_span_constant",
        "C02.sorted_after_sort",
        # the ISO renderer is proved strictly monotone (LadimProofs/C02Iso.lean): no hypothesis on rendering is left
        "C02.civilFromDays_succ", "C02.civilFromDays_range", "C02.civilFromDays_lex_of_lt", "C02.civilFromDays_year_range",
        "C02.padChars_length", "C02.padChars_lt", "C02.pad_length", "C02.pad_lt", "C02.append_lt_append_of_lt",
        "C02.append_lt_append_left", "C02.seg_lt", "C02.renderISO_toList", "C02.isoChars_lt", "C02.renderISO_strictMono",
        "C02.renderISO_lt_iff", "C02.renderISO_injective", "C02.renderISO_length", "C02.sorted_by_iso_string_is_sorted_by_time",
    ],
    "C04": [
        "C04.const_repeated", "C04.list_verbatim", "C04.callable_result", "C04.range_in_range", "C04.range_values",
        "C04.gaussian_bounds", "C04.gaussian_unbounded", "C04.gaussian_bounds_partial", "C04.gaussian_lower_fails",
        "C04.exponential_bounds", "C04.piecewise_range", "C04.piecewise_monotone", "C04.piecewise_hits_knots",
        "C04.mapM_length", "C04.generators_length", "InterpLemmas.interp_mono",
    ],
    "C03": [
        "C03.fold_in_triangle", "C03.bary_convex", "C03.sample_in_halfplanes", "C03.bary_between", "C03.triArea_nonneg",
        "C03.triArea_swap", "C03.pick_in_range", "C03.sample_in_chosen_triangle", "C03.point_exact",
        "C03.metric_deg_inverse", "C03.deg_metric_inverse", "SampleLemmas.searchsorted_spec",
        "SampleLemmas.searchsorted_lt_length",
    ],
    "C17": [
        "C17.normCum_pairwise", "C17.pick_interval", "C17.pick_interval_length", "C17.pick_interval_length_zero",
        "C17.normCum_last", "C17.fold_preimages", "C17.fold_reflection_involutive", "C17.bary_det", "C17.bary_injective",
        "C17.triangle_areas_abs", "C04.range_values", "C04.range_in_range", "SampleLemmas.searchsorted_eq_iff",
        "SampleLemmas.cumsum_get_succ",
        # measure-theoretic conclusion (LadimProofs/C17Measure.lean): the sampled point is uniform on the triangle
        "C17M.fold_eq_foldUnit", "C17M.fold_maps_square_into_triangle", "C17M.volume_fold_preimage", "C17M.volume_Q", "C17M.volume_Tunit",
        "C17M.volume_aff_image", "C17M.volume_triangle", "C17M.volume_triangle_eq_triArea", "C17M.sample_uniform_on_triangle",
    ],
    "C01": [
        "C01.rowsOf_length", "C01.rowCount_eq_sum", "C01.columns_rectangular", "C01.group_contributes_num",
        "C01.row_integrity", "C01.missing_attr_zero", "C01.insertRow_perm", "C01.sortRows_perm", "C01.sortRows_sorted",
        "C01.rows_perm_of_groups", "C01.columns_requested", "C01.columns_default", "C01.dictMerge_new",
        "C01.single_release_default_order", "C01.dictMerge_keys_prefix", "C01.default_order_prefix",
        "C01.props_before_depth_fails", "C01.props_after_depth",
    ],
    "C18": [
        "C18.flat_eq_grouped", "C18.list_eq_grouped", "C18.validate_congr", "C18.containers_agree", "C18.missing_spec",
        "C18.validate_none_iff", "C18.invalid_rejected", "C01.rows_perm_of_groups",
    ],
    "C19": [
        "C19.slots_partition", "C19.slots_count", "C19.slots_lengths", "C19.zip_flatMap_snd", "C19.sqlite_rows_once",
        "C19.sqlite_row_times", "C19.binGo_sound", "C19.binGo_isSome_iff", "C19.binIndex_lt", "C19.sum_indicator",
        "C19.hist_conserves_count", "C19.in_grid_iff", "C19.edges_three", "C19.mids_length", "C19.mids_get",
        "C19.findIdx_spec", "C19.settled_is_last_instance", "C19.mem_insertSorted", "C19.insertSorted_sorted",
        "C19.uniquePids_spec",
        # weighted histograms and multi-dimensional cells (LadimProofs/C19Weighted.lean)
        "C19.foldl_add_eq_sum", "C19.foldl_add_lit_eq_sum", "C19.weightBin_eq_sum", "C19.weightBin_nil", "C19.weightBin_cons",
        "C19.sum_indicator_weight", "C19.sum_indicator_weight_none", "C19.hist_conserves_weight", "C19.weightBin_ones",
        "C19.weightBin_nonneg", "C19.mapM_option_isSome_iff", "C19.mapM_option_some_spec", "C19.cellOf_isSome_iff",
        "C19.cellOf_components", "C19.cellOf_index_lt",
    ],
    "C14": [
        "C14.huon_linear", "C14.hvom_linear", "C14.dW_linear", "C14.wcum_linear", "C14.wscl_linear", "C14.vert_linear",
        "C14.vertW_linear", "C14.w_linear", "C14.w_lateral_zero", "C14.wcum_eq_sum", "C14.vert_flat", "C14.vertW_flat",
        "C14.w_flat_identity", "C14.w_bed_zero_flat", "C14.w_surface_zero_flat", "C14.w_zero_nondivergent",
        "C14.w_positive_surface_convergence", "C14.dW_is_minus_divergence",
    ],
    "C12": [
        "C12BFS.minNonneg_spec", "C12BFS.dilate_step_sound", "C12BFS.dilate_iter_spec", "C12BFS.descent_lowers",
        "C12BFS.follow_reaches_ocean", "C12BFS.dilateIter_descending", "C12.bdilateIter_spec", "C12.fjordInput_init",
        "C12.land_is_obstacle", "C12.fjord_index_is_shortest_path", "C12.follow_fjord_index_reaches_ocean",
        "C12.ocean_velocity_zero", "C12.picture_orientation_fails",
        "C12.notOcean_spec", "C12.ocean_distance_le_one_all_sea_is_ocean", "C12.old_ocean_distance_one_fails",
    ],
    "C15": [
        "C15.clampIdx_range", "C15.clampIdx_inside", "C15.clampIdx_edges", "C15.clampIdx_nearest", "C15.raw_wraps_fails",
        "C15.raw_raises_fails", "C15.raw_agrees_inside", "C15.bilinear_at_node", "C15.bilinear_between",
        "C15.trilinear_weights", "C15.sample3D_convex", "C15.velocity_is_layer_value", "C15.z2sK_range", "C15.z2sA_unit",
        "C15.countBelow_brackets", "C15.z2s_reproduces_depth", "C15.vertdiffLevel_interior", "C15.vertdiff_nonneg",
        "C15.horzdiff_nonneg", "C15.horzdiff_zero_on_land",
    ],
    "C06": [
        "C06.steps_aligned", "C06.unaligned_dt_fails", "C06.late_start_fails", "C06.late_start_fixed", "C06.gap_fails",
        "C06.scalar_t0_fails", "C06.scalar_t0_current", "C06.scalar_prestep_fails", "C06.scalar_stepdiff_ok",
        "C06.nextStep_spec", "C06.nextStep_of_mem", "C06.prestepOf_spec", "C06.bracket_unique", "C06.inv_step", "C06.inv_main",
        "C06.velocity_consecutive", "C06.updateRange_add", "C06.run_loop_eq_range", "C06.update_loop_eq_range",
        "C06.velocity_any_schedule", "C06.velocity_on_frame", "C06.scalar_on_frame", "C06.scalar_on_frame_t0", "C06.scalar_held",
        "C06.scalar_held_after_prestep", "C06.scalar_before_first_frame", "C06.lerpS_between", "C06.scalar_between",
    ],
    "C13": [
        "C13.interp_is_lerp", "C13.interp_whole_hour", "C13.interp_between", "C13.backward_whole_hour_fails",
        "C13.backward_is_mirrored", "C13.backward_differs", "C13.hour_fraction_range", "C13.hour_decomposition",
        "C13.time_of_step", "C13.metric_index_in_range", "C13.raw_outermost_fails", "C13.z2k_monotone",
        "C13.z2k_exact_first", "C13.z2k_tail", "C13.z2k_clamps_left",
        "C13.lookup_assign_self", "C13.lookup_assign_other", "C13.valid_empty", "C13.valid_prune", "C13.get_push_self",
        "C13.valid_push", "C13.contains_iff", "C13.getVar_transparent", "C13.getVar_reads_iff_miss", "C13.serve_of_valid",
        "C13.buffer_transparent", "C13.push_two_live_frames",
        "C13.roundDivHalfEven_exact", "C13.substep_time_exact", "C13.substep_time_old_truncates", "C13.hour_fraction_us_range",
        "C13.hour_decomposition_us",
    ],
    "C11": [
        "C11.feq_iff", "C11.reposition_moves_only_stuck", "C11.stuck_is_repositioned", "C11.alias_partial",
        "C11.alias_reseeds_free_particle_fails", "C11.reseed_in_cell", "C11.clampI_range", "C11.stencil8_spec",
        "C11.is_close_to_land_spec", "C11.argminFirst_spec", "C11.nearest_unmasked_spec", "C11.directed_swim_safe",
        "C11.strategy_moves_only_flagged", "C10.stuck_perm", "C10.new_particle_not_stuck",
        "C11.saithe_stays_or_valid", "C11.saithe_dies_iff_outside", "C11.saithe_outside_stays", "C11.saithe_never_onto_land_or_out",
        "C11.eel_moves_iff", "C11.eel_never_onto_land_or_out",
        "C11.reseed_binary64_touches_upper_border", "C11.reseed_binary64_second_largest_draw_too", "C11.reseed_binary64_smaller_draw_inside",
    ],
}

for _p, _bs in BRIDGES.items():
    for _b in _bs:
        OBLIGATIONS[_p] = OBLIGATIONS[_p] + ["Bridge.%s" % _t for _t in BRIDGE_THEOREMS[_b]]
