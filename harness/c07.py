"""C07 — ageing, mortality and death are monotone, exact and step-size independent.

Correspondence: shared per-particle IBM correspondence (ibmrun / c05.run) on age, alive, days, super.
Oracle (implementation side): age advance in the documented unit, alive' => alive, death exactly at the
lifespan / biological limit, salmon-lice survival independent of the partition of a time span."""
import math
import numpy as np
from . import ibmrun, c05
from .common import close

RULE = ("per module: random configuration x 0..8 particles with ages placed exactly at, one step below and above "
        "each threshold (lifespan, 170 degree-days, 2^30 s), dt from 1 s to 1 h, temperatures -1.5..25; single "
        "updates and 2..6-step histories in which dead particles stay in the arrays; plus lice partition "
        "experiments (one step of T vs k steps of T/k). Non-trivial: >=1 particle.")
ASSUMPTIONS = ["state.dt equals the configured dt in most cases (LADiM sets state.dt = solver step); cases with "
               "state.dt != dt check that age follows state.dt"]
MODS = ["chemicals", "sedimentation", "mine", "salmon_lice", "egg", "larvae", "saithe", "shrimp", "vps"]


def oracle(ctx, name, case, res):
    b, a, n = res["before"], res["after"], res["n"]
    site = "ladim_plugins/%s/ibm.py" % name
    dt = case["dt"]
    for i in range(n):
        cs = dict(module=name, case=ibmrun.case_summary(case), particle=i,
                  before={k: v[i] for k, v in b.items()}, after={k: v[i] for k, v in a.items()})
        if "alive" in a and "alive" in b:
            ctx.oracle((not a["alive"][i]) or b["alive"][i], "C07.%s.revived" % name, site,
                       "dead particle alive again", cs)
        if name == "chemicals":
            if case["lifespan"] is not None:
                ctx.oracle(a["age"][i] == b["age"][i] + dt, "C07.chemicals.age_advance", site,
                           "age %r -> %r, dt=%r" % (b["age"][i], a["age"][i], dt), cs)
                ingrid = bool(case["env"].ingrid(a["x"][i], a["y"][i])) if case["horz"] is None else None
                if case["horz"] is None:
                    want = bool(b["alive"][i]) and (b["age"][i] + dt <= case["lifespan"])
                    ctx.oracle(bool(a["alive"][i]) == want, "C07.chemicals.death_iff", site,
                               "alive'=%r, age'=%r lifespan=%r" % (a["alive"][i], a["age"][i], case["lifespan"]), cs)
                else:
                    ctx.oracle((not a["alive"][i]) or a["age"][i] <= case["lifespan"], "C07.chemicals.too_old_alive",
                               site, "alive with age'=%r > %r" % (a["age"][i], case["lifespan"]), cs)
        elif name in ("sedimentation", "mine"):
            ctx.oracle(a["age"][i] == b["age"][i] + case["sdt"], "C07.%s.age_advance" % name, site,
                       "age %r -> %r, state.dt=%r" % (b["age"][i], a["age"][i], case["sdt"]), cs)
            old_ok = b["age"][i] + case["sdt"] <= case["lifespan"]
            if name == "sedimentation" or case["taucrit"] < 1000:
                ctx.oracle(bool(a["alive"][i]) == (bool(b["alive"][i]) and old_ok), "C07.%s.death_iff" % name, site,
                           "alive'=%r age'=%r lifespan=%r" % (a["alive"][i], a["age"][i], case["lifespan"]), cs)
            else:
                ctx.oracle((not a["alive"][i]) or old_ok, "C07.mine.too_old_alive", site, "alive beyond lifespan", cs)
        elif name in ("egg", "larvae", "saithe", "salmon_lice"):
            temp = a["temp"][i]
            sdt = case.get("sdt", dt)
            ctx.oracle(a["age"][i] == b["age"][i] + temp * sdt / 86400, "C07.%s.age_advance" % name, site,
                       "age %r -> %r, temp=%r dt=%r" % (b["age"][i], a["age"][i], temp, sdt), cs)
            if name == "salmon_lice":
                ctx.oracle(a["days"][i] == b["days"][i] + 1.0 * (sdt / 86400), "C07.salmon_lice.days_advance", site,
                           "days %r -> %r" % (b["days"][i], a["days"][i]), cs)
                ctx.oracle(bool(a["alive"][i]) == (bool(b["alive"][i]) and a["age"][i] < 170), "C07.salmon_lice.death_iff",
                           site, "alive'=%r age'=%r" % (a["alive"][i], a["age"][i]), cs)
                ctx.oracle(close(a["super"][i], b["super"][i] * math.exp(-0.17 * dt / 86400), 1e-12),
                           "C07.salmon_lice.mortality_rate", site,
                           "super %r -> %r, expected factor exp(-0.17*dt/86400)=%r" % (b["super"][i], a["super"][i], math.exp(-0.17 * dt / 86400)), cs)
        elif name == "shrimp":
            ctx.oracle(a["age"][i] == b["age"][i] + dt / 86400, "C07.shrimp.age_advance", site,
                       "age %r -> %r dt=%r" % (b["age"][i], a["age"][i], dt), cs)
        elif name == "vps":
            ctx.oracle(a["age"][i] == b["age"][i] + dt, "C07.vps.age_advance", site, "age", cs)
            want = bool(b["alive"][i]) and (a["age"][i] < 2 ** 30) and (case["u"][i] != 0 or case["v"][i] != 0)
            ctx.oracle(bool(a["alive"][i]) == want, "C07.vps.death_iff", site,
                       "alive'=%r age'=%r u=%r v=%r" % (a["alive"][i], a["age"][i], case["u"][i], case["v"][i]), cs)


def lice_partition(ctx):
    """survival after T must not depend on how T is divided into steps"""
    M = ibmrun.mod("salmon_lice")
    from .stubs import real_state
    for _ in range(ctx.n(30, 400)):
        T = ctx.rng.choice([3600.0, 86400.0, 43200.0, 7200.0])
        k = ctx.rng.choice([2, 3, 4, 6, 12, 24])
        case = ibmrun.lice_case(ctx.rng, n=3)
        sup = {}
        for parts in (1, k):
            c = dict(case); c["dt"] = T / parts; c["sdt"] = T / parts; c["D"] = 0.0
            ibm = None; state = None
            cc = c
            for s in range(parts):
                res = ibmrun.lice_run(cc, ctx.sub_seed(), None, None, ibm=ibm, state=state)
                ibm, state = res["ibm"], res["state"]
                cc = c05.refresh_case("salmon_lice", cc, res)
            sup[parts] = np.array(state["super"]).copy()
        ctx.case(key=("lice_partition", T, k, repr(case["super"].tolist())), nontrivial=True)
        ctx.branch("lice.partition")
        for i in range(3):
            ctx.oracle(close(sup[1][i], sup[k][i], 1e-12), "C07.salmon_lice.partition_independent",
                       "ladim_plugins/salmon_lice/ibm.py",
                       "T=%r in 1 step: %r ; in %d steps: %r" % (T, sup[1][i], k, sup[k][i]),
                       dict(T=T, k=k, super0=case["super"][i]))
            ctx.oracle(close(sup[1][i], case["super"][i] * math.exp(-0.17 * T / 86400), 1e-12),
                       "C07.salmon_lice.survival_value", "ladim_plugins/salmon_lice/ibm.py",
                       "T=%r: %r vs exp(-0.17 T/86400)" % (T, sup[1][i]), dict(T=T, super0=case["super"][i]))


def run(ctx):
    c05.run(ctx, modules=MODS, oracle=oracle)
    lice_partition(ctx)


def replay(payload):
    print("predicate:", payload.get("predicate"), "|", payload.get("detail"))
    print(payload.get("case"))
    return False
