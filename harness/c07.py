"""C07 — ageing, mortality and death are monotone, exact and step-size independent.

Correspondence: shared per-particle IBM correspondence (ibmrun / c05.run) on age, alive, days, super.
Oracle (implementation side): age advance in the documented unit, alive' => alive, death exactly at the
lifespan / biological limit, salmon-lice survival independent of the partition of a time span."""
import math
import numpy as np
from . import ibmrun, c05
from .common import close

RULE = ("per module: random configuration x 0..8 particles with ages placed exactly at, one step below and above "
        "each threshold (lifespan, 170 degree-days, 2^30 s), dt from 1 s to 1 h (vps, lice, shrimp: up to > 1 day; "
        "integer dt ~30%), temperatures -1.5..25; in ~half of the cases ~35% of the particles are already dead when "
        "the update is called (young and old ones); in ~20% state.dt is 2x or 1/2 the configured dt (every module); "
        "lifespans 0 / 0.0 / integer / equal to dt / 2 dt / 1e9 with ages around them (chemicals ~30%, sedimentation "
        "and mine ~20%); vps: dt 1 s..1 day and ages 2^30-dt, 2^30-dt-1, 2^30-2dt, 2^30, 2^30+1, 2^29, 1e9, uniform; "
        "single updates and 2..6-step histories (all nine modules, vps included) in which dead particles stay in the "
        "arrays; lice partition experiments: one step of T vs k equal steps (T 1 h..250000 s, k 2..24, also T/k not "
        "dividing a day) and vs an unequal partition with a re-created IBM per step; mine with the death-record file "
        "(`output_file`) switched on. Non-trivial: >=1 particle.")
ASSUMPTIONS = ["state.dt equals the configured dt in most cases (LADiM sets state.dt = solver step); in the cases with "
               "state.dt != dt every module is judged against the clock it reads today (sedimentation, mine, lice "
               "age/days, larvae, saithe: state.dt; chemicals, egg, shrimp, vps, lice mortality: configured dt)",
               "chemicals without a lifespan: age is not maintained (Lean obligation C07.chem_age_untouched) and nobody "
               "dies of age",
               "degree-day modules: the temperature is the ambient one at the particle's position when the update is "
               "called (stub field t0 + tz*Z, exact)"]
MODS = ["chemicals", "sedimentation", "mine", "salmon_lice", "egg", "larvae", "saithe", "shrimp", "vps"]
NO_DEATH = ("egg", "larvae", "saithe", "shrimp")      # modules without a lifespan / biological age limit


# ------------------------------------------------------------------------------------------ C07's own input classes
def vary(rng, name, case):
    """post-processes a case of the shared generator (only optional keys / values inside the quantifier)"""
    n = len(case["x"])
    dt = case["dt"]
    # particles that are already dead when the update is called (killed earlier, kept in the arrays)
    if n and rng.random() < 0.5:
        case["alive0"] = np.array([rng.random() >= 0.35 for _ in range(n)])
    # the state's clock differs from the configured time step
    if rng.random() < 0.2:
        s = rng.choice([2 * dt, dt / 2])
        if name in ("sedimentation", "mine", "salmon_lice", "larvae", "saithe"):
            case["sdt"] = s
        else:
            case["state_dt"] = s
    if name == "chemicals" and rng.random() < 0.3:
        L = rng.choice([0, 0.0, 3600, dt, 2 * dt, 1e9])
        case["lifespan"] = L
        case["age"] = np.array([rng.choice([0.0, 50.0, L - dt, L, L + 1, L - 2 * dt, 1e5]) for _ in range(n)], dtype=float)
    if name in ("sedimentation", "mine") and rng.random() < 0.2:
        L = rng.choice([0, 0.0, 3600, dt, 2 * dt])
        sdt = case["sdt"]
        case["lifespan"] = L
        case["age"] = np.array([rng.choice([0.0, L - sdt, L, L + 1, L - 2 * sdt, L - dt]) for _ in range(n)], dtype=float)
    if name == "vps" and rng.random() < 0.75:
        dt = case["dt"] = rng.choice([1.0, 60.0, 600.0, 3600.0, 86400.0])
        if "state_dt" in case:
            case["state_dt"] = rng.choice([2 * dt, dt / 2])
        M = 2.0 ** 30
        case["age"] = np.array([rng.choice([0.0, 100.0, M - dt, M - dt - 1, M - 2 * dt, M, M + 1, 2.0 ** 29, 1e9,
                                            float(rng.randrange(0, 2 ** 31))]) for _ in range(n)], dtype=float)
    return case


def _gen(name):
    base = ibmrun.MODULES[name][0]

    def g(rng, n=None, **kw):
        return vary(rng, name, base(rng, n=n, **kw) if kw else base(rng, n))
    return g


GENS = {name: _gen(name) for name in MODS}


def tags(ctx, name, case, res):
    b = res["before"]
    if "alive" in b and res["n"]:
        dead = ~np.asarray(b["alive"], bool)
        if dead.any():
            ctx.branch("%s.dead_before_update" % name, int(dead.sum()))
    clock = case["state_dt"] if "state_dt" in case else case.get("sdt", case["dt"])
    if clock != case["dt"]:
        ctx.branch("%s.state_dt_differs" % name)
    if name in ("chemicals", "sedimentation", "mine") and case["lifespan"] is not None:
        if case["lifespan"] == 0:
            ctx.branch("%s.lifespan_zero" % name)
        if isinstance(case["lifespan"], int):
            ctx.branch("%s.lifespan_int" % name)
    if name == "vps" and res["n"]:
        a = res["after"]["age"]
        ctx.branch("vps.age_lands_on_2^30", int(np.sum(a == 2.0 ** 30)))
        ctx.branch("vps.age_lands_just_below_2^30", int(np.sum(a == 2.0 ** 30 - 1)))
        ctx.branch("vps.age_between_1e9_and_2^30", int(np.sum((a >= 1e9) & (a < 2.0 ** 30 - 1))))


def oracle(ctx, name, case, res):
    b, a, n = res["before"], res["after"], res["n"]
    site = "ladim_plugins/%s/ibm.py" % name
    dt = case["dt"]
    tags(ctx, name, case, res)
    for i in range(n):
        cs = dict(module=name, case=ibmrun.case_summary(case), particle=i,
                  before={k: v[i] for k, v in b.items()}, after={k: v[i] for k, v in a.items()})
        if "alive" in a and "alive" in b:
            ctx.oracle((not a["alive"][i]) or b["alive"][i], "C07.%s.revived" % name, site,
                       "dead particle alive again", cs)
        if name in NO_DEATH and "alive" in a and "alive" in b and not (name == "saithe" and case.get("spread")):
            # no lifespan and no biological age limit in these modules: nobody is marked dead by the update
            # (saithe with extra_spreading also retires larvae that leave the grid: not this property's subject)
            ctx.oracle(bool(a["alive"][i]) == bool(b["alive"][i]), "C07.%s.no_death" % name, site,
                       "alive %r -> %r in a module without age limit" % (b["alive"][i], a["alive"][i]), cs)
        if name in ("egg", "larvae", "saithe", "salmon_lice"):
            # degree-days = temperature x days: the temperature is the ambient one at the particle's position when the
            # update is called (the stub field t0 + tz*Z is evaluated with the same two operations: exact)
            want_t = float(case["env"].field(case["x"][i], case["y"][i], b["z"][i], "temp"))
            ctx.oracle(float(a["temp"][i]) == want_t, "C07.%s.ambient_temperature" % name, site,
                       "temp used %r, ambient temperature at Z=%r is %r" % (a["temp"][i], b["z"][i], want_t), cs)
        if name == "chemicals":
            if case["lifespan"] is None:
                # no lifespan configured: nobody dies of age, and the age variable is not maintained
                # (C07.chem_age_untouched); with horizontal diffusion a particle may still leave the grid
                if case["horz"] is None:
                    ctx.oracle(bool(a["alive"][i]) == bool(b["alive"][i]), "C07.chemicals.no_lifespan_no_death", site,
                               "alive %r -> %r without a lifespan" % (b["alive"][i], a["alive"][i]), cs)
                ctx.oracle(a["age"][i] == b["age"][i], "C07.chemicals.age_untouched_without_lifespan", site,
                           "age %r -> %r without a lifespan" % (b["age"][i], a["age"][i]), cs)
            if case["lifespan"] is not None:
                ctx.oracle(a["age"][i] == b["age"][i] + dt, "C07.chemicals.age_advance", site,
                           "age %r -> %r, dt=%r" % (b["age"][i], a["age"][i], dt), cs)
                ingrid = bool(case["env"].ingrid(a["x"][i], a["y"][i])) if case["horz"] is None else None
                if case["horz"] is None:
                    want = bool(b["alive"][i]) and (b["age"][i] + dt <= case["lifespan"])
                    ctx.oracle(bool(a["alive"][i]) == want, "C07.chemicals.death_iff", site,
                               "alive'=%r, age'=%r lifespan=%r" % (a["alive"][i], a["age"][i], case["lifespan"]), cs)
                else:
                    ctx.oracle((not a["alive"][i]) or a["age"][i] <= case["lifespan"], "C07.chemicals.too_old_alive",
                               site, "alive with age'=%r > %r" % (a["age"][i], case["lifespan"]), cs)
        elif name in ("sedimentation", "mine"):
            ctx.oracle(a["age"][i] == b["age"][i] + case["sdt"], "C07.%s.age_advance" % name, site,
                       "age %r -> %r, state.dt=%r" % (b["age"][i], a["age"][i], case["sdt"]), cs)
            old_ok = b["age"][i] + case["sdt"] <= case["lifespan"]
            if name == "sedimentation" or case["taucrit"] < 1000:
                ctx.oracle(bool(a["alive"][i]) == (bool(b["alive"][i]) and old_ok), "C07.%s.death_iff" % name, site,
                           "alive'=%r age'=%r lifespan=%r" % (a["alive"][i], a["age"][i], case["lifespan"]), cs)
            else:
                ctx.oracle((not a["alive"][i]) or old_ok, "C07.mine.too_old_alive", site, "alive beyond lifespan", cs)
        elif name in ("egg", "larvae", "saithe", "salmon_lice"):
            temp = a["temp"][i]
            sdt = case.get("sdt", dt)
            ctx.oracle(a["age"][i] == b["age"][i] + temp * sdt / 86400, "C07.%s.age_advance" % name, site,
                       "age %r -> %r, temp=%r dt=%r" % (b["age"][i], a["age"][i], temp, sdt), cs)
            if name == "salmon_lice":
                ctx.oracle(a["days"][i] == b["days"][i] + 1.0 * (sdt / 86400), "C07.salmon_lice.days_advance", site,
                           "days %r -> %r" % (b["days"][i], a["days"][i]), cs)
                ctx.oracle(bool(a["alive"][i]) == (bool(b["alive"][i]) and a["age"][i] < 170), "C07.salmon_lice.death_iff",
                           site, "alive'=%r age'=%r" % (a["alive"][i], a["age"][i]), cs)
                ctx.oracle(close(a["super"][i], b["super"][i] * math.exp(-0.17 * dt / 86400), 1e-12),
                           "C07.salmon_lice.mortality_rate", site,
                           "super %r -> %r, expected factor exp(-0.17*dt/86400)=%r" % (b["super"][i], a["super"][i], math.exp(-0.17 * dt / 86400)), cs)
        elif name == "shrimp":
            ctx.oracle(a["age"][i] == b["age"][i] + dt / 86400, "C07.shrimp.age_advance", site,
                       "age %r -> %r dt=%r" % (b["age"][i], a["age"][i], dt), cs)
        elif name == "vps":
            ctx.oracle(a["age"][i] == b["age"][i] + dt, "C07.vps.age_advance", site, "age", cs)
            want = bool(b["alive"][i]) and (a["age"][i] < 2 ** 30) and (case["u"][i] != 0 or case["v"][i] != 0)
            ctx.oracle(bool(a["alive"][i]) == want, "C07.vps.death_iff", site,
                       "alive'=%r age'=%r u=%r v=%r" % (a["alive"][i], a["age"][i], case["u"][i], case["v"][i]), cs)


def lice_partition(ctx):
    """survival after T must not depend on how T is divided into steps"""
    M = ibmrun.mod("salmon_lice")
    from .stubs import real_state
    for _ in range(ctx.n(30, 400)):
        T = ctx.rng.choice([3600.0, 86400.0, 43200.0, 7200.0])
        k = ctx.rng.choice([2, 3, 4, 6, 12, 24])
        case = ibmrun.lice_case(ctx.rng, n=3)
        sup = {}
        for parts in (1, k):
            c = dict(case); c["dt"] = T / parts; c["sdt"] = T / parts; c["D"] = 0.0
            ibm = None; state = None
            cc = c
            for s in range(parts):
                res = ibmrun.lice_run(cc, ctx.sub_seed(), None, None, ibm=ibm, state=state)
                ibm, state = res["ibm"], res["state"]
                cc = c05.refresh_case("salmon_lice", cc, res)
            sup[parts] = np.array(state["super"]).copy()
        ctx.case(key=("lice_partition", T, k, repr(case["super"].tolist())), nontrivial=True)
        ctx.branch("lice.partition")
        for i in range(3):
            ctx.oracle(close(sup[1][i], sup[k][i], 1e-12), "C07.salmon_lice.partition_independent",
                       "ladim_plugins/salmon_lice/ibm.py",
                       "T=%r in 1 step: %r ; in %d steps: %r" % (T, sup[1][i], k, sup[k][i]),
                       dict(T=T, k=k, super0=case["super"][i]))
            ctx.oracle(close(sup[1][i], case["super"][i] * math.exp(-0.17 * T / 86400), 1e-12),
                       "C07.salmon_lice.survival_value", "ladim_plugins/salmon_lice/ibm.py",
                       "T=%r: %r vs exp(-0.17 T/86400)" % (T, sup[1][i]), dict(T=T, super0=case["super"][i]))


def _split(rng, T, k):
    """an unequal partition of T into k positive step lengths (whole seconds; the last one takes the remainder)"""
    cuts = sorted(rng.sample(range(1, int(T)), k - 1))
    ds = [float(b - a) for a, b in zip([0] + cuts, cuts + [int(T)])]
    return ds


def lice_partition_general(ctx):
    """the same, for time spans and step lengths that do not divide a day, spans longer than a day, and UNEQUAL
    partitions (a run restarted with another time step: the IBM is re-created for each step length, the state is
    carried over).  Tolerance 1e-12 (relative): a product of k <= 24 correctly rounded factors exp(-0.17 d/86400)
    differs from exp(-0.17 T/86400) by a few ulp of libm's exp and k roundings (~1e-15)."""
    site = "ladim_plugins/salmon_lice/ibm.py"
    for _ in range(ctx.n(30, 400)):
        T = ctx.rng.choice([10000.0, 100000.0, 250000.0, 86400.0, 3600.0, 7000.0])
        k = ctx.rng.choice([2, 3, 5, 7, 9, 11, 24])
        unequal = ctx.rng.random() < 0.6
        ds = _split(ctx.rng, T, k) if unequal else [T / k] * k
        case = ibmrun.lice_case(ctx.rng, n=3)
        if ctx.rng.random() < 0.4:
            case["alive0"] = np.array([ctx.rng.random() < 0.5 for _ in range(3)])
        sup = {}
        for label, steps in (("one", [T]), ("many", ds)):
            state = None
            cc = dict(case); cc["D"] = 0.0
            for d in steps:
                cc = dict(cc); cc["dt"] = d; cc["sdt"] = d; cc["int_dt"] = False
                if state is not None:
                    state.dt = d
                res = ibmrun.lice_run(cc, ctx.sub_seed(), None, None, ibm=None, state=state)   # fresh IBM: its own dt
                state = res["state"]
                cc = c05.refresh_case("salmon_lice", cc, res)
            sup[label] = np.array(state["super"]).copy()
        ctx.case(key=("lice_partition_general", T, tuple(ds), repr(case["super"].tolist())), nontrivial=True)
        ctx.branch("lice.partition.unequal" if unequal else "lice.partition.equal_general")
        if T > 86400:
            ctx.branch("lice.partition.longer_than_a_day")
        if any(86400 % d for d in ds):
            ctx.branch("lice.partition.step_not_dividing_a_day")
        for i in range(3):
            cs = dict(T=T, steps=ds, super0=case["super"][i], alive0=None if "alive0" not in case else bool(case["alive0"][i]))
            ctx.oracle(close(sup["one"][i], sup["many"][i], 1e-12), "C07.salmon_lice.partition_independent", site,
                       "T=%r in 1 step: %r ; in steps %r: %r" % (T, sup["one"][i], ds, sup["many"][i]), cs)
            ctx.oracle(close(sup["many"][i], case["super"][i] * math.exp(-0.17 * T / 86400), 1e-12),
                       "C07.salmon_lice.survival_value", site,
                       "steps %r: %r vs super0*exp(-0.17 T/86400)=%r" % (ds, sup["many"][i],
                                                                         case["super"][i] * math.exp(-0.17 * T / 86400)), cs)


NC_ATTRS = dict(pid=dict(ncformat="i4", long_name="particle identifier"),
                age=dict(ncformat="f8", long_name="age at death", units="s"),
                X=dict(ncformat="f8", long_name="grid X"), Y=dict(ncformat="f8", long_name="grid Y"))


def mine_death_record(ctx):
    """mine with the separate death-record file switched on (`ibm.output_file`, variables of `output_instance`):
    the ageing / death oracles hold as without it, and a particle that dies in an update (of age or buried without
    resuspension) is on record afterwards with its age, while a particle that is alive is not."""
    import os, tempfile, netCDF4
    site = "ladim_plugins/mine/ibm.py"
    gen = GENS["mine"]
    with tempfile.TemporaryDirectory(prefix="c07mine") as tmp:
        for h in range(ctx.n(12, 150)):
            case = gen(ctx.rng, n=ctx.rng.randrange(1, 7))
            case["land"] = "freeze"
            fname = os.path.join(tmp, "dead_%d.nc" % h)
            case["output_file"] = fname
            case["output_instance"] = ["pid", "age", "X", "Y"]
            case["nc_attributes"] = NC_ATTRS
            ibm = None; state = None
            nrec = 0
            for s in range(ctx.rng.randrange(1, 5)):
                res = ibmrun.mine_run(case, ctx.sub_seed(), None, ibmrun.tail_injector(ctx.rng, 0.1), ibm=ibm, state=state)
                ibm, state = res["ibm"], res["state"]
                if hasattr(state, "timestep"):
                    state.timestep = state.timestep + 1
                ctx.case(key=("mine", "death_record", h, s, repr(ibmrun.case_summary(case))), nontrivial=True)
                ctx.branch("mine.death_record_file")
                oracle(ctx, "mine", case, res)
                with netCDF4.Dataset(fname) as ds:
                    pid = np.array(ds.variables["pid"][:]).astype(int)
                    age = np.array(ds.variables["age"][:]).astype(float)
                new_pid, new_age = pid[nrec:], age[nrec:]
                nrec = len(pid)
                b, a = res["before"], res["after"]
                spid = np.asarray(state.pid).astype(int)
                for i in range(res["n"]):
                    cs = dict(module="mine", case=ibmrun.case_summary(case), particle=i, step=s,
                              recorded_pid=new_pid.tolist(), recorded_age=new_age.tolist(),
                              before={k: v[i] for k, v in b.items()}, after={k: v[i] for k, v in a.items()})
                    on = new_pid == spid[i]
                    if b["alive"][i] and not a["alive"][i]:
                        ctx.branch("mine.death_recorded")
                        ctx.oracle(on.any() and bool(np.any(new_age[on] == a["age"][i])), "C07.mine.death_on_record", site,
                                   "particle pid=%d died at age %r; this update recorded pids %r ages %r"
                                   % (spid[i], a["age"][i], new_pid.tolist(), new_age.tolist()), cs)
                    if a["alive"][i]:
                        ctx.oracle(not on.any(), "C07.mine.alive_on_death_record", site,
                                   "particle pid=%d is alive but was recorded as dead" % spid[i], cs)
                case = c05.refresh_case("mine", case, res)


def run(ctx):
    c05.run(ctx, modules=MODS, oracle=oracle, gens=GENS, hist_extra=("vps",))
    lice_partition(ctx)
    lice_partition_general(ctx)
    mine_death_record(ctx)


def replay(payload):
    print("predicate:", payload.get("predicate"), "|", payload.get("detail"))
    print(payload.get("case"))
    return False
