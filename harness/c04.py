"""C04 — release attribute values honour their specification.

Correspondence: real `makrel.get_attr(v, num)` under the RNG recorder (tails injected) against the Lean
`Attr.getAttr`, in both argument orders of the gaussian clip (the harness determines which one the code
matches).  Oracle: documented bounds per form, every documented form accepted for every num >= 1.

Every specification is deep-copied before the call and judged against the pristine copy (an implementation that
sorts / rewrites the caller's list or mapping in place cannot make the oracle agree with its own output); a share
of the cases hands the *same* specification object to `get_attr` a second time and judges that call as well."""
import math, importlib, copy
import numpy as np
from .common import Driver, F, I, L, OPT, unF, RngRecorder, close
from . import ibmrun

RULE = ("every attribute form (scalar incl. numpy scalars; list of length num with integral, fractional (uniform(-50,50), 0.5, -0.0, "
        "1e-12, 1e9+0.5) or int elements; [low, high] with integral, fractional or int ends; gaussian with/without min/max; "
        "exponential with/without max; piecewise with/without the documented optional key `degree` in {1,2,3}; callable "
        "(lambda returning an array, lambda returning a list, callable object); dotted name with one dot (numpy.arange) and with "
        "two dots (a recording probe function of this module)) x num in {1,2,3,5,17} x parameter grids (float and int typed "
        "parameters as in release.yaml; std in {0, 0.1, 1, 2.5, 10, 1e3}; gaussian mean up to 1e6 and negative; exponential mean in "
        "{0, 0.01, 1, 5, 10, 1e6}; bounds 0 / 0.0 / negative; knots in (0,100), (-100,100) or distinct ints, flat first piece) x "
        "containers (list / tuple / ndarray for lists and ranges); draws recorded with +-8 sigma normals, exponentials of 40x the "
        "mean, u=0 and u=1-2^-53 injected (also when the code asks numpy's random_sample / random / standard_normal / "
        "standard_exponential); 30% of the cases call get_attr twice with the same specification object; piecewise knots probed "
        "with a constant u = cdf_k (num 3) and with a different cdf_k per particle (num in {1,2,3,5,17}). Non-trivial: every case.")
ASSUMPTIONS = ["scipy InterpolatedUnivariateSpline(k=1) is modelled as linear interpolation (checked to 1e-12 on every run)",
               "the optional piecewise key `degree` (documented in release.yaml) is not read by the code (k=1 is hard-coded); the model "
               "is linear interpolation for every degree, and the bounds / cumulative-probability oracles are applied unchanged",
               "tuples / numpy arrays / numpy scalars are taken as the Python-API spellings of 'list of length num', '[low, high]' "
               "and 'scalar' (get_attr dispatches on __len__, not on the type list)"]
SITE = "ladim_plugins/release/makrel.py::get_distribution"
SITE_ATTR = "ladim_plugins/release/makrel.py::get_attr"

KINDS = ["const", "list", "range", "gauss", "gauss_b", "gauss_lo", "gauss_hi", "exp", "exp_max", "piece", "callable", "dotted",
         "callable_list", "callable_obj", "dotted_deep"]
STOCHASTIC = {"range": "uniform", "piece": "rand"}


# ----------------------------------------------------------------------------- recording probes (callable / dotted name)
PROBE_CALLS = []


def _probe_values(size):
    # like numpy.zeros / numpy.random.rand: the size must be an integer count (range() raises TypeError on a float)
    return [10.0 + 0.5 * i for i in range(size)]


def probe_count(*args, **kwargs):
    """target of the dotted name `<this module>.probe_count` (two dots): records how it was called"""
    PROBE_CALLS.append((args, dict(kwargs)))
    return _probe_values(*args, **kwargs)


class CountProbe:
    """a callable object (no __len__) that records how it was called"""

    def __init__(self):
        self.calls = []

    def __call__(self, *args, **kwargs):
        self.calls.append((args, dict(kwargs)))
        return np.array(_probe_values(*args, **kwargs)) - 20.0

    def __deepcopy__(self, memo):
        return self

    def __repr__(self):
        return "<callable object n -> 0.5*arange(n) - 10>"


class Recorder(RngRecorder):
    """RngRecorder that also serves the remaining legacy entry points of numpy's global generator, each logged under its own
    name.  Code that switches to one of them is then reported as a draw-schedule disagreement as before, but its draws are
    still recorded and the tails are still injected, so the oracles below keep judging it instead of holding vacuously."""
    KINDS = RngRecorder.KINDS + ("random_sample", "random", "ranf", "sample", "standard_normal", "standard_exponential")

    def _emit_as(self, kind, inj_kind, values, size):
        values = np.asarray(values, dtype=float)
        if self.inject is not None:
            values = np.asarray(self.inject(inj_kind, (), values.copy()), dtype=float)
        self.log.append((kind, (), values.shape, values.copy()))
        return values if size is not None else float(values)

    def random_sample(self, size=None):
        return self._emit_as("random_sample", "rand", self.rs.random_sample(size), size)

    def random(self, size=None):
        return self._emit_as("random", "rand", self.rs.random_sample(size), size)

    def ranf(self, size=None):
        return self._emit_as("ranf", "rand", self.rs.random_sample(size), size)

    def sample(self, size=None):
        return self._emit_as("sample", "rand", self.rs.random_sample(size), size)

    def standard_normal(self, size=None):
        return self._emit_as("standard_normal", "randn", self.rs.standard_normal(size), size)

    def standard_exponential(self, size=None):
        return self._emit_as("standard_exponential", "exponential", self.rs.standard_exponential(size), size)


# ----------------------------------------------------------------------------- generators
def _container(rng, xs, tags, what):
    """the same sequence as a list (as YAML gives it), a tuple or a numpy array (Python API)"""
    c = rng.choice(["list", "list", "list", "tuple", "ndarray"])
    if c == "tuple":
        tags.append("%s.container=tuple" % what); return tuple(xs)
    if c == "ndarray":
        tags.append("%s.container=ndarray" % what); return np.array(xs)
    return list(xs)


def gen_piece(rng, tags):
    n = rng.randrange(2, 6)
    cdf = sorted(set([0.0, 1.0] + [round(rng.random(), 3) for _ in range(n - 2)]))
    cdf = [c for c in cdf]
    form = rng.choice(["pos", "pos", "signed", "int"])
    if form == "pos":
        knots = sorted(rng.uniform(0, 100) for _ in cdf)
    elif form == "signed":
        knots = sorted(rng.uniform(-100, 100) for _ in cdf); tags.append("piece.knots=signed")
    else:
        # release.yaml writes the knots as ints (`knots: [0, 1, 2, 3]`)
        knots = sorted(rng.sample(range(-20, 100), len(cdf))); tags.append("piece.knots=int")
    if rng.random() < 0.3:
        knots[1:2] = [knots[0]]     # flat piece
        knots = sorted(knots)
        tags.append("piece.flat")
    d = dict(distribution="piecewise", knots=knots, cdf=cdf)
    if rng.random() < 0.4:
        # documented optional key (release.yaml: "degree: 1  # (Optional) Degree of spline. Defaults to 1"); a spline of degree k
        # needs more than k points
        d["degree"] = rng.choice([k for k in (1, 2, 3) if k < len(cdf)])
        tags.append("piece.degree=%d" % d["degree"])
    return d, "4 %s %s" % (L(knots), L(cdf))


def gen(rng, num, tags=None):
    tags = [] if tags is None else tags
    k = rng.choice(KINDS)
    if k == "const":
        v = rng.choice([0, 1.5, -3.0, 7, np.float64(2.25), np.int64(4), -0.125, 1e9 + 0.5])
        if isinstance(v, np.generic): tags.append("const.numpy_scalar")
        return k, v, ("0 " + F(v))
    if k == "list":
        form = rng.choice(["integral", "fractional", "fractional", "int"])
        if form == "integral":
            vs = [float(rng.randrange(-5, 50)) for _ in range(num)]
        elif form == "fractional":
            vs = [rng.choice([0.5, -0.0, 1e-12, 1e9 + 0.5, -7.75]) if rng.random() < 0.25 else rng.uniform(-50, 50) for _ in range(num)]
        else:
            vs = [rng.randrange(-5, 50) for _ in range(num)]
        tags.append("list.%s" % form)
        return k, _container(rng, vs, tags, "list"), ("1 " + L(vs))
    if k == "range":
        form = rng.choice(["float", "float", "int"])
        if form == "float":
            # (hi - lo is exact for every combination, so lo + (hi - lo) * u <= hi holds in rounded arithmetic for u < 1)
            lo = rng.choice([0.0, -5.0, 10.0, 0.25, -2.5]); hi = lo + rng.choice([0.0, 1.0, 25.0, 0.5, 1e-3])
        else:
            lo = rng.choice([0, -5, 10]); hi = lo + rng.choice([0, 1, 25])    # `depth: [0, 10]`
        if float(lo) != int(lo) or float(hi) != int(hi): tags.append("range.fractional")
        tags.append("range.%s" % form)
        return k, _container(rng, [lo, hi], tags, "range"), ("1 " + L([lo, hi]))
    if k.startswith("gauss"):
        if rng.random() < 0.3:
            # int-typed parameters, as every example of release.yaml writes them (mean: 5, std: 1, min: 4, max: 6)
            mean = rng.choice([0, 5, 40]); std = rng.choice([1, 10, 3, 0]); klo = rng.choice([1, 3]); khi = rng.choice([1, 3])
            tags.append("gauss.int_params")
        else:
            mean = rng.choice([0.0, 5.0, 40.0, -12.5, 1e6]); std = rng.choice([1.0, 10.0, 0.1, 0.0, 2.5, 1e3])
            klo = rng.choice([1.0, 0.5, 3.0]); khi = rng.choice([1.0, 0.25, 3.0])
        if std == 0: tags.append("gauss.std=0")
        d = dict(distribution="gaussian", mean=mean, std=std)
        if k in ("gauss_b", "gauss_lo"):
            d["min"] = mean - klo * std
        if k in ("gauss_b", "gauss_hi"):
            d["max"] = mean + khi * std
        if rng.random() < 0.25:
            # bounds with the value zero (int or float) and negative bounds are bounds like any other
            if "max" in d: d["max"] = rng.choice([0, 0.0, -1.0]); d["mean"] = mean = rng.choice([-1.0, 0.0, 0.5])
            if "min" in d: d["min"] = rng.choice([0, 0.0]) if "max" not in d else min(d["max"], rng.choice([-3.0, -1.0]))
            if "min" in d and "max" not in d: d["mean"] = mean = rng.choice([-0.5, 0.0, 1.0])
            if "min" in d or "max" in d: tags.append("gauss.zero_or_negative_bound")
        return k, d, "2 %s %s %s %s" % (F(mean), F(std), OPT(d.get("min")), OPT(d.get("max")))
    if k.startswith("exp"):
        if rng.random() < 0.3:
            mean = rng.choice([1, 5, 10]); tags.append("exp.int_params")      # `mean: 10`, `max: 10`
            mx = rng.choice([2, 20, 0, 10 * mean])
        else:
            mean = rng.choice([1.0, 5.0, 10.0, 0.01, 0.0, 1e6])                # release.yaml: `mean: 0.01`
            mx = rng.choice([0.5 * mean, 2.0 * mean, 10.0 * mean, 0, 0.0])
        if mean == 0: tags.append("exp.mean=0")
        d = dict(distribution="exponential", mean=mean)
        if k == "exp_max":
            d["max"] = mx
        return k, d, "3 %s %s" % (F(mean), OPT(d.get("max")))
    if k == "piece":
        d, toks = gen_piece(rng, tags)
        return k, d, toks
    if k == "callable":
        return k, (lambda n: np.arange(n) * 2.0), "5 " + L([2.0 * i for i in range(num)])
    if k == "callable_list":
        return k, (lambda n: [0.75 * i - 1.0 for i in range(n)]), "5 " + L([0.75 * i - 1.0 for i in range(num)])
    if k == "callable_obj":
        return k, CountProbe(), "5 " + L([-10.0 + 0.5 * i for i in range(num)])
    if k == "dotted_deep":
        # a dotted name with more than one dot: module path `harness.c04`, function `probe_count`
        return k, __name__ + ".probe_count", "5 " + L([10.0 + 0.5 * i for i in range(num)])
    return k, "numpy.arange", "5 " + L([float(i) for i in range(num)])


CALLABLE_WANT = {
    "callable": lambda num: [2.0 * i for i in range(num)],
    "callable_list": lambda num: [0.75 * i - 1.0 for i in range(num)],
    "callable_obj": lambda num: [-10.0 + 0.5 * i for i in range(num)],
    "dotted": lambda num: [float(i) for i in range(num)],
    "dotted_deep": lambda num: [10.0 + 0.5 * i for i in range(num)],
}
CALLABLE_TEXT = {"callable": "<lambda n: arange(n)*2>", "callable_list": "<lambda n: [0.75*i - 1 for i in range(n)]>",
                 "callable_obj": "<callable object n -> 0.5*arange(n) - 10>"}


def is_stochastic(kind, num):
    return not (kind in ("const", "list") or kind.startswith("callable") or kind.startswith("dotted") or (kind == "range" and num == 2))


def expected_schedule(kind, num):
    if not is_stochastic(kind, num):
        return []
    return [(STOCHASTIC.get(kind, "normal" if kind.startswith("gauss") else "exponential"), (num,))]


def judge(ctx, kind, v, num, out, draws, cs, probe_calls=None):
    """the oracles of the property on one call.  `v` is the pristine copy of the specification (taken before the call)."""
    site = SITE
    is_range = kind == "range" and num != 2
    if kind in ("const",):
        ctx.oracle(out == [float(v)] * num, "C04.const.repeated", site, "got %r" % out, cs)
    elif kind == "list" or (kind == "range" and num == 2):
        ctx.oracle(out == [float(x) for x in v], "C04.list.verbatim", site, "got %r" % out, cs)
    elif is_range:
        lo, hi = v
        ctx.oracle(len(out) == num and all(lo <= x <= hi for x in out), "C04.range.in_range", site, "got %r" % out, cs)
    elif kind.startswith("gauss"):
        ctx.oracle(len(out) == num, "C04.gaussian.count", site, "count", cs)
        if "min" in v:
            # the known finding F-C04a (np.clip(minimum, maximum, r): only the upper bound is applied) explains a
            # value below `min` only when that value is exactly min(draw, max); anything else is another defect
            raw = [v["mean"] + v["std"] * z for z in draws]
            expl = len(raw) == len(out) and all(x == min(r_, v.get("max", float("inf"))) for x, r_ in zip(out, raw))
            ctx.oracle(all(x >= v["min"] for x in out), "C04.gaussian.lower_bound" if expl else "C04.gaussian.lower_bound.other", site,
                       "min=%r but values %r (normal draws %r)" % (v["min"], [x for x in out if x < v["min"]][:3], draws[:3]), cs)
        if "max" in v:
            ctx.oracle(all(x <= v["max"] for x in out), "C04.gaussian.upper_bound", site, "max=%r values %r" % (v["max"], out), cs)
        if "min" not in v and "max" not in v:
            ctx.oracle(all(x == v["mean"] + v["std"] * z for x, z in zip(out, draws)), "C04.gaussian.unbounded_changed", site, "values changed", cs)
    elif kind.startswith("exp"):
        ctx.oracle(len(out) == num and all(x >= 0 for x in out), "C04.exponential.negative", site, "values %r" % out, cs)
        if "max" in v:
            ctx.oracle(all(x <= v["max"] for x in out), "C04.exponential.max_exceeded", site,
                       "max=%r but values %r" % (v["max"], [x for x in out if x > v["max"]][:3]), cs)
    elif kind == "piece":
        k0, kn = v["knots"][0], v["knots"][-1]
        ctx.oracle(len(out) == num and all(k0 - 1e-9 <= x <= kn + 1e-9 for x in out), "C04.piecewise.range", site, "values %r knots %r" % (out, v["knots"]), cs)
        order = np.argsort(draws, kind="stable")
        xs = np.array(out)[order]
        ctx.oracle(bool(np.all(np.diff(xs) >= -1e-9)), "C04.piecewise.not_monotone", site, "not monotone in the draw", cs)
    elif kind in CALLABLE_WANT:
        ctx.oracle(out == CALLABLE_WANT[kind](num), "C04.callable.count", site, "got %r" % out, cs)
        if probe_calls is not None:
            # "callables or dotted function names receive the particle count" (release.yaml: the function "must have size as
            # its sole argument"): one call, one positional argument, no keywords, and the argument is the count itself — an
            # integer equal to num (numpy.zeros / numpy.random.rand and the like reject a float size)
            ok = len(probe_calls) == 1 and len(probe_calls[0][0]) == 1 and not probe_calls[0][1] \
                and isinstance(probe_calls[0][0][0], (int, np.integer)) and not isinstance(probe_calls[0][0][0], bool) \
                and probe_calls[0][0][0] == num
            ctx.oracle(ok, "C04.callable.argument", SITE_ATTR, "function called as %r, particle count %d" % (probe_calls, num), cs)


def run(ctx):
    mk = importlib.import_module("ladim_plugins.release.makrel")
    drv = Driver()
    if getattr(ctx, "widened", False):
        drv.available = False
    pend = []
    variant_votes = {0: 0, 1: 0}

    def one_call(v, v0, kind, num, toks, cs, second):
        """one call of get_attr on the specification object `v`; judged against the pristine copy `v0`"""
        inj = ibmrun.tail_injector(ctx.rng, 0.25)
        del PROBE_CALLS[:]
        if isinstance(v, CountProbe): del v.calls[:]
        try:
            with Recorder(ctx.sub_seed(), inj) as rec:
                out = mk.get_attr(v, num)
            out = [float(x) for x in out]
        except Exception as e:
            ctx.oracle(False, "C04.%s.rejected" % kind.split("_")[0], SITE_ATTR,
                       "documented form %r raised %r for num=%d%s" % (cs["spec"], e, num, " (second call with the same specification object)" if second else ""), cs)
            return False
        draws = rec.log[0][3].tolist() if rec.log else []
        cs = dict(cs, draws=draws, out=out)
        if second: cs["second_call_with_same_object"] = True
        probe_calls = list(PROBE_CALLS) if kind == "dotted_deep" else (list(v.calls) if kind == "callable_obj" else None)
        judge(ctx, kind, v0, num, out, draws, cs, probe_calls)
        exp_sched = expected_schedule(kind, num)
        # model
        if drv.available:
            if rec.schedule() != exp_sched:
                ctx.disagreement("get_attr.draw_schedule", "model declares %r, implementation requested %r" % (exp_sched, rec.schedule()), cs)
                return True
            ctx.schedule_matches += 1
            a = drv.ask("attr.get", "0", toks, I(num), L(draws))
            b = drv.ask("attr.get", "1", toks, I(num), L(draws))
            pend.append((a, b, out, kind, cs))
        elif exp_sched and len(draws) != num:
            # without the model there is no schedule comparison; draws that bypass the recorder cannot be steered into the tails
            ctx.disagreement("get_attr.draws_unobserved", "a stochastic form drew %d values through the recorded numpy entry points, expected %d" % (len(draws), num), cs)
        return True

    for c in range(ctx.n(1500, 25000)):
        num = ctx.rng.choice([1, 2, 3, 5, 17])
        tags = []
        kind, v, toks = gen(ctx.rng, num, tags)
        v0 = copy.deepcopy(v)       # judged against this copy, never against the object the implementation had in its hands
        cs = dict(kind=kind, spec=(v0 if not callable(v0) else CALLABLE_TEXT[kind]), num=num)
        ctx.case(key=(kind, repr(cs["spec"]), num), nontrivial=True, sample=cs if c < 3 else None)
        ctx.branch(kind); ctx.branch("num=%d" % num)
        for t in tags: ctx.branch(t)
        if not one_call(v, v0, kind, num, toks, cs, False):
            continue
        if ctx.rng.random() < 0.3:
            # the same specification object once more (a config mapping is reused between groups / calls): every documented form
            # is accepted and honoured again
            ctx.case(key=(kind, repr(cs["spec"]), num, "second"), nontrivial=True); ctx.branch("second_call_same_object")
            one_call(v, v0, kind, num, toks, cs, True)
    # piecewise: P(v <= knot_k) = cdf_k  (exact check through the inverse: value at u = cdf_k is knot_k)
    for c in range(ctx.n(100, 1000)):
        v, _ = gen_piece(ctx.rng, [])
        for ck, kk in zip(v["cdf"][:-1], v["knots"][:-1]):
            with RngRecorder(0, lambda kind, p, arr, _c=ck: np.full(arr.shape, _c)):
                out = mk.get_attr(v, 3)
            ctx.case(key=("piece_knot", repr(v), ck), nontrivial=True); ctx.branch("piecewise.knot")
            ctx.oracle(all(close(x, kk, 1e-9, 1e-9) for x in out), "C04.piecewise.cdf_knots", SITE,
                       "u=cdf=%r should give knot %r, got %r" % (ck, kk, out), dict(spec=v))
    # the same per particle: particle i draws u_i = cdf_{k_i} (a different knot for each particle, in random order) and must get
    # knot_{k_i} (tolerance as above: the spline evaluation is not exact at the knots)
    for c in range(ctx.n(150, 1500)):
        tags = []
        v, _ = gen_piece(ctx.rng, tags)
        v0 = copy.deepcopy(v)
        num = ctx.rng.choice([1, 2, 3, 5, 17])
        ks = [ctx.rng.randrange(len(v0["cdf"]) - 1) for _ in range(num)]
        us = np.array([v0["cdf"][k] for k in ks], dtype=float)
        with Recorder(0, lambda kind, p, arr, _u=us: (_u.reshape(arr.shape) if arr.size == _u.size else np.full(arr.shape, _u[0]))) as rec:
            out = [float(x) for x in mk.get_attr(v, num)]
        ctx.case(key=("piece_knot_mixed", repr(v0), tuple(ks)), nontrivial=True); ctx.branch("piecewise.knot_per_particle")
        for t in tags: ctx.branch("knot_per_particle." + t)
        want = [v0["knots"][k] for k in ks]
        ctx.oracle(len(out) == num and all(close(x, w, 1e-9, 1e-9) for x, w in zip(out, want)), "C04.piecewise.cdf_knots", SITE,
                   "particle i draws u_i = cdf[k_i] (k = %r): expected knots %r, got %r" % (ks, want, out), dict(spec=v0, num=num, draws=us.tolist(), out=out))
    if drv.available:
        rep = drv.run()
        results = []
        for a, b, out, kind, cs in pend:
            ma = None if rep[a][1][0] == "none" else [unF(x) for x in rep[a][1][1:]]
            mb = None if rep[b][1][0] == "none" else [unF(x) for x in rep[b][1][1:]]
            tol = 1e-9 if kind == "piece" else 0.0
            eqa = ma is not None and len(ma) == len(out) and all(close(x, y, tol, tol) if tol else x == y for x, y in zip(out, ma))
            eqb = mb is not None and len(mb) == len(out) and all(close(x, y, tol, tol) if tol else x == y for x, y in zip(out, mb))
            if eqa and not eqb: variant_votes[0] += 1
            if eqb and not eqa: variant_votes[1] += 1
            results.append((eqa, eqb, out, ma, mb, kind, cs))
        variant = 1 if variant_votes[1] > 0 and variant_votes[0] == 0 else 0
        ctx.note("gaussian clip argument order matched by the code: %s (votes %r)" % (["swapped (np.clip(minimum, maximum, r))", "correct"][variant], variant_votes))
        ctx.branch("clip_variant_%s" % ["swapped", "correct"][variant])
        for eqa, eqb, out, ma, mb, kind, cs in results:
            ctx.bit_exact += 1
            if not (eqb if variant else eqa):
                ctx.disagreement("get_attr.%s" % kind, "impl=%r model=%r" % (out[:4], (mb if variant else ma)), cs)


def replay(payload):
    print("predicate:", payload.get("predicate"), "|", payload.get("detail"))
    return False
