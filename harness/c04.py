"""C04 — release attribute values honour their specification.

Correspondence: real `makrel.get_attr(v, num)` under the RNG recorder (tails injected) against the Lean
`Attr.getAttr`, in both argument orders of the gaussian clip (the harness determines which one the code
matches).  Oracle: documented bounds per form, every documented form accepted for every num >= 1."""
import math, importlib
import numpy as np
from .common import Driver, F, I, L, OPT, unF, RngRecorder, close
from . import ibmrun

RULE = ("every attribute form (scalar; list of length num; [low, high]; gaussian with/without min/max; exponential "
        "with/without max; piecewise; callable; dotted name) x num in {1,2,3,5,17} x parameter grids; draws recorded with "
        "+-8 sigma normals, exponentials of 40x the mean, u=0 and u=1-2^-53 injected. Non-trivial: every case.")
ASSUMPTIONS = ["scipy InterpolatedUnivariateSpline(k=1) is modelled as linear interpolation (checked to 1e-12 on every run)"]
SITE = "ladim_plugins/release/makrel.py::get_distribution"


def gen(rng, num):
    k = rng.choice(["const", "list", "range", "gauss", "gauss_b", "gauss_lo", "gauss_hi", "exp", "exp_max", "piece", "callable", "dotted"])
    if k == "const":
        v = rng.choice([0, 1.5, -3.0, 7])
        return k, v, ("0 " + F(v))
    if k == "list":
        vs = [float(rng.randrange(-5, 50)) for _ in range(num)]
        return k, vs, ("1 " + L(vs))
    if k == "range":
        lo = rng.choice([0.0, -5.0, 10.0]); hi = lo + rng.choice([0.0, 1.0, 25.0])
        return k, [lo, hi], ("1 " + L([lo, hi]))
    if k.startswith("gauss"):
        mean = rng.choice([0.0, 5.0, 40.0]); std = rng.choice([1.0, 10.0, 0.1])
        d = dict(distribution="gaussian", mean=mean, std=std)
        if k in ("gauss_b", "gauss_lo"):
            d["min"] = mean - rng.choice([1.0, 0.5, 3.0]) * std
        if k in ("gauss_b", "gauss_hi"):
            d["max"] = mean + rng.choice([1.0, 0.25, 3.0]) * std
        if rng.random() < 0.25:
            # bounds with the value zero (int or float) and negative bounds are bounds like any other
            if "max" in d: d["max"] = rng.choice([0, 0.0, -1.0]); d["mean"] = mean = rng.choice([-1.0, 0.0, 0.5])
            if "min" in d: d["min"] = rng.choice([0, 0.0]) if "max" not in d else min(d["max"], rng.choice([-3.0, -1.0]))
            if "min" in d and "max" not in d: d["mean"] = mean = rng.choice([-0.5, 0.0, 1.0])
        return k, d, "2 %s %s %s %s" % (F(mean), F(std), OPT(d.get("min")), OPT(d.get("max")))
    if k.startswith("exp"):
        mean = rng.choice([1.0, 5.0, 10.0])
        d = dict(distribution="exponential", mean=mean)
        if k == "exp_max":
            d["max"] = rng.choice([0.5 * mean, 2.0 * mean, 10.0 * mean, 0, 0.0])
        return k, d, "3 %s %s" % (F(mean), OPT(d.get("max")))
    if k == "piece":
        n = rng.randrange(2, 6)
        cdf = sorted(set([0.0, 1.0] + [round(rng.random(), 3) for _ in range(n - 2)]))
        cdf = [c for c in cdf]
        knots = sorted(rng.uniform(0, 100) for _ in cdf)
        if rng.random() < 0.3:
            knots[1:2] = [knots[0]]     # flat piece
            knots = sorted(knots)
        d = dict(distribution="piecewise", knots=knots, cdf=cdf)
        return k, d, "4 %s %s" % (L(knots), L(cdf))
    if k == "callable":
        return k, (lambda n: np.arange(n) * 2.0), "5 " + L([2.0 * i for i in range(num)])
    return k, "numpy.arange", "5 " + L([float(i) for i in range(num)])


def run(ctx):
    mk = importlib.import_module("ladim_plugins.release.makrel")
    drv = Driver()
    if getattr(ctx, "widened", False):
        drv.available = False
    pend = []
    variant_votes = {0: 0, 1: 0}
    for c in range(ctx.n(1200, 20000)):
        num = ctx.rng.choice([1, 2, 3, 5, 17])
        kind, v, toks = gen(ctx.rng, num)
        cs = dict(kind=kind, spec=(v if not callable(v) else "<lambda n: arange(n)*2>"), num=num)
        ctx.case(key=(kind, repr(cs["spec"]), num), nontrivial=True, sample=cs if c < 3 else None)
        ctx.branch(kind); ctx.branch("num=%d" % num)
        inj = ibmrun.tail_injector(ctx.rng, 0.25)
        try:
            with RngRecorder(ctx.sub_seed(), inj) as rec:
                out = mk.get_attr(v, num)
            out = [float(x) for x in out]
        except Exception as e:
            ctx.oracle(False, "C04.%s.rejected" % kind.split("_")[0], "ladim_plugins/release/makrel.py::get_attr",
                       "documented form %r raised %r for num=%d" % (cs["spec"], e, num), cs)
            continue
        site = SITE
        draws = rec.log[0][3].tolist() if rec.log else []
        cs["draws"] = draws; cs["out"] = out
        is_range = kind == "range" and num != 2
        if kind in ("const",):
            ctx.oracle(out == [float(v)] * num, "C04.const.repeated", site, "got %r" % out, cs)
        elif kind == "list" or (kind == "range" and num == 2):
            ctx.oracle(out == [float(x) for x in v], "C04.list.verbatim", site, "got %r" % out, cs)
        elif is_range:
            lo, hi = v
            ctx.oracle(len(out) == num and all(lo <= x <= hi for x in out), "C04.range.in_range", site, "got %r" % out, cs)
        elif kind.startswith("gauss"):
            ctx.oracle(len(out) == num, "C04.gaussian.count", site, "count", cs)
            if "min" in v:
                # the known finding F-C04a (np.clip(minimum, maximum, r): only the upper bound is applied) explains a
                # value below `min` only when that value is exactly min(draw, max); anything else is another defect
                raw = [v["mean"] + v["std"] * z for z in draws]
                expl = len(raw) == len(out) and all(x == min(r_, v.get("max", float("inf"))) for x, r_ in zip(out, raw))
                ctx.oracle(all(x >= v["min"] for x in out), "C04.gaussian.lower_bound" if expl else "C04.gaussian.lower_bound.other", site,
                           "min=%r but values %r (normal draws %r)" % (v["min"], [x for x in out if x < v["min"]][:3], draws[:3]), cs)
            if "max" in v:
                ctx.oracle(all(x <= v["max"] for x in out), "C04.gaussian.upper_bound", site, "max=%r values %r" % (v["max"], out), cs)
            if "min" not in v and "max" not in v:
                ctx.oracle(all(x == v["mean"] + v["std"] * z for x, z in zip(out, draws)), "C04.gaussian.unbounded_changed", site, "values changed", cs)
        elif kind.startswith("exp"):
            ctx.oracle(len(out) == num and all(x >= 0 for x in out), "C04.exponential.negative", site, "values %r" % out, cs)
            if "max" in v:
                ctx.oracle(all(x <= v["max"] for x in out), "C04.exponential.max_exceeded", site,
                           "max=%r but values %r" % (v["max"], [x for x in out if x > v["max"]][:3]), cs)
        elif kind == "piece":
            k0, kn = v["knots"][0], v["knots"][-1]
            ctx.oracle(len(out) == num and all(k0 - 1e-9 <= x <= kn + 1e-9 for x in out), "C04.piecewise.range", site, "values %r knots %r" % (out, v["knots"]), cs)
            order = np.argsort(draws, kind="stable")
            xs = np.array(out)[order]
            ctx.oracle(bool(np.all(np.diff(xs) >= -1e-9)), "C04.piecewise.not_monotone", site, "not monotone in the draw", cs)
        elif kind in ("callable", "dotted"):
            want = [2.0 * i for i in range(num)] if kind == "callable" else [float(i) for i in range(num)]
            ctx.oracle(out == want, "C04.callable.count", site, "got %r" % out, cs)
        # model
        if drv.available:
            exp_sched = [] if kind in ("const", "list", "callable", "dotted") or (kind == "range" and num == 2) else \
                [({"range": "uniform", "piece": "rand"}.get(kind, "normal" if kind.startswith("gauss") else "exponential"), (num,))]
            if rec.schedule() != exp_sched:
                ctx.disagreement("get_attr.draw_schedule", "model declares %r, implementation requested %r" % (exp_sched, rec.schedule()), cs)
                continue
            ctx.schedule_matches += 1
            a = drv.ask("attr.get", "0", toks, I(num), L(draws))
            b = drv.ask("attr.get", "1", toks, I(num), L(draws))
            pend.append((a, b, out, kind, cs))
    # piecewise: P(v <= knot_k) = cdf_k  (exact check through the inverse: value at u = cdf_k is knot_k)
    for c in range(ctx.n(100, 1000)):
        _, v, _ = gen(ctx.rng, 3)
        while not (isinstance(v, dict) and v.get("distribution") == "piecewise"):
            _, v, _ = gen(ctx.rng, 3)
        for ck, kk in zip(v["cdf"][:-1], v["knots"][:-1]):
            with RngRecorder(0, lambda kind, p, arr, _c=ck: np.full(arr.shape, _c)):
                out = mk.get_attr(v, 3)
            ctx.case(key=("piece_knot", repr(v), ck), nontrivial=True); ctx.branch("piecewise.knot")
            ctx.oracle(all(close(x, kk, 1e-9, 1e-9) for x in out), "C04.piecewise.cdf_knots", SITE,
                       "u=cdf=%r should give knot %r, got %r" % (ck, kk, out), dict(spec=v))
    if drv.available:
        rep = drv.run()
        results = []
        for a, b, out, kind, cs in pend:
            ma = None if rep[a][1][0] == "none" else [unF(x) for x in rep[a][1][1:]]
            mb = None if rep[b][1][0] == "none" else [unF(x) for x in rep[b][1][1:]]
            tol = 1e-9 if kind == "piece" else 0.0
            eqa = ma is not None and len(ma) == len(out) and all(close(x, y, tol, tol) if tol else x == y for x, y in zip(out, ma))
            eqb = mb is not None and len(mb) == len(out) and all(close(x, y, tol, tol) if tol else x == y for x, y in zip(out, mb))
            if eqa and not eqb: variant_votes[0] += 1
            if eqb and not eqa: variant_votes[1] += 1
            results.append((eqa, eqb, out, ma, mb, kind, cs))
        variant = 1 if variant_votes[1] > 0 and variant_votes[0] == 0 else 0
        ctx.note("gaussian clip argument order matched by the code: %s (votes %r)" % (["swapped (np.clip(minimum, maximum, r))", "correct"][variant], variant_votes))
        ctx.branch("clip_variant_%s" % ["swapped", "correct"][variant])
        for eqa, eqb, out, ma, mb, kind, cs in results:
            ctx.bit_exact += 1
            if not (eqb if variant else eqa):
                ctx.disagreement("get_attr.%s" % kind, "impl=%r model=%r" % (out[:4], (mb if variant else ma)), cs)


def replay(payload):
    print("predicate:", payload.get("predicate"), "|", payload.get("detail"))
    return False
