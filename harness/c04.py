"""C04 — release attribute values honour their specification.

Correspondence: real `makrel.get_attr(v, num)` under the RNG recorder (tails injected) against the Lean
`Attr.getAttr`, in both argument orders of the gaussian clip (the harness determines which one the code
matches).  Oracle: documented bounds per form, every documented form accepted for every num >= 1.

Every specification is deep-copied before the call and judged against the pristine copy (an implementation that
sorts / rewrites the caller's list or mapping in place cannot make the oracle agree with its own output); a share
of the cases hands the *same* specification object to `get_attr` a second time and judges that call as well.

The property is observed at the attribute columns of the returned table: `run_tables` places the same forms in release groups
of every location kind (GeoJSON feature properties may be named like configured attributes) and judges the columns that
`make_single_release` / `make_release` return with the same oracles (implementation side only: the driver has no table
operation for attribute columns)."""
import math, importlib, copy, json
import numpy as np
from .common import Driver, F, I, L, OPT, unF, RngRecorder, close
from . import ibmrun, geom

RULE = ("[single release time: explicit lists of 1..300 particles (and several groups released at the same time) must come back verbatim in particle order through make_release, table and file] every attribute form (scalar incl. numpy scalars; list of length num with integral, fractional (uniform(-50,50), 0.5, -0.0, "
        "1e-12, 1e9+0.5) or int elements; [low, high] with integral, fractional or int ends; gaussian with/without min/max; "
        "exponential with/without max; piecewise with/without the documented optional key `degree` in {1,2,3}; callable "
        "(lambda returning an array, lambda returning a list, callable object, lambda returning values in no particular order); dotted "
        "name with one dot (numpy.arange) and with two dots (recording probe functions of this module, one returning increasing "
        "values, one returning values in no particular order)) x num in {1,2,3,5,17} x parameter grids (float and int typed "
        "parameters as in release.yaml; std in {0, 0.1, 1, 2.5, 10, 1e3}; gaussian mean up to 1e6 and negative; exponential mean in "
        "{0, 0.01, 1, 5, 10, 1e6}; bounds 0 / 0.0 / negative; knots in (0,100), (-100,100) or distinct ints, flat first piece; knot values "
        "listed in increasing order or (45%) in DEcreasing order -- incl. the literal profiles [0, -1, -5, -20] (heights below the "
        "surface) and [3, 2, 1, 0] (the release.yaml example reversed), flat last piece, non-positive knots; the cdf always strictly "
        "increasing from 0 to 1) x containers (list / tuple / ndarray for lists and ranges, and for the knots and / or the cdf of a "
        "piecewise specification); draws recorded with +-8 sigma normals, exponentials of 40x the "
        "mean, u=0 and u=1-2^-53 injected (also when the code asks numpy's random_sample / random / standard_normal / "
        "standard_exponential); 30% of the cases call get_attr twice with the same specification object; piecewise knots probed "
        "with a constant u = cdf_k (num 3) and with a different cdf_k per particle (num in {1,2,3,5,17}); every piecewise call is also judged draw by draw against "
        "its recorded rand() values (a draw equal to cdf_k gives knot_k, a draw between cdf_j and cdf_j+1 a value between knot_j "
        "and knot_j+1, monotone from the first knot to the last). Piecewise with many particles: num = 4000 with numpy's own "
        "generator (seeded, nothing injected) through get_attr / make_single_release / make_release with `seed`, strictly "
        "increasing or strictly decreasing knots (float or int): share of the values between consecutive knots against the cdf "
        "differences (+-0.06, false alarm < 3.1e-10 per run). Whole tables (the attribute "
        "columns of the returned table, judged by the same oracles): 1..3 release groups x num in {1,2,3,5,17} per group x 1..4 "
        "attributes per group of any of the forms above, named depth / stage / batch / speed / w / region / farmid / age / name, "
        "each an implicit attribute or an entry of the `attrs` block x location kind (point, polygon, several polygons, metric "
        "offset, GeoJSON as stream or as file name with Polygon / MultiPolygon features) x GeoJSON feature properties (none, "
        "not colliding, or named like configured attributes incl. depth; float / int / text values; missing in some features; "
        "a `depth` property with no depth configured is exercised but not judged) x entry point (make_single_release; make_release "
        "with a flat mapping, a `groups` mapping, a list of groups, a YAML stream of either; seed and `columns` optional) x single "
        "date or date range per group (groups on distinct days, so that their rows are contiguous); same tail injection; 20% "
        "second call with the same configuration object; a single piecewise attribute of a table probed with constant u = cdf_k. "
        "Piecewise with a history: families of 2..3 piecewise specifications with the same knots and different cdf (or the same cdf "
        "and different knots, each member's knots increasing or decreasing; knots as list / tuple / ndarray; optionally the first once more at the end) sampled in succession "
        "in one process -- successive get_attr calls (per-particle u = own cdf_k, a cdf value of another member, or any u), several "
        "attributes of one group, the same or different attributes of several groups, successive make_release calls (constant "
        "u) -- each judged against its own cdf. "
        "Non-trivial: every case.")
ASSUMPTIONS = ["scipy InterpolatedUnivariateSpline(k=1) is modelled as linear interpolation (checked to 1e-12 on every run)",
               "the optional piecewise key `degree` (documented in release.yaml) is not read by the code (k=1 is hard-coded); the model "
               "is linear interpolation for every degree, and the bounds / cumulative-probability oracles are applied unchanged",
               "release.yaml constrains the cdf of a piecewise specification (from 0 to 1, strictly increasing) and not the order of "
               "the knot values: knots listed in decreasing order are taken as documented input, cdf_k being the probability "
               "accumulated when knot_k is reached, in the listed direction (P(value >= knot_k) = cdf_k); knot lists that are neither "
               "non-decreasing nor non-increasing are not generated (no reading of 'cumulative probability for each knot value' "
               "covers them)",
               "tuples / numpy arrays / numpy scalars are taken as the Python-API spellings of 'list of length num', '[low, high]' "
               "and 'scalar' (get_attr dispatches on __len__, not on the type list)"]
SITE = "ladim_plugins/release/makrel.py::get_distribution"
SITE_ATTR = "ladim_plugins/release/makrel.py::get_attr"

KINDS = ["const", "list", "range", "gauss", "gauss_b", "gauss_lo", "gauss_hi", "exp", "exp_max", "piece", "callable", "dotted",
         "callable_list", "callable_obj", "dotted_deep", "callable_unordered", "dotted_unordered"]
STOCHASTIC = {"range": "uniform", "piece": "rand"}


# ----------------------------------------------------------------------------- recording probes (callable / dotted name)
PROBE_CALLS = []


def _probe_values(size):
    # like numpy.zeros / numpy.random.rand: the size must be an integer count (range() raises TypeError on a float)
    return [10.0 + 0.5 * i for i in range(size)]


def probe_count(*args, **kwargs):
    """target of the dotted name `<this module>.probe_count` (two dots): records how it was called"""
    PROBE_CALLS.append((args, dict(kwargs)))
    return _probe_values(*args, **kwargs)


def _zigzag(n):
    """values that are not in increasing (nor decreasing) order for n >= 3, with a repeated value for n >= 6"""
    return [(-1) ** i * (1.5 + 0.25 * (i % 5)) for i in range(n)]


def probe_zigzag(*args, **kwargs):
    """target of the dotted name `<this module>.probe_zigzag`: records how it was called, returns values in no particular order"""
    PROBE_CALLS.append((args, dict(kwargs)))
    return _zigzag(*args, **kwargs)


class CountProbe:
    """a callable object (no __len__) that records how it was called"""

    def __init__(self):
        self.calls = []

    def __call__(self, *args, **kwargs):
        self.calls.append((args, dict(kwargs)))
        return np.array(_probe_values(*args, **kwargs)) - 20.0

    def __deepcopy__(self, memo):
        return self

    def __repr__(self):
        return "<callable object n -> 0.5*arange(n) - 10>"


class Recorder(RngRecorder):
    """RngRecorder that also serves the remaining legacy entry points of numpy's global generator, each logged under its own
    name.  Code that switches to one of them is then reported as a draw-schedule disagreement as before, but its draws are
    still recorded and the tails are still injected, so the oracles below keep judging it instead of holding vacuously."""
    KINDS = RngRecorder.KINDS + ("random_sample", "random", "ranf", "sample", "standard_normal", "standard_exponential")

    def _emit_as(self, kind, inj_kind, values, size):
        values = np.asarray(values, dtype=float)
        if self.inject is not None:
            values = np.asarray(self.inject(inj_kind, (), values.copy()), dtype=float)
        self.log.append((kind, (), values.shape, values.copy()))
        return values if size is not None else float(values)

    def random_sample(self, size=None):
        return self._emit_as("random_sample", "rand", self.rs.random_sample(size), size)

    def random(self, size=None):
        return self._emit_as("random", "rand", self.rs.random_sample(size), size)

    def ranf(self, size=None):
        return self._emit_as("ranf", "rand", self.rs.random_sample(size), size)

    def sample(self, size=None):
        return self._emit_as("sample", "rand", self.rs.random_sample(size), size)

    def standard_normal(self, size=None):
        return self._emit_as("standard_normal", "randn", self.rs.standard_normal(size), size)

    def standard_exponential(self, size=None):
        return self._emit_as("standard_exponential", "exponential", self.rs.standard_exponential(size), size)


# ----------------------------------------------------------------------------- generators
def _container(rng, xs, tags, what):
    """the same sequence as a list (as YAML gives it), a tuple or a numpy array (Python API)"""
    c = rng.choice(["list", "list", "list", "tuple", "ndarray"])
    if c == "tuple":
        tags.append("%s.container=tuple" % what); return tuple(xs)
    if c == "ndarray":
        tags.append("%s.container=ndarray" % what); return np.array(xs)
    return list(xs)


def knots_order(knots):
    """"ascending" (non-decreasing; what every piecewise case had before), "descending" (non-increasing, not constant)"""
    kn = [float(x) for x in knots]
    if all(a <= b for a, b in zip(kn, kn[1:])): return "ascending"
    if all(a >= b for a, b in zip(kn, kn[1:])): return "descending"
    return "unordered"


def gen_piece(rng, tags):
    n = rng.randrange(2, 6)
    cdf = sorted(set([0.0, 1.0] + [round(rng.random(), 3) for _ in range(n - 2)]))
    cdf = [c for c in cdf]
    form = rng.choice(["pos", "pos", "signed", "int"])
    if form == "pos":
        knots = sorted(rng.uniform(0, 100) for _ in cdf)
    elif form == "signed":
        knots = sorted(rng.uniform(-100, 100) for _ in cdf); tags.append("piece.knots=signed")
    else:
        # release.yaml writes the knots as ints (`knots: [0, 1, 2, 3]`)
        knots = sorted(rng.sample(range(-20, 100), len(cdf))); tags.append("piece.knots=int")
    if rng.random() < 0.3:
        knots[1:2] = [knots[0]]     # flat piece
        knots = sorted(knots)
        tags.append("piece.flat")
    if rng.random() < 0.45:
        # release.yaml constrains the cdf only ("must start with 0 and end with 1, must be strictly monotonically increasing");
        # the knots are "depth values", one per cumulative probability.  A profile listed from the surface downwards as negative
        # heights (knots [0, -1, -5, -20]) or a depth profile listed from the bottom upwards has DEcreasing knot values: cdf_k is
        # still the probability accumulated when knot_k is reached
        lit = rng.random()
        if lit < 0.2 and len(cdf) == 4:
            # two literal profiles: heights below the surface, and the knots of the release.yaml example the other way round
            tags[:] = [t for t in tags if t not in ("piece.flat", "piece.knots=signed", "piece.knots=int")]
            knots = [0, -1, -5, -20] if lit < 0.1 else [3, 2, 1, 0]
            tags.append("piece.knots=int")
            tags.append("piece.knots=descending.surface_downwards" if lit < 0.1 else "piece.knots=descending.release_yaml_reversed")
        else:
            knots = knots[::-1]
        tags.append("piece.knots=descending")
        if knots[0] <= 0 and knots[-1] < 0: tags.append("piece.knots=descending.all_nonpositive")
    toks = "4 %s %s" % (L(knots), L(cdf))
    c = rng.choice(["list", "list", "list", "list", "tuple", "ndarray"])
    if c != "list":
        # Python-API spellings of the two lists (both are handed to numpy by every reading of the documentation)
        which = rng.choice(["knots", "cdf", "both"])
        if which in ("knots", "both"): knots = tuple(knots) if c == "tuple" else np.array(knots)
        if which in ("cdf", "both"): cdf = tuple(cdf) if c == "tuple" else np.array(cdf)
        tags.append("piece.container=%s" % c)
    d = dict(distribution="piecewise", knots=knots, cdf=cdf)
    if rng.random() < 0.4:
        # documented optional key (release.yaml: "degree: 1  # (Optional) Degree of spline. Defaults to 1"); a spline of degree k
        # needs more than k points
        d["degree"] = rng.choice([k for k in (1, 2, 3) if k < len(cdf)])
        tags.append("piece.degree=%d" % d["degree"])
    return d, toks


def gen(rng, num, tags=None):
    tags = [] if tags is None else tags
    k = rng.choice(KINDS)
    if k == "const":
        v = rng.choice([0, 1.5, -3.0, 7, np.float64(2.25), np.int64(4), -0.125, 1e9 + 0.5])
        if isinstance(v, np.generic): tags.append("const.numpy_scalar")
        return k, v, ("0 " + F(v))
    if k == "list":
        form = rng.choice(["integral", "fractional", "fractional", "int"])
        if form == "integral":
            vs = [float(rng.randrange(-5, 50)) for _ in range(num)]
        elif form == "fractional":
            vs = [rng.choice([0.5, -0.0, 1e-12, 1e9 + 0.5, -7.75]) if rng.random() < 0.25 else rng.uniform(-50, 50) for _ in range(num)]
        else:
            vs = [rng.randrange(-5, 50) for _ in range(num)]
        tags.append("list.%s" % form)
        return k, _container(rng, vs, tags, "list"), ("1 " + L(vs))
    if k == "range":
        form = rng.choice(["float", "float", "int"])
        if form == "float":
            # (hi - lo is exact for every combination, so lo + (hi - lo) * u <= hi holds in rounded arithmetic for u < 1)
            lo = rng.choice([0.0, -5.0, 10.0, 0.25, -2.5]); hi = lo + rng.choice([0.0, 1.0, 25.0, 0.5, 1e-3])
        else:
            lo = rng.choice([0, -5, 10]); hi = lo + rng.choice([0, 1, 25])    # `depth: [0, 10]`
        if float(lo) != int(lo) or float(hi) != int(hi): tags.append("range.fractional")
        tags.append("range.%s" % form)
        return k, _container(rng, [lo, hi], tags, "range"), ("1 " + L([lo, hi]))
    if k.startswith("gauss"):
        if rng.random() < 0.3:
            # int-typed parameters, as every example of release.yaml writes them (mean: 5, std: 1, min: 4, max: 6)
            mean = rng.choice([0, 5, 40]); std = rng.choice([1, 10, 3, 0]); klo = rng.choice([1, 3]); khi = rng.choice([1, 3])
            tags.append("gauss.int_params")
        else:
            mean = rng.choice([0.0, 5.0, 40.0, -12.5, 1e6]); std = rng.choice([1.0, 10.0, 0.1, 0.0, 2.5, 1e3])
            klo = rng.choice([1.0, 0.5, 3.0]); khi = rng.choice([1.0, 0.25, 3.0])
        if std == 0: tags.append("gauss.std=0")
        d = dict(distribution="gaussian", mean=mean, std=std)
        if k in ("gauss_b", "gauss_lo"):
            d["min"] = mean - klo * std
        if k in ("gauss_b", "gauss_hi"):
            d["max"] = mean + khi * std
        if rng.random() < 0.25:
            # bounds with the value zero (int or float) and negative bounds are bounds like any other
            if "max" in d: d["max"] = rng.choice([0, 0.0, -1.0]); d["mean"] = mean = rng.choice([-1.0, 0.0, 0.5])
            if "min" in d: d["min"] = rng.choice([0, 0.0]) if "max" not in d else min(d["max"], rng.choice([-3.0, -1.0]))
            if "min" in d and "max" not in d: d["mean"] = mean = rng.choice([-0.5, 0.0, 1.0])
            if "min" in d or "max" in d: tags.append("gauss.zero_or_negative_bound")
        return k, d, "2 %s %s %s %s" % (F(mean), F(std), OPT(d.get("min")), OPT(d.get("max")))
    if k.startswith("exp"):
        if rng.random() < 0.3:
            mean = rng.choice([1, 5, 10]); tags.append("exp.int_params")      # `mean: 10`, `max: 10`
            mx = rng.choice([2, 20, 0, 10 * mean])
        else:
            mean = rng.choice([1.0, 5.0, 10.0, 0.01, 0.0, 1e6])                # release.yaml: `mean: 0.01`
            mx = rng.choice([0.5 * mean, 2.0 * mean, 10.0 * mean, 0, 0.0])
        if mean == 0: tags.append("exp.mean=0")
        d = dict(distribution="exponential", mean=mean)
        if k == "exp_max":
            d["max"] = mx
        return k, d, "3 %s %s" % (F(mean), OPT(d.get("max")))
    if k == "piece":
        d, toks = gen_piece(rng, tags)
        return k, d, toks
    if k == "callable":
        return k, (lambda n: np.arange(n) * 2.0), "5 " + L([2.0 * i for i in range(num)])
    if k == "callable_list":
        return k, (lambda n: [0.75 * i - 1.0 for i in range(n)]), "5 " + L([0.75 * i - 1.0 for i in range(num)])
    if k == "callable_obj":
        return k, CountProbe(), "5 " + L([-10.0 + 0.5 * i for i in range(num)])
    if k == "callable_unordered":
        # what the function returns is the attribute, particle by particle: values in no particular order (with repeats)
        return k, (lambda n: _zigzag(n)), "5 " + L(_zigzag(num))
    if k == "dotted_unordered":
        return k, __name__ + ".probe_zigzag", "5 " + L(_zigzag(num))
    if k == "dotted_deep":
        # a dotted name with more than one dot: module path `harness.c04`, function `probe_count`
        return k, __name__ + ".probe_count", "5 " + L([10.0 + 0.5 * i for i in range(num)])
    return k, "numpy.arange", "5 " + L([float(i) for i in range(num)])


CALLABLE_WANT = {
    "callable": lambda num: [2.0 * i for i in range(num)],
    "callable_list": lambda num: [0.75 * i - 1.0 for i in range(num)],
    "callable_obj": lambda num: [-10.0 + 0.5 * i for i in range(num)],
    "dotted": lambda num: [float(i) for i in range(num)],
    "dotted_deep": lambda num: [10.0 + 0.5 * i for i in range(num)],
    "callable_unordered": lambda num: [(-1) ** i * (1.5 + 0.25 * (i % 5)) for i in range(num)],
    "dotted_unordered": lambda num: [(-1) ** i * (1.5 + 0.25 * (i % 5)) for i in range(num)],
}
PROBED = ("dotted_deep", "dotted_unordered")        # dotted names whose target records its calls in PROBE_CALLS
CALLABLE_TEXT = {"callable": "<lambda n: arange(n)*2>", "callable_list": "<lambda n: [0.75*i - 1 for i in range(n)]>",
                 "callable_obj": "<callable object n -> 0.5*arange(n) - 10>",
                 "callable_unordered": "<lambda n: [(-1)**i * (1.5 + 0.25*(i % 5)) for i in range(n)]>"}


def is_stochastic(kind, num):
    return not (kind in ("const", "list") or kind.startswith("callable") or kind.startswith("dotted") or (kind == "range" and num == 2))


def expected_schedule(kind, num):
    if not is_stochastic(kind, num):
        return []
    return [(STOCHASTIC.get(kind, "normal" if kind.startswith("gauss") else "exponential"), (num,))]


def judge(ctx, kind, v, num, out, draws, cs, probe_calls=None, site=SITE):
    """the oracles of the property on one call.  `v` is the pristine copy of the specification (taken before the call).
    `site` is where a failure is attributed (the table cases pass the table assembly); a below-`min` value that the known
    clip-order finding explains exactly stays attributed to get_distribution."""
    is_range = kind == "range" and num != 2
    if kind in ("const",):
        ctx.oracle(out == [float(v)] * num, "C04.const.repeated", site, "got %r" % out, cs)
    elif kind == "list" or (kind == "range" and num == 2):
        ctx.oracle(out == [float(x) for x in v], "C04.list.verbatim", site, "got %r" % out, cs)
    elif is_range:
        lo, hi = v
        ctx.oracle(len(out) == num and all(lo <= x <= hi for x in out), "C04.range.in_range", site, "got %r" % out, cs)
    elif kind.startswith("gauss"):
        ctx.oracle(len(out) == num, "C04.gaussian.count", site, "count", cs)
        if "min" in v:
            # the known finding F-C04a (np.clip(minimum, maximum, r): only the upper bound is applied) explains a
            # value below `min` only when that value is exactly min(draw, max); anything else is another defect
            raw = [v["mean"] + v["std"] * z for z in draws]
            expl = len(raw) == len(out) and all(x == min(r_, v.get("max", float("inf"))) for x, r_ in zip(out, raw))
            ctx.oracle(all(x >= v["min"] for x in out), "C04.gaussian.lower_bound" if expl else "C04.gaussian.lower_bound.other", SITE if expl else site,
                       "min=%r but values %r (normal draws %r)" % (v["min"], [x for x in out if x < v["min"]][:3], draws[:3]), cs)
        if "max" in v:
            ctx.oracle(all(x <= v["max"] for x in out), "C04.gaussian.upper_bound", site, "max=%r values %r" % (v["max"], out), cs)
        if "min" not in v and "max" not in v:
            ctx.oracle(all(x == v["mean"] + v["std"] * z for x, z in zip(out, draws)), "C04.gaussian.unbounded_changed", site, "values changed", cs)
    elif kind.startswith("exp"):
        ctx.oracle(len(out) == num and all(x >= 0 for x in out), "C04.exponential.negative", site, "values %r" % out, cs)
        if "max" in v:
            ctx.oracle(all(x <= v["max"] for x in out), "C04.exponential.max_exceeded", site,
                       "max=%r but values %r" % (v["max"], [x for x in out if x > v["max"]][:3]), cs)
    elif kind == "piece":
        # "within the knot range": between the smallest and the largest knot (the first and the last one for knots listed in
        # increasing order, the last and the first one for knots listed in decreasing order)
        kn_ = [float(x) for x in v["knots"]]
        k0, kn = min(kn_), max(kn_)
        desc = knots_order(kn_) == "descending"
        ctx.oracle(len(out) == num and all(k0 - 1e-9 <= x <= kn + 1e-9 for x in out), "C04.piecewise.range", site, "values %r knots %r" % (out, v["knots"]), cs)
        order = np.argsort(draws, kind="stable")
        xs = np.array(out)[order]
        # the value moves from the first knot to the last one as the accumulated probability grows
        ctx.oracle(bool(np.all((-np.diff(xs) if desc else np.diff(xs)) >= -1e-9)), "C04.piecewise.not_monotone", site,
                   "not monotone in the draw (%s from the first knot to the last one)" % ("decreasing" if desc else "increasing"), cs)
        if len(draws) == num and len(out) == num:
            # "follow the given cumulative probabilities", draw by draw (the draws are the recorded rand() values, u = 0 and
            # u = 1 - 2^-53 among them): a draw equal to a cdf value gives its knot, a draw between two cdf values gives a value
            # between their knots.  Independent of the implementation: comparisons with the written specification only
            cdf_ = [float(c) for c in v["cdf"]]
            ctx.oracle(all(close(x, kn_[cdf_.index(u)], 1e-9, 1e-9) for x, u in zip(out, draws) if u in cdf_), "C04.piecewise.cdf_knots", site,
                       "a draw u = cdf_k should give knot_k: draws %r, values %r" % (draws, out), cs)
            ctx.oracle(all(piece_bracket_ok(v, u, x) for x, u in zip(out, draws)), "C04.piecewise.cdf_bracket", site,
                       "a draw between cdf_j and cdf_j+1 should give a value between knot_j and knot_j+1: draws %r, values %r" % (draws, out), cs)
    elif kind in CALLABLE_WANT:
        ctx.oracle(out == CALLABLE_WANT[kind](num), "C04.callable.count", site, "got %r" % out, cs)
        if probe_calls is not None:
            # "callables or dotted function names receive the particle count" (release.yaml: the function "must have size as
            # its sole argument"): one call, one positional argument, no keywords, and the argument is the count itself — an
            # integer equal to num (numpy.zeros / numpy.random.rand and the like reject a float size)
            ok = len(probe_calls) == 1 and len(probe_calls[0][0]) == 1 and not probe_calls[0][1] \
                and isinstance(probe_calls[0][0][0], (int, np.integer)) and not isinstance(probe_calls[0][0][0], bool) \
                and probe_calls[0][0][0] == num
            ctx.oracle(ok, "C04.callable.argument", SITE_ATTR, "function called as %r, particle count %d" % (probe_calls, num), cs)


# ----------------------------------------------------------------------------- whole tables (make_single_release / make_release)
SITE_TABLE = "ladim_plugins/release/makrel.py::make_single_release"
TABLE_NAMES = ["depth", "depth", "stage", "batch", "speed", "w", "region", "farmid", "age", "name"]


def _native(v):
    """the specification as a YAML file gives it: Python scalars and lists only"""
    if isinstance(v, np.generic):
        return v.item()
    if isinstance(v, np.ndarray):
        return [_native(x) for x in v.tolist()]
    if isinstance(v, (list, tuple)):
        return [_native(x) for x in v]
    if isinstance(v, dict):
        return {k: _native(x) for k, x in v.items()}
    return v


def _spec_text(kind, v0):
    return v0 if not callable(v0) else CALLABLE_TEXT[kind]


def _ring(p):
    return [[x, y] for x, y in p] + [[p[0][0], p[0][1]]]


def gen_table_location(rng, g, cfg_names, yamlable, tags):
    """every location form of release.yaml.  A GeoJSON location carries feature properties; most of the time some of them are
    named like attributes configured for the group (`cfg_names`), with values no configured specification can produce."""
    form = rng.choice(["point", "poly", "multi", "offset", "geojson", "geojson", "geojson"])
    cx = 4.0 + 9 * g
    if form == "point":
        loc = [5, 60] if rng.random() < 0.3 else [round(rng.uniform(-20, 30), 4), round(rng.uniform(50, 75), 4)]
        if not yamlable and rng.random() < 0.3: loc = tuple(loc)
        return form, loc, None
    if form == "poly":
        p = geom.random_polygon(rng, cx, 60.0, 0.5)
        return form, [[x for x, y in p], [y for x, y in p]], None
    if form == "multi":
        ps = [geom.random_polygon(rng, cx + 2 * i, 60.0, 0.5) for i in range(rng.randrange(2, 4))]
        return form, [[[x for x, y in p] for p in ps], [[y for x, y in p] for p in ps]], None
    if form == "offset":
        p = geom.random_polygon(rng, 0.0, 0.0, 100.0)
        return form, dict(center=rng.choice([[5, 60], [5.0, 60.0]]), offset=[[x for x, y in p], [y for x, y in p]]), None
    # GeoJSON
    nf = rng.randrange(1, 4)
    uniq = sorted(set(cfg_names))
    collide = [nm for nm in uniq if rng.random() < 0.6] if rng.random() < 0.8 else []
    other = [nm for nm in ("farm_id", "label", "depth") if nm not in uniq and rng.random() < 0.35]
    vtype = {nm: rng.choice(["float", "float", "int", "text"]) for nm in collide + other}
    feats = []
    k = 0
    for f in range(nf):
        props = {}
        for nm in collide + other:
            if nf > 1 and f > 0 and rng.random() < 0.15:
                tags.append("table.geojson.property_missing_in_a_feature"); continue
            # far below everything a configured specification of gen() can yield (constants >= -3, list elements >= -50, ranges
            # >= -5, knots >= -100, exponentials >= 0, bounded gaussians >= mean - 3 std >= -3012.5; unbounded gaussians are
            # compared exactly with mean + std * draw)
            props[nm] = {"float": -9000.5 - f, "int": -9000 - f, "text": "farm %d" % f}[vtype[nm]]
        if rng.random() < 0.4:
            geometry = dict(type=rng.choice(["Polygon", "polygon"]), coordinates=[_ring(geom.random_polygon(rng, cx + 2 * k, 60.0, 0.5))]); k += 1
        else:
            ps = []
            for q in range(rng.randrange(1, 3)):
                ps.append(geom.random_polygon(rng, cx + 2 * k, 60.0, 0.5)); k += 1
            geometry = dict(type="MultiPolygon", coordinates=[[_ring(p)] for p in ps])
        feat = dict(type="Feature", properties=props, geometry=geometry)
        if not props and rng.random() < 0.5:
            del feat["properties"]
        feats.append(feat)
    info = dict(collide=collide, other=other, via="file" if (yamlable or rng.random() < 0.4) else "stream")
    return "geojson", json.dumps(dict(type="FeatureCollection", features=feats)), info


def gen_table_group(rng, g, day, num, yamlable, state, tags):
    """one release group: 1..4 attributes of any documented form (gen()), each either an implicit attribute of the group or an
    entry of its `attrs` block (never both); `depth` is an attribute like the others"""
    names = []
    for nm in rng.sample(TABLE_NAMES, rng.randrange(1, 5)):
        if nm not in names: names.append(nm)
    d0 = "2000-01-%02d" % day
    # a span inside the group's own day: the release times of a group are then strictly increasing (num <= 17: spacing
    # >= 45 min) and the days of the groups are distinct, so the date sort of make_release has no ties at all and the
    # row order of the table is fully determined ("particles in order" below does not lean on the stability of the sort)
    conf = dict(num=num, date=(d0 + " 00:00:00") if num == 1 else [d0 + " 00:00:00", d0 + " 12:00:00"])
    specs = []
    for nm in names:
        while True:
            t = []
            kind, v, _ = gen(rng, num, t)
            if yamlable and kind.startswith("callable"): continue
            if kind in PROBED:
                # (one recording dotted name per table: its calls are told apart by nothing but the shared record)
                if state["dotted_deep"]: continue
                state["dotted_deep"] = True
            break
        if yamlable: v = _native(v)
        where = "attrs" if rng.random() < 0.35 else "implicit"
        (conf.setdefault("attrs", {}) if where == "attrs" else conf)[nm] = v
        specs.append(dict(name=nm, kind=kind, v=v, v0=copy.deepcopy(v), where=where, tags=t))
    form, loc, gj = gen_table_location(rng, g, names, yamlable, tags)
    conf["location"] = loc
    return conf, specs, form, gj


def table_column(col):
    """the values of a table column as floats; anything that is not a number (a text, None) becomes NaN, which fails every oracle"""
    out = []
    for x in col:
        try:
            out.append(float(x))
        except (TypeError, ValueError):
            out.append(float("nan"))
    return out


def table_draws(kind, v0, num, out, log):
    """the recorded draw vector that belongs to an attribute column of a table.  The table is built from several draws (positions,
    other attributes) in an order the property does not fix, so the vector is identified by what was asked of numpy, not by its
    position: a `normal(mean, std, num)` request for a gaussian, a `rand(num)` request for a piecewise attribute; among several
    candidates the one that explains the column is taken (a column no candidate explains is judged against the first)."""
    if kind.startswith("gauss"):
        cands = [e[3].tolist() for e in log if e[0] == "normal" and tuple(e[1]) == (v0["mean"], v0["std"]) and tuple(e[2]) == (num,)]
        if not cands: return None
        vals = lambda zi: (v0["mean"] + v0["std"] * zi, v0.get("min"), v0.get("max"))
        return max(cands, key=lambda z: sum(1 for x, zi in zip(out, z) if x in vals(zi)))
    if kind == "piece":
        cands = [e[3].tolist() for e in log if e[0] == "rand" and tuple(e[2]) == (num,)]
        if not cands: return None
        if len(out) != num: return cands[0]
        sgn = -1.0 if knots_order(v0["knots"]) == "descending" else 1.0
        mono = lambda z: bool(np.all(sgn * np.diff(np.array(out)[np.argsort(z, kind="stable")]) >= -1e-9))
        cdf_, kn_ = [float(c) for c in v0["cdf"]], [float(k) for k in v0["knots"]]
        # (every draw-based oracle of judge(): a vector of position draws that happens to be monotone must not be taken for the
        # attribute's own draws when another recorded vector explains the column)
        expl = lambda z: mono(z) and all(piece_bracket_ok(v0, u, x) for x, u in zip(out, z)) \
            and all(close(x, kn_[cdf_.index(u)], 1e-9, 1e-9) for x, u in zip(out, z) if u in cdf_)
        return next((z for z in cands if expl(z)), next((z for z in cands if mono(z)), cands[0]))
    return []


def _span(day, num):
    """release dates without ties: a span inside the day for more than one particle (strictly increasing release times),
    so that the row order after the date sort of make_release does not depend on the stability of the sort"""
    return day if num == 1 else [day + " 00:00:00", day + " 12:00:00"]


def run_tables(ctx, mk):
    """The attribute columns *of the returned table* (the property's observation point): every documented form, placed in a release
    group of every location kind, through make_single_release and through make_release in each of its configuration formats."""
    import io, os, shutil, tempfile, traceback, yaml
    tmp = tempfile.mkdtemp(prefix="verif_c04_")
    try:
        for c in range(ctx.n(500, 5000)):
            entry = ctx.rng.choice(["single", "flat", "groups", "groups", "list", "yaml"])
            yamlable = entry == "yaml"
            ng = 1 if entry in ("single", "flat") else ctx.rng.choice([1, 2, 3])
            tags = []
            state = dict(dotted_deep=False)
            days = ctx.rng.sample(range(1, 28), ng)      # distinct days: the rows of a group are contiguous in the date-sorted table
            groups = []
            for g in range(ng):
                num = ctx.rng.choice([1, 2, 3, 5, 17])
                conf, specs, form, gj = gen_table_group(ctx.rng, g, days[g], num, yamlable, state, tags)
                groups.append(dict(conf=conf, specs=specs, form=form, gj=gj, num=num, day=days[g]))
            glob = {}
            if entry != "single" and entry != "list":
                if ctx.rng.random() < 0.6: glob["seed"] = ctx.rng.randrange(0, 1000)
                if ctx.rng.random() < 0.2:
                    cfg = sorted({s["name"] for G in groups for s in G["specs"]} - {"depth"})
                    glob["columns"] = ["date", "longitude", "latitude", "depth"] + ctx.rng.sample(cfg, ctx.rng.randrange(0, len(cfg) + 1))
                    tags.append("table.columns_option")
            # GeoJSON files
            for g, G in enumerate(groups):
                if G["gj"] is not None and G["gj"]["via"] == "file":
                    G["path"] = os.path.join(tmp, "area_%d_%d.geojson" % (c, g))
                    with open(G["path"], "w", encoding="utf-8") as fh:
                        fh.write(G["conf"]["location"])
            # knots of a piecewise attribute through the table: every rand() draw of the call is the constant u = cdf_k
            pieces = [(G, s) for G in groups for s in G["specs"] if s["kind"] == "piece"]
            knot = None
            if len(pieces) == 1 and ctx.rng.random() < 0.5:
                kk = ctx.rng.randrange(len(pieces[0][1]["v0"]["cdf"]) - 1)
                knot = (pieces[0][1], pieces[0][1]["v0"]["cdf"][kk], pieces[0][1]["v0"]["knots"][kk])
                tags.append("table.piecewise.knot")

            yaml_flat = entry == "yaml" and ng == 1 and ctx.rng.random() < 0.5

            def build():
                """the configuration handed to the implementation (a stream can be read once: a fresh one per call)"""
                gs = []
                for G in groups:
                    cf = G["conf"]
                    if G["gj"] is not None:
                        cf = dict(G["conf"])
                        cf["location"] = G["path"] if G["gj"]["via"] == "file" else io.StringIO(G["conf"]["location"])
                    gs.append(cf)
                if entry == "single": return gs[0]
                if entry == "flat": return dict(gs[0], **glob)
                if entry == "list": return gs
                full = dict(glob, groups=gs)
                if entry == "yaml":
                    return io.StringIO(yaml.safe_dump(dict(gs[0], **glob) if yaml_flat else full))
                return full

            desc = dict(entry=entry, **glob)
            desc["groups"] = [dict(num=G["num"], date=G["conf"]["date"], location_form=G["form"], location=G["conf"]["location"],
                                   geojson=G["gj"], attributes={s["name"]: dict(where=s["where"], kind=s["kind"], spec=_spec_text(s["kind"], s["v0"]))
                                                                for s in G["specs"]}) for G in groups]
            ctx.case(key=("table", repr(desc)), nontrivial=True, sample=desc if c < 1 else None)
            ctx.branch("table"); ctx.branch("table.entry=%s" % entry); ctx.branch("table.groups=%d" % ng)
            for t in tags: ctx.branch(t)
            for G in groups:
                ctx.branch("table.location=%s" % G["form"]); ctx.branch("table.num=%d" % G["num"])
                if G["gj"] is not None:
                    ctx.branch("table.geojson.via=%s" % G["gj"]["via"])
                    ctx.branch("table.geojson.collision" if G["gj"]["collide"] else "table.geojson.no_collision")
                    if "depth" in G["gj"]["other"]: ctx.branch("table.geojson.depth_property_and_no_depth_configured")
                for s in G["specs"]:
                    ctx.branch("table.attr.%s.%s" % (s["where"], s["kind"]))
                    if s["name"] == "depth": ctx.branch("table.attr.depth.%s" % s["kind"])
                    if G["gj"] is not None and s["name"] in G["gj"]["collide"]:
                        ctx.branch("table.collision.%s.%s" % ("depth" if s["name"] == "depth" else s["where"], s["kind"]))

            no_stream = all(G["gj"] is None or G["gj"]["via"] == "file" for G in groups)
            calls = 2 if (no_stream and entry != "yaml" and ctx.rng.random() < 0.2) else 1
            config = None
            for call in range(calls):
                if call == 1:
                    ctx.case(key=("table", repr(desc), "second"), nontrivial=True); ctx.branch("table.second_call_same_object")
                if config is None:
                    config = build()
                cs = dict(desc)
                if call == 1: cs["second_call_with_same_object"] = True
                tail = ibmrun.tail_injector(ctx.rng, 0.25)
                inj = tail if knot is None else (lambda kind, p, arr, _u=knot[1], _t=tail: np.full(arr.shape, _u) if kind == "rand" else _t(kind, p, arr))
                del PROBE_CALLS[:]
                for G in groups:
                    for s in G["specs"]:
                        if isinstance(s["v"], CountProbe): del s["v"].calls[:]
                try:
                    with Recorder(ctx.sub_seed(), inj) as rec:
                        table = mk.make_single_release(config) if entry == "single" else mk.make_release(config)
                except Exception as e:
                    tb = traceback.extract_tb(e.__traceback__)
                    if not any("/ladim_plugins/" in f.filename and "/verif/" not in f.filename for f in tb):
                        raise                                   # a harness mistake, not the implementation
                    ctx.oracle(False, "C04.table.rejected", SITE_TABLE, "a configuration of documented forms raised %r%s" % (e, " (second call with the same configuration object)" if call else ""),
                               dict(cs, traceback=traceback.format_exc()[-1500:]))
                    break
                # rows of each group: groups appear in the order of their (distinct) days, particles in order
                off = 0
                for G in sorted(groups, key=lambda G: G["day"]):
                    lo, hi = off, off + G["num"]; off = hi
                    for s in G["specs"]:
                        if s["name"] not in table:
                            # only a `columns` selection may leave a configured attribute out
                            ctx.oracle("columns" in glob and s["name"] not in glob["columns"], "C04.table.attribute_column_missing", SITE_TABLE,
                                       "configured attribute %r has no column (columns %r)" % (s["name"], list(table)), cs)
                            continue
                        col = list(table[s["name"]])
                        total = sum(G2["num"] for G2 in groups)
                        if not ctx.oracle(len(col) == total, "C04.table.column_length", SITE_TABLE, "column %r has %d rows, %d particles" % (s["name"], len(col), total), cs):
                            continue
                        out = table_column(col[lo:hi])
                        draws = table_draws(s["kind"], s["v0"], G["num"], out, rec.log)
                        if draws is None:
                            ctx.disagreement("table.draws_unobserved", "no recorded numpy request matches attribute %r (%s)" % (s["name"], s["kind"]), cs)
                            draws = []
                        acs = dict(cs, attribute=s["name"], kind=s["kind"], spec=_spec_text(s["kind"], s["v0"]), num=G["num"], where=s["where"],
                                   column=[x if isinstance(x, (int, float, str)) or x is None else repr(x) for x in col[lo:hi]], draws=draws)
                        probe_calls = list(PROBE_CALLS) if s["kind"] in PROBED else (list(s["v"].calls) if s["kind"] == "callable_obj" else None)
                        judge(ctx, s["kind"], s["v0"], G["num"], out, draws, acs, probe_calls, site=SITE_TABLE)
                        if knot is not None and s is knot[0]:
                            # cumulative probabilities, as in the get_attr cases above (same tolerance: the spline is not exact at the knots)
                            ctx.oracle(len(out) == G["num"] and all(close(x, knot[2], 1e-9, 1e-9) for x in out), "C04.piecewise.cdf_knots", SITE_TABLE,
                                       "every u = cdf = %r should give knot %r, got %r" % (knot[1], knot[2], out), acs)
    finally:
        shutil.rmtree(tmp, ignore_errors=True)


# ----------------------------------------------------------------------------- piecewise specifications with a history
def gen_piece_family(rng, tags):
    """2..3 piecewise specifications that share their knots but not their cumulative probabilities (or the other way round): each
    one is a documented specification on its own; what is varied is which other specifications the process has seen before"""
    while True:
        v, _ = gen_piece(rng, [])
        if len(v["cdf"]) >= 3: break
    n = len(v["cdf"])
    share = rng.choice(["knots", "knots", "knots", "cdf"])
    tags.append("piecewise.history.shared_%s" % share)
    if knots_order(v["knots"]) == "descending": tags.append("piecewise.history.first_knots=descending")
    fam = [v]
    for _ in range(rng.randrange(1, 3)):
        w = copy.deepcopy(v)
        if share == "knots":
            while True:
                cdf = sorted(set([0.0, 1.0] + [round(rng.random(), 3) for _ in range(n - 2)]))
                if len(cdf) == n and all(cdf != list(f["cdf"]) for f in fam): break
            w["cdf"] = cdf
        else:
            while True:
                knots = sorted(rng.uniform(-100, 100) for _ in range(n))
                if all(knots != list(f["knots"]) and knots[::-1] != list(f["knots"]) for f in fam): break
            if rng.random() < 0.5:
                # the same cdf over knots listed the other way round (a member may so differ from the others in knot order too)
                knots = knots[::-1]; tags.append("piecewise.history.member_knots=descending")
            w["knots"] = knots
        if "degree" in w and rng.random() < 0.5: del w["degree"]
        c = rng.choice(["list", "list", "tuple", "ndarray"])
        if c != "list":
            w["knots"] = tuple(w["knots"]) if c == "tuple" else np.array(w["knots"]); tags.append("piecewise.history.knots_container=%s" % c)
        fam.append(w)
    return fam


def piece_bracket_ok(v0, u, x):
    """cdf_j is the probability accumulated when knot_j is reached, for every j: a draw u with cdf_j <= u <= cdf_j+1 gives a value
    between knot_j and knot_j+1 -- knot_j <= x <= knot_j+1 for knots listed in increasing order (P(value <= knot_j) = cdf_j), the
    other way round for knots listed in decreasing order (1e-9: the spline evaluation is not exact, as for the knot oracle)"""
    cdf, kn = list(v0["cdf"]), list(v0["knots"])
    return any(cdf[j] <= u <= cdf[j + 1] and min(kn[j], kn[j + 1]) - 1e-9 <= x <= max(kn[j], kn[j + 1]) + 1e-9 for j in range(len(cdf) - 1))


def run_piece_history(ctx, mk):
    """the cumulative probabilities of *this* specification are followed whatever was sampled before in the same process: get_attr
    calls in succession, several piecewise attributes of one group, several groups of one release, successive make_release calls"""
    def judge_piece(v0, us, out, num, site, cs):
        out = table_column(out)
        cs = dict(cs, spec=v0, num=num, draws=list(us), out=out)
        ok = len(out) == num
        ctx.oracle(ok and all(close(x, list(v0["knots"])[list(v0["cdf"]).index(u)], 1e-9, 1e-9) for x, u in zip(out, us) if u in list(v0["cdf"])),
                   "C04.piecewise.cdf_knots", site, "a draw u = cdf_k should give knot_k: draws %r, values %r" % (list(us), out), cs)
        ctx.oracle(ok and all(piece_bracket_ok(v0, u, x) for x, u in zip(out, us)), "C04.piecewise.cdf_bracket", site,
                   "a draw between cdf_j and cdf_j+1 should give a value between knot_j and knot_j+1: draws %r, values %r" % (list(us), out), cs)

    for c in range(ctx.n(150, 1500)):
        tags = []
        fam = gen_piece_family(ctx.rng, tags)
        fam0 = copy.deepcopy(fam)
        if ctx.rng.random() < 0.5:
            fam.append(fam[0]); fam0.append(fam0[0])          # ... and the first one again
        mode = ctx.rng.choice(["get_attr", "get_attr", "group_attrs", "groups", "releases"])
        ctx.branch("piecewise.history"); ctx.branch("piecewise.history.%s" % mode)
        for t in tags: ctx.branch(t)
        base = dict(mode=mode, family=fam0)
        if mode == "get_attr":
            for i, (v, v0) in enumerate(zip(fam, fam0)):
                num = ctx.rng.choice([1, 2, 3, 5, 17])
                cdf = list(v0["cdf"])
                # per particle: u = cdf_k of this specification, a cdf value of another member, or any u in [0, 1)
                pool = sorted({u for f in fam0 for u in list(f["cdf"])[:-1]})
                us = [cdf[ctx.rng.randrange(len(cdf) - 1)] if ctx.rng.random() < 0.6 else (ctx.rng.choice(pool) if ctx.rng.random() < 0.5 else ctx.rng.random())
                      for _ in range(num)]
                ua = np.array(us, dtype=float)
                ctx.case(key=("piece_history", repr(fam0), i, tuple(us)), nontrivial=True)
                with Recorder(0, lambda kind, p, arr, _u=ua: (_u.reshape(arr.shape) if arr.size == _u.size else np.full(arr.shape, _u[0]))):
                    out = mk.get_attr(v, num)
                judge_piece(v0, us, out, num, SITE, dict(base, call=i))
            continue
        # through the table: point location (no position draws), every rand() draw of a call is one constant u
        names = ctx.rng.sample(sorted(set(TABLE_NAMES)), len(fam))
        num = ctx.rng.choice([1, 2, 3, 5, 17])
        if mode == "group_attrs":
            conf = dict(num=num, date=_span("2000-01-01", num), location=[5, 60])
            for nm, v in zip(names, fam):
                (conf.setdefault("attrs", {}) if ctx.rng.random() < 0.35 else conf)[nm] = v
            configs = [conf if ctx.rng.random() < 0.5 else dict(groups=[conf])]
            layout = [[(0, nm, v0) for nm, v0 in zip(names, fam0)]]
        elif mode == "groups":
            if ctx.rng.random() < 0.5: names = [names[0]] * len(fam)      # the same attribute (e.g. depth) in every group
            gs = [dict(num=num, date=_span("2000-01-%02d" % (i + 1), num), location=[5, 60], **{nm: v}) for i, (nm, v) in enumerate(zip(names, fam))]
            configs = [dict(groups=gs) if ctx.rng.random() < 0.7 else gs]
            layout = [[(i, nm, v0) for i, (nm, v0) in enumerate(zip(names, fam0))]]
        else:
            configs = [dict(num=num, date=_span("2000-01-01", num), location=[5, 60], **{nm: v}) for nm, v in zip(names, fam)]
            layout = [[(0, nm, v0)] for nm, v0 in zip(names, fam0)]
        for target in range(len(fam0)):
            cdf = list(fam0[target]["cdf"])
            u = cdf[ctx.rng.randrange(1, len(cdf) - 1)] if ctx.rng.random() < 0.8 else ctx.rng.random()
            for ci, (config, lay) in enumerate(zip(configs, layout)):
                ctx.case(key=("piece_history", repr(fam0), mode, repr(names), num, target, u, ci), nontrivial=True)
                with Recorder(ctx.sub_seed(), lambda kind, p, arr, _u=u: np.full(arr.shape, _u) if kind == "rand" else arr):
                    table = mk.make_release(config)
                for g, nm, v0 in lay:
                    judge_piece(v0, [u] * num, list(table[nm])[g * num:(g + 1) * num], num, SITE_TABLE,
                                dict(base, names=names, release=ci, group=g, attribute=nm, column=list(table[nm])))


MASS_N = 4000
MASS_TOL = 0.06


def run_piece_mass(ctx, mk):
    """"follow the given cumulative probabilities" for many particles and numpy's own generator (nothing recorded, nothing injected):
    the share of the values between knot_j and knot_j+1 is cdf_j+1 - cdf_j.  Knots strictly increasing or strictly decreasing, so
    that the segments between consecutive knots overlap in single points only (probability zero).

    False-alarm bound: under the specified distribution the count of a segment is Binomial(N, p_j); Hoeffding gives
    P(|count/N - p_j| > t) <= 2 exp(-2 N t^2) = 2 exp(-28.8) < 6.3e-13 for N = 4000, t = 0.06 (the spline's evaluation error of
    ~1e-13 moves a value across a knot with probability < 1e-10 per value, far inside the slack).  At most 4 segments x 120 cases
    (thorough; 12 quick) = 480 tests: < 3.1e-10 per run."""
    for c in range(ctx.n(12, 120)):
        n = ctx.rng.randrange(2, 6)
        while True:
            cdf = sorted(set([0.0, 1.0] + [round(ctx.rng.random(), 3) for _ in range(n - 2)]))
            if len(cdf) == n: break
        form = ctx.rng.choice(["float", "int"])
        knots = sorted(ctx.rng.sample(range(-50, 100), n)) if form == "int" else sorted(round(ctx.rng.uniform(-100, 100), 3) for _ in range(n))
        if len(set(knots)) < n: continue
        order = ctx.rng.choice(["ascending", "descending", "descending"])
        if order == "descending": knots = knots[::-1]
        if c == 0: knots, cdf, order = [0, -1, -5, -20], [0.0, 0.5, 0.8, 1.0], "descending"      # heights below the surface
        v = dict(distribution="piecewise", knots=knots, cdf=cdf)
        v0 = copy.deepcopy(v)
        entry = ctx.rng.choice(["get_attr", "make_release.seed", "make_single_release"])
        seed = ctx.sub_seed()
        ctx.case(key=("piece_mass", repr(v0), entry, seed), nontrivial=True)
        ctx.branch("piecewise.mass"); ctx.branch("piecewise.mass.knots=%s" % order); ctx.branch("piecewise.mass.%s" % entry)
        cs = dict(spec=v0, num=MASS_N, entry=entry, numpy_seed=seed)
        state = np.random.get_state()
        try:
            np.random.seed(seed)
            if entry == "get_attr":
                out = mk.get_attr(v, MASS_N)
            else:
                conf = dict(num=MASS_N, date="2000-01-01 00:00:00", location=[5, 60], w=v)
                out = mk.make_release(dict(conf, seed=seed))["w"] if entry == "make_release.seed" else mk.make_single_release(conf)["w"]
        finally:
            np.random.set_state(state)
        out = table_column(out)
        if not ctx.oracle(len(out) == MASS_N, "C04.piecewise.count", SITE, "%d values for %d particles" % (len(out), MASS_N), cs):
            continue
        lo, hi = min(knots), max(knots)
        ctx.oracle(all(lo - 1e-9 <= x <= hi + 1e-9 for x in out), "C04.piecewise.range", SITE,
                   "values outside the knot range [%r, %r]: %r" % (lo, hi, [x for x in out if not lo - 1e-9 <= x <= hi + 1e-9][:3]), cs)
        xs = np.array(out)
        shares = [float(np.mean((xs >= min(a, b)) & (xs <= max(a, b)))) for a, b in zip(knots, knots[1:])]
        want = [b - a for a, b in zip(cdf, cdf[1:])]
        ctx.oracle(all(abs(s_ - w_) <= MASS_TOL for s_, w_ in zip(shares, want)), "C04.piecewise.cdf_mass", SITE,
                   "share of %d values between consecutive knots %r: observed %r, specified (cdf differences) %r" % (MASS_N, knots, [round(x, 4) for x in shares], [round(x, 4) for x in want]),
                   dict(cs, observed_shares=shares, specified_shares=want))


def run_single_time_order(ctx, mk):
    """"explicit lists are reproduced verbatim in particle order" where all particles of a group share ONE release time
    (the commonest configuration: `date: <one date>`): the rows of the group tie in the date sort of make_release, and
    the explicit list must still come back in the order given (1 .. 300 particles; numpy's non-stable sorts start to
    permute ties at 17 elements).  Also several groups released at the same time: each group's values stay in the
    group's own order (rows identified by a group tag).  Implementation-side only; exact comparison."""
    import io
    for c in range(ctx.n(60, 600)):
        ng = ctx.rng.choice([1, 1, 2, 3])
        same_time = ctx.rng.random() < 0.7
        date = "2000-%02d-%02d%s" % (ctx.rng.randrange(1, 13), ctx.rng.randrange(1, 28), ctx.rng.choice(["", " 12:00", "T06:30:15"]))
        groups, want = [], {}
        for g in range(ng):
            num = ctx.rng.choice([1, 3, 16, 17, 18, 33, 64, 100, 257, 300])
            vals = [float(x) for x in ctx.rng.sample(range(-5000, 5000), num)]
            form = ctx.rng.choice(["list", "tuple", "array", "int_list"])
            v = {"list": list(vals), "tuple": tuple(vals), "array": np.array(vals), "int_list": [int(x) for x in vals]}[form]
            d = date if same_time else "2000-%02d-%02d" % (ctx.rng.randrange(1, 13), ctx.rng.randrange(1, 28))
            conf = dict(date=d, num=num, location=[5 + g, 60], depth=0, attrs=dict(seq=v, gid=1000 + g))
            if ctx.rng.random() < 0.3:
                conf["attrs"]["other"] = [0, 10]          # a range attribute beside it (draws do not disturb the order)
            groups.append(conf); want[1000 + g] = vals
            ctx.branch("single_time.num_ge_17" if num >= 17 else "single_time.num_lt_17"); ctx.branch("single_time.form=%s" % form)
        entry = "flat" if ng == 1 and ctx.rng.random() < 0.5 else ctx.rng.choice(["groups", "list"])
        cfg = dict(groups[0]) if entry == "flat" else (dict(groups=list(groups)) if entry == "groups" else list(groups))
        if entry != "list" and ctx.rng.random() < 0.5: cfg["seed"] = ctx.rng.randrange(1000)
        to_file = ctx.rng.random() < 0.3
        ctx.branch("single_time"); ctx.branch("single_time.entry=%s" % entry); ctx.branch("single_time.groups=%d" % ng)
        if same_time and ng > 1: ctx.branch("single_time.groups_share_time")
        cs = dict(entry=entry, groups=[dict(G, attrs={k: (list(map(float, x)) if k == "seq" else x) for k, x in G["attrs"].items()}) for G in groups], to_file=to_file)
        ctx.case(key=("single_time", c, repr(cs)), nontrivial=True)
        try:
            with Recorder(ctx.sub_seed(), None):
                if to_file:
                    buf = io.StringIO(); out = mk.make_release(cfg, buf)
                else:
                    out = mk.make_release(cfg)
        except Exception as e:
            ctx.oracle(False, "C04.table.rejected", "ladim_plugins/release/makrel.py::make_release", "a configuration of documented forms raised %r" % (e,), cs)
            continue
        gid = [int(round(float(x))) for x in table_column(out["gid"])]
        seq = table_column(out["seq"])
        for k, vals in want.items():
            got = [x for x, g_ in zip(seq, gid) if g_ == k]
            ctx.oracle(got == vals, "C04.list.verbatim_order", "ladim_plugins/release/makrel.py::make_release",
                       "the explicit list of group %d (%d particles released at one time) comes back in another order: first differing position %s"
                       % (k, len(vals), next((i for i, (a, b) in enumerate(zip(got, vals)) if a != b), len(got))), dict(cs, group=k, got=got))


def run(ctx):
    mk = importlib.import_module("ladim_plugins.release.makrel")
    drv = Driver()
    if getattr(ctx, "widened", False):
        drv.available = False
    pend = []
    variant_votes = {0: 0, 1: 0}

    def one_call(v, v0, kind, num, toks, cs, second):
        """one call of get_attr on the specification object `v`; judged against the pristine copy `v0`"""
        inj = ibmrun.tail_injector(ctx.rng, 0.25)
        del PROBE_CALLS[:]
        if isinstance(v, CountProbe): del v.calls[:]
        try:
            with Recorder(ctx.sub_seed(), inj) as rec:
                out = mk.get_attr(v, num)
            out = [float(x) for x in out]
        except Exception as e:
            ctx.oracle(False, "C04.%s.rejected" % kind.split("_")[0], SITE_ATTR,
                       "documented form %r raised %r for num=%d%s" % (cs["spec"], e, num, " (second call with the same specification object)" if second else ""), cs)
            return False
        draws = rec.log[0][3].tolist() if rec.log else []
        cs = dict(cs, draws=draws, out=out)
        if second: cs["second_call_with_same_object"] = True
        probe_calls = list(PROBE_CALLS) if kind in PROBED else (list(v.calls) if kind == "callable_obj" else None)
        judge(ctx, kind, v0, num, out, draws, cs, probe_calls)
        exp_sched = expected_schedule(kind, num)
        # model
        if drv.available:
            if rec.schedule() != exp_sched:
                ctx.disagreement("get_attr.draw_schedule", "model declares %r, implementation requested %r" % (exp_sched, rec.schedule()), cs)
                return True
            ctx.schedule_matches += 1
            a = drv.ask("attr.get", "0", toks, I(num), L(draws))
            b = drv.ask("attr.get", "1", toks, I(num), L(draws))
            pend.append((a, b, out, kind, cs))
        elif exp_sched and len(draws) != num:
            # without the model there is no schedule comparison; draws that bypass the recorder cannot be steered into the tails
            ctx.disagreement("get_attr.draws_unobserved", "a stochastic form drew %d values through the recorded numpy entry points, expected %d" % (len(draws), num), cs)
        return True

    for c in range(ctx.n(1500, 25000)):
        num = ctx.rng.choice([1, 2, 3, 5, 17])
        tags = []
        kind, v, toks = gen(ctx.rng, num, tags)
        v0 = copy.deepcopy(v)       # judged against this copy, never against the object the implementation had in its hands
        cs = dict(kind=kind, spec=(v0 if not callable(v0) else CALLABLE_TEXT[kind]), num=num)
        ctx.case(key=(kind, repr(cs["spec"]), num), nontrivial=True, sample=cs if c < 3 else None)
        ctx.branch(kind); ctx.branch("num=%d" % num)
        for t in tags: ctx.branch(t)
        if not one_call(v, v0, kind, num, toks, cs, False):
            continue
        if ctx.rng.random() < 0.3:
            # the same specification object once more (a config mapping is reused between groups / calls): every documented form
            # is accepted and honoured again
            ctx.case(key=(kind, repr(cs["spec"]), num, "second"), nontrivial=True); ctx.branch("second_call_same_object")
            one_call(v, v0, kind, num, toks, cs, True)
    # piecewise: P(v <= knot_k) = cdf_k  (exact check through the inverse: value at u = cdf_k is knot_k)
    for c in range(ctx.n(100, 1000)):
        v, _ = gen_piece(ctx.rng, [])
        for ck, kk in zip(v["cdf"][:-1], v["knots"][:-1]):
            with RngRecorder(0, lambda kind, p, arr, _c=ck: np.full(arr.shape, _c)):
                out = mk.get_attr(v, 3)
            ctx.case(key=("piece_knot", repr(v), ck), nontrivial=True); ctx.branch("piecewise.knot")
            ctx.branch("piecewise.knot.knots=%s" % knots_order(v["knots"]))
            ctx.oracle(all(close(x, kk, 1e-9, 1e-9) for x in out), "C04.piecewise.cdf_knots", SITE,
                       "u=cdf=%r should give knot %r, got %r" % (ck, kk, out), dict(spec=v))
    # the same per particle: particle i draws u_i = cdf_{k_i} (a different knot for each particle, in random order) and must get
    # knot_{k_i} (tolerance as above: the spline evaluation is not exact at the knots)
    for c in range(ctx.n(150, 1500)):
        tags = []
        v, _ = gen_piece(ctx.rng, tags)
        v0 = copy.deepcopy(v)
        num = ctx.rng.choice([1, 2, 3, 5, 17])
        ks = [ctx.rng.randrange(len(v0["cdf"]) - 1) for _ in range(num)]
        us = np.array([v0["cdf"][k] for k in ks], dtype=float)
        with Recorder(0, lambda kind, p, arr, _u=us: (_u.reshape(arr.shape) if arr.size == _u.size else np.full(arr.shape, _u[0]))) as rec:
            out = [float(x) for x in mk.get_attr(v, num)]
        ctx.case(key=("piece_knot_mixed", repr(v0), tuple(ks)), nontrivial=True); ctx.branch("piecewise.knot_per_particle")
        for t in tags: ctx.branch("knot_per_particle." + t)
        want = [v0["knots"][k] for k in ks]
        ctx.oracle(len(out) == num and all(close(x, w, 1e-9, 1e-9) for x, w in zip(out, want)), "C04.piecewise.cdf_knots", SITE,
                   "particle i draws u_i = cdf[k_i] (k = %r): expected knots %r, got %r" % (ks, want, out), dict(spec=v0, num=num, draws=us.tolist(), out=out))
    run_piece_mass(ctx, mk)
    run_tables(ctx, mk)
    run_piece_history(ctx, mk)
    run_single_time_order(ctx, mk)
    if drv.available:
        rep = drv.run()
        results = []
        for a, b, out, kind, cs in pend:
            ma = None if rep[a][1][0] == "none" else [unF(x) for x in rep[a][1][1:]]
            mb = None if rep[b][1][0] == "none" else [unF(x) for x in rep[b][1][1:]]
            tol = 1e-9 if kind == "piece" else 0.0
            eqa = ma is not None and len(ma) == len(out) and all(close(x, y, tol, tol) if tol else x == y for x, y in zip(out, ma))
            eqb = mb is not None and len(mb) == len(out) and all(close(x, y, tol, tol) if tol else x == y for x, y in zip(out, mb))
            if eqa and not eqb: variant_votes[0] += 1
            if eqb and not eqa: variant_votes[1] += 1
            results.append((eqa, eqb, out, ma, mb, kind, cs))
        variant = 1 if variant_votes[1] > 0 and variant_votes[0] == 0 else 0
        ctx.note("gaussian clip argument order matched by the code: %s (votes %r)" % (["swapped (np.clip(minimum, maximum, r))", "correct"][variant], variant_votes))
        ctx.branch("clip_variant_%s" % ["swapped", "correct"][variant])
        for eqa, eqb, out, ma, mb, kind, cs in results:
            ctx.bit_exact += 1
            if not (eqb if variant else eqa):
                ctx.disagreement("get_attr.%s" % kind, "impl=%r model=%r" % (out[:4], (mb if variant else ma)), cs)


def replay(payload):
    print("predicate:", payload.get("predicate"), "|", payload.get("detail"))
    return False
