"""C01 — the release table is complete: one intact row per requested particle.

Correspondence: real `make_release` (seeded recorder) against the Lean table model (`Table.makeTable`:
dict-merge column order, concat + zero fill, sort by date string, column selection) fed with the group
pieces produced by the real `date_range` / `get_location` / `get_attrs` under the same draw stream.
Oracle: row counts per group (hidden marker attribute), row integrity (per-particle tag), zero fill,
column order (requested / default); the complete default header; the rows of the table as a multiset against the
values the real per-group generators returned *in that very call* (a spy on `make_single_release` / `date_range` /
`get_location` / `get_attrs`), which judges positions, sampled attributes and GeoJSON properties as well and does
not need the markers; the written file (when `fname` is given) against the returned table; for polygon, multi-polygon and
GeoJSON groups the position of a row against the group's own location (exact rational point-in-polygon of `geom`, no /repo
code), and for GeoJSON groups the feature properties of a row against the properties of the one feature whose polygon
contains the row's position (the spy cannot see this: position and properties come out of the same `get_location` call)."""
import importlib, io, json, os, shutil, tempfile
from collections import Counter
import numpy as np
from .common import Driver, I, unF, RngRecorder, same_bits
from . import relgen, geom
from .relgen import name_tok, cell_tok, frame_toks

RULE = ("1..6 groups; num in {0,1,2,3,5,12,40} (int or numpy integer); location forms point / polygon / multi-polygon / metric offset / "
        "GeoJSON (1..3 features, 1..2 polygons each, MultiPolygon or Polygon geometry, heterogeneous properties, sometimes a property "
        "`w` named like a group attribute), coordinates as float/int lists, tuples or numpy arrays; attribute forms const / list / "
        "range / gaussian / exponential / piecewise / callable / dotted name (lists also as tuple / numpy array, constants also "
        "numpy floats), attributes named like GeoJSON properties (region, farmid); implicit and explicit `attrs`, the oracle's "
        "markers explicit or implicit (then groups without any `attrs` mapping); dates as second-resolution strings or (40 %) "
        "date-only / sub-second strings, date / datetime objects, datetime64[s|ms|D], pairs as list or tuple, a quarter of the later "
        "groups repeat an earlier group's date span (cross-group ties); with and without `columns` (either all of date, position, "
        "depth, markers plus extras, or an arbitrary non-empty subset of the available columns incl. GeoJSON properties, possibly "
        "without date / markers); flat, list (a real list: no global keys) and grouped containers; with and without seed (seed 0 "
        "in 5 % of the seeded cases); a fifth of the cases write the file (`fname`). 60 % of the GeoJSON groups and 12 % of the other "
        "groups get a *feature-layout* GeoJSON location instead: 1..6 features of 1..3 disjoint polygons each on a 3-degree grid, "
        "polygon kinds rectangle (aspect 1 .. 0.01) / triangle / random simple polygon, polygon sizes 0.014 .. 1.3 degrees mixed "
        "within one location (or all unit squares: equal triangle areas), geometry Polygon / MultiPolygon in any letter case, every "
        "feature with a distinct `farm_id` (int, x.5 float, rarely a text) in shuffled order and/or region / farmid / name / w "
        "properties, features without `properties` / with `properties: null` / with `{}`, the layer alone or first in a list of "
        "layers; a GeoJSON location is handed over as a stream or (40 %) as the name of a UTF-8 file. Non-trivial: total num >= 1.")
ASSUMPTIONS = ["rows with equal date strings are compared as multisets (pandas' quicksort is unstable)"]
SITE = "ladim_plugins/release/makrel.py::make_release"
SPECIAL = ["num", "date", "location", "attrs"]


def attr_names(groups):
    """every attribute name of the configuration: implicit, explicit, and the GeoJSON feature properties"""
    out = set()
    for c in groups:
        out |= set(c.keys()) - set(SPECIAL)
        out |= set(c.get("attrs", {}).keys())
        out |= relgen.geojson_props(c)
    return out


def build_config(rng):
    ng = rng.randrange(1, 7)
    groups = []; forms = []; deliver = {}; layout = {}
    for g in range(ng):
        form, conf = relgen.gen_group(rng, g, rich=True)
        if g > 0 and rng.random() < 0.25:
            conf["date"] = groups[rng.randrange(g)]["date"]         # same span as an earlier group: cross-group ties
        if rng.random() < (0.6 if form == "geojson" else 0.12):
            # feature layout: which feature a particle lands in (sizes, kinds, identifying properties)
            form = "geojson"; conf["location"] = gen_feature_location(rng); layout[g] = True
        if form == "geojson":
            deliver[g] = "file" if rng.random() < 0.4 else "stream"
        groups.append(conf); forms.append(form)
    container = rng.choice(["flat", "list", "grouped"]) if ng == 1 else rng.choice(["list", "grouped", "grouped"])
    glob = {}
    if container != "list":                      # a list of groups cannot carry global keys
        if rng.random() < 0.5:
            glob["seed"] = rng.randrange(1000) if rng.random() >= 0.05 else 0
        if rng.random() < 0.5:
            allc = ["date", "longitude", "latitude", "depth", "grp", "tag"]
            extra = sorted(attr_names(groups) - set(allc))
            if rng.random() < 0.6:
                cols = allc + rng.sample(extra, rng.randrange(0, len(extra) + 1))
            else:                                # any non-empty selection, possibly without date / position / markers
                pool = allc + extra
                cols = rng.sample(pool, rng.randrange(1, len(pool) + 1))
            rng.shuffle(cols)
            glob["columns"] = cols
    return groups, forms, container, glob, deliver, layout


GRID_STEP = 3.0          # feature-layout polygons sit in separate 3 x 3 degree cells; every polygon stays within 1.3 of its cell centre


def _layout_polygon(rng, cx, cy, r, kind):
    """one simple polygon [(lon, lat)] inside the disc-ish cell of radius r around (cx, cy)"""
    if kind == "rect":
        hx = r * rng.uniform(0.3, 1.0)
        hy = r * rng.choice([1.0, 1.0, 0.5, 0.1, 0.01]) * rng.uniform(0.3, 1.0)
        if rng.random() < 0.5:
            hx, hy = hy, hx
        p = [(cx - hx, cy - hy), (cx + hx, cy - hy), (cx + hx, cy + hy), (cx - hx, cy + hy)]
        k = rng.randrange(4); p = p[k:] + p[:k]
        return p[::-1] if rng.random() < 0.5 else p
    if kind == "tri":
        while True:
            p = geom.star_polygon(rng, cx, cy, r, 3)
            if geom.is_simple(p):
                return p[::-1] if rng.random() < 0.5 else p
    return geom.random_polygon(rng, cx, cy, r)


def gen_feature_location(rng):
    """A GeoJSON location that explores *which feature a particle lands in*: several features with polygons of (very)
    different size and kind, pairwise disjoint (own grid cell each, gap >= 0.4 degrees), and feature properties that tell
    the features apart.  Returns the JSON text."""
    nf = rng.randrange(1, 7)
    sizes = rng.choice(["mixed", "mixed", "mixed", "equal_unit_squares", "same_scale"])
    cells = rng.sample(range(24), 18)                          # 8 x 3 grid of cells, visited in random order
    ids = rng.sample(range(1, 100), nf)                        # distinct identifiers, not ordered like the features
    pmode = rng.choice(["ident", "ident", "ident+hetero", "hetero", "sparse"])
    idkind = rng.choice(["int", "int", "half", "mixed_text"])
    scale0 = rng.choice([0.02, 0.1, 0.5, 1.3])
    feats = []; k = 0
    for f in range(nf):
        ps = []
        for q in range(rng.choice([1, 1, 2, 3])):
            cell = cells[k]; k += 1
            cx = -15.0 + GRID_STEP * (cell % 8); cy = 57.0 + GRID_STEP * (cell // 8)
            if sizes == "equal_unit_squares":
                p = [(cx, cy), (cx + 1.0, cy), (cx + 1.0, cy + 1.0), (cx, cy + 1.0)]
            else:
                r = (scale0 if sizes == "same_scale" else rng.choice([0.02, 0.1, 0.5, 1.3])) * rng.uniform(0.7, 1.0)
                p = _layout_polygon(rng, cx, cy, r, rng.choice(["rect", "rect", "tri", "random", "random"]))
            ps.append(p)
        ring = lambda p: [[x, y] for x, y in p] + [[p[0][0], p[0][1]]]
        props = {}
        if pmode in ("ident", "ident+hetero"):
            props["farm_id"] = ids[f] if idkind == "int" else ids[f] + 0.5 if idkind == "half" else (
                "id-%d" % ids[f] if f % 2 else ids[f])
        if pmode != "ident":
            for name in ("region", "farmid"):
                if rng.random() < 0.7:
                    props[name] = rng.choice([f + 1, 2.5 * (f + 1)])
            if rng.random() < 0.4:
                props["name"] = rng.choice(["farm %d", "anlegg æ%d"]) % ids[f]
            if rng.random() < 0.3:
                props["w"] = 100.0 + f
            keys = list(props); rng.shuffle(keys); props = {kk: props[kk] for kk in keys}
        t = rng.choice(["MultiPolygon", "MultiPolygon", "multipolygon", "MULTIPOLYGON"])
        geometry = dict(type=t, coordinates=[[ring(p)] for p in ps])
        if len(ps) == 1 and rng.random() < 0.5:
            geometry = dict(type=rng.choice(["Polygon", "polygon", "POLYGON"]), coordinates=[ring(ps[0])])
        feat = dict(type="Feature", properties=props, geometry=geometry)
        if pmode == "sparse" and rng.random() < 0.35:
            how = rng.choice(["omit", "null", "empty"])
            if how == "omit":
                del feat["properties"]
            else:
                feat["properties"] = None if how == "null" else {}
        feats.append(feat)
    layer = dict(type="FeatureCollection", features=feats)
    if rng.random() < 0.15:
        # the reader takes the first layer of a list of layers
        return json.dumps([layer] + ([dict(type="FeatureCollection", features=[])] if rng.random() < 0.5 else []), ensure_ascii=False)
    return json.dumps(layer, ensure_ascii=False)


def feature_polys(locjson):
    """the GeoJSON text read independently of /repo: [(feature index, [(lon, lat)] outer ring without the closing point,
    properties of the feature)] for every polygon of the first layer"""
    data = json.loads(locjson)
    layer = data if isinstance(data, dict) else data[0]
    out = []
    for fi, f in enumerate(layer["features"]):
        g = f["geometry"]
        outer = [pl[0] for pl in g["coordinates"]] if g["type"].upper() == "MULTIPOLYGON" else [g["coordinates"][0]]
        for ring in outer:
            out.append((fi, [(float(x), float(y)) for x, y in ring[:-1]], f.get("properties") or {}))
    return out


def own_polys(form, conf):
    """the polygons [(lon, lat)] of a polygon / multi-polygon / GeoJSON group's location (None for the other forms)"""
    loc = conf["location"]
    if form == "geojson":
        return [p for _, p, _ in feature_polys(loc)]
    if form == "poly":
        return [[(float(x), float(y)) for x, y in zip(loc[0], loc[1])]]
    if form == "multi":
        return [[(float(x), float(y)) for x, y in zip(lo, la)] for lo, la in zip(loc[0], loc[1])]
    return None


def config_defined(conf):
    return (set(conf.keys()) | set(conf.get("attrs", {}).keys())) - set(SPECIAL)


def check_feature_join(ctx, g, conf, flat, particles, where, cs):
    """`particles`: [(particle / row number, lon, lat, {property name: value in that row})] of the GeoJSON group g.
    The property says the values of one particle stay together: the feature properties in a row are those of the
    feature the row's position was sampled in, 0 where that feature has no such property.  The polygons of one location are
    pairwise disjoint by construction (separate grid cells), so the owner is unique; a position in no polygon is C03's
    subject and not judged here.  Tolerance: `geom.inside_tol` decides exactly (rationals) and accepts in addition points
    within 1e-11 * (coordinate magnitude + 1) < 1e-9 degrees of the boundary - the sampled point is an affine combination
    of the triangle corners evaluated in binary64 (error a few ulp of 75, i.e. ~1e-14) - while the polygons of different
    features are >= 0.4 degrees apart, so the tolerance can never change the owner.
    Names the group's configuration defines itself are the particle's attribute (C04), not the feature's: skipped."""
    skip = config_defined(conf)
    names = sorted(set(k for _, _, pr in flat for k in pr) - skip)
    for i, x, y, vals in particles:
        owners = sorted(set(fi for fi, p, _ in flat if geom.inside_tol(p, x, y)))
        if len(owners) != 1:
            ctx.branch("geojson.position_in_%d_features" % len(owners))
            continue
        fi = owners[0]
        props = next(pr for f2, _, pr in flat if f2 == fi)
        bad = [(nm, vals[nm], props.get(nm)) for nm in names if nm in vals and ckey(vals[nm]) != ckey(props.get(nm))]
        ctx.oracle(not bad, "C01.row_integrity.geojson_feature", SITE,
                   "%s: particle/row %d of GeoJSON group %d lies at (lon %r, lat %r) in feature %d, whose properties are %r, but "
                   "carries %s" % (where, i, g, x, y, fi, props, ", ".join("%s=%r (feature has %r)" % b for b in bad)),
                   dict(cs, group=g, particle=i))
        ctx.branch("geojson.feature_join_checked")


def materialise(conf, how=None, path=None):
    """a GeoJSON location (JSON text in the generated configuration) as a fresh stream, or as the name of a UTF-8 file"""
    if how == "file" and isinstance(conf["location"], str):
        with open(path, "w", encoding="utf-8") as fh:
            fh.write(conf["location"])
        c = dict(conf); c["location"] = path
        return c
    return relgen.materialise(conf)


def wrap(groups, container, glob, deliver=None, stem=None):
    gs = [materialise(c, (deliver or {}).get(g), "%s_g%d.geojson" % (stem, g)) for g, c in enumerate(groups)]
    if container == "flat":
        c = dict(gs[0]); c.update(glob); return c
    if container == "list" and not glob:
        return gs                                # build_config leaves glob empty for the list container
    d = dict(glob); d["groups"] = gs
    return d


def pieces(mk, groups, glob, seed):
    """re-run the per-group generators in the order make_release uses them, under the same draw stream"""
    out = []
    with RngRecorder(seed) as rec:
        if "seed" in glob:
            np.random.seed(glob["seed"])
        for c0 in groups:
            conf = relgen.materialise(c0)
            explicit = conf.get("attrs", dict())
            implicit = {k: v for k, v in conf.items() if k not in SPECIAL}
            attrs_all = {**dict(depth=0.0), **implicit, **explicit}
            num = conf["num"]
            dates = mk.date_range(conf["date"], num)
            loc = mk.get_location(conf["location"], num)
            attrs = mk.get_attrs(attrs_all, num)
            out.append(dict(num=num, date=dates, loc=list(loc.items()),
                            dd=[("depth", [0.0] * num)],
                            imp=[(k, attrs[k]) for k in implicit], exp=[(k, attrs[k]) for k in explicit]))
    return out


def table_toks(ps, cols):
    t = [I(len(ps))]
    for p in ps:
        t.append(I(p["num"]))
        t.append(I(len(p["date"])) + "".join(" " + cell_tok(d) for d in p["date"]))
        for key in ("loc", "dd", "imp", "exp"):
            t.append(frame_toks(p[key]))
    if cols is None:
        t.append("0")
    else:
        t.append("1 %d %s" % (len(cols), " ".join(name_tok(c) for c in cols)))
    return " ".join(t)


def parse_table(t):
    it = iter(t)
    nc = int(next(it)); hdr = [next(it) for _ in range(nc)]
    nr = int(next(it))
    rows = [[next(it) for _ in range(nc)] for _ in range(nr)]
    return hdr, rows


def canon_cell(v):
    return cell_tok(v)


class Spy:
    """records, during one real `make_release` call, what the per-group generators returned for each group
    (copies taken at return time: `make_single_release` pops keys from the location mapping).  The functions are
    looked up in the module at call time, so wrapping them in the module namespace observes the real data flow."""
    NAMES = ("make_single_release", "date_range", "get_location", "get_attrs")

    def __init__(self, mk):
        self.mk = mk; self.recs = []; self.cur = None; self.saved = {}

    def __enter__(self):
        mk = self.mk; spy = self
        self.saved = {n: getattr(mk, n) for n in self.NAMES}

        def msr(conf, *a, **k):
            rec = dict(conf=conf, date=None, loc=None, attrs=None); spy.recs.append(rec)
            prev, spy.cur = spy.cur, rec
            try:
                return spy.saved["make_single_release"](conf, *a, **k)
            finally:
                spy.cur = prev

        def dr(*a, **k):
            out = spy.saved["date_range"](*a, **k)
            if spy.cur is not None and spy.cur["date"] is None:
                spy.cur["date"] = list(out)
            return out

        def gl(*a, **k):
            out = spy.saved["get_location"](*a, **k)
            if spy.cur is not None and spy.cur["loc"] is None:
                spy.cur["loc"] = {kk: list(v) for kk, v in out.items()}
            return out

        def ga(*a, **k):
            out = spy.saved["get_attrs"](*a, **k)
            if spy.cur is not None and spy.cur["attrs"] is None:
                spy.cur["attrs"] = {kk: list(v) for kk, v in out.items()}
            return out

        mk.make_single_release = msr; mk.date_range = dr; mk.get_location = gl; mk.get_attrs = ga
        return self

    def __exit__(self, *a):
        for n, f in self.saved.items():
            setattr(self.mk, n, f)
        return False

    def by_group(self, groups):
        """group index -> the values generated for it: column name -> list (None if the record is incomplete).
        A group is recognised by its marker attribute, not by the order of the calls."""
        out = {}
        for rec in self.recs:
            conf = rec["conf"]
            try:
                m = conf.get("attrs", {}).get("grp", conf.get("grp")) if isinstance(conf.get("attrs", {}), dict) else conf.get("grp")
                g = int(m) - 1
            except Exception:
                continue
            if not (0 <= g < len(groups)) or g in out:
                out[g] = None; continue
            if rec["date"] is None or rec["loc"] is None or rec["attrs"] is None:
                out[g] = None; continue
            # the values of a particle: its date, what comes with its location, its attributes.  An attribute the
            # configuration defines (constant repeated, list verbatim, ... - C04) is that attribute of the particle,
            # also when the GeoJSON feature has a property of the same name.
            e = dict(date=rec["date"]); e.update(rec["loc"]); e.update(rec["attrs"])
            out[g] = e
        return out


def ckey(v):
    """a table cell, canonical for comparison: text as text; a missing value (None / NaN) is the fill value 0 of
    `fillna(0)`; numbers by value (7 == 7.0 == True is what a mixed pandas column gives back)"""
    if isinstance(v, str):
        return ("s", v)
    if v is None:
        return ("n", 0.0)
    try:
        f = float(v)
    except Exception:
        return ("r", repr(v))
    if f != f:
        return ("n", 0.0)
    return ("n", f + 0.0)


def check_rows(ctx, res, hdr, nrows, groups, gen, cs):
    """the rows of the table are exactly the rows of the particles: for every group and every particle one row
    holding that particle's date, position and attributes (0 where its group defines no such attribute) -
    compared as multisets, so neither the row order nor the markers matter"""
    want = []
    for g, conf in enumerate(groups):
        e = gen.get(g)
        n = int(conf["num"])
        if n == 0:
            continue
        if e is None or any(len(e[c]) != n for c in e):
            return None                                   # generators not observed for this group: nothing to compare with
        for i in range(n):
            want.append((g, i, tuple(ckey(e[c][i]) if c in e else ("n", 0.0) for c in hdr)))
    have = [tuple(ckey(res[c][r]) for c in hdr) for r in range(nrows)]
    cw = Counter(w for _, _, w in want); ch = Counter(have)
    if cw == ch:
        ctx.oracle(True, "C01.row_integrity", SITE, "", cs)
        return True
    lost = [(g, i, w) for g, i, w in want if ch[w] < cw[w]]
    extra = [h for h in have if cw[h] < ch[h]]
    # name the clause: a lost row that differs from an unexpected row only under columns its group does not define
    # is a fill-value defect, anything else a row that does not hold one particle's values
    pred = "C01.row_integrity"; detail = None
    for g, i, w in lost[:50]:
        e = gen[g]
        for h in extra:
            diff = [j for j in range(len(hdr)) if w[j] != h[j]]
            if diff and all(hdr[j] not in e for j in diff):
                pred = "C01.missing_attr_not_zero"
                detail = "group %d does not define %s but the row of its particle %d has %r there" % (
                    g, [hdr[j] for j in diff], i, [h[j][1] for j in diff])
                break
        if detail:
            break
    if detail is None:
        if lost:
            g, i, w = lost[0]
            near = min(extra, key=lambda h: sum(1 for j in range(len(hdr)) if w[j] != h[j])) if extra else None
            diff = [hdr[j] for j in range(len(hdr)) if near is not None and w[j] != near[j]]
            detail = ("no row holds the values of particle %d of group %d (%d rows lost, %d unexpected); columns %r: expected %r; the "
                      "closest row differs in %r: %r" % (i, g, len(lost), len(extra), hdr, [x[1] for x in w], diff,
                                                         [near[hdr.index(c)][1] for c in diff] if near is not None else None))
        else:
            detail = "%d rows that belong to no particle, e.g. %r under columns %r" % (len(extra), [x[1] for x in extra[0]], hdr)
    ctx.oracle(False, pred, SITE, detail, cs)
    return False


def check_file(ctx, fname, res, hdr, nrows, total, cs):
    """the file written when `fname` is given: tab-separated, no header, one line per requested particle, one field
    per column, the same values as the returned table"""
    if not os.path.exists(fname):
        ctx.oracle(False, "C01.file.shape", SITE, "fname given but no file written", cs); return
    with open(fname, encoding="utf8") as f:
        lines = [l.rstrip("\n").split("\t") for l in f.read().split("\n") if l != ""]
    ok = len(lines) == total and all(len(l) == len(hdr) for l in lines)
    ctx.oracle(ok, "C01.file.shape", SITE, "file has %d lines (field counts %r) for sum(num)=%d and %d columns" % (
        len(lines), sorted(set(len(l) for l in lines)), total, len(hdr)), cs)
    if not ok or nrows != total:
        return
    for r, l in enumerate(lines):
        for j, k in enumerate(hdr):
            v = res[k][r]
            if isinstance(v, str):
                good = l[j] == v                      # the generated texts contain no tab, quote or line break
            elif isinstance(v, (bool, np.bool_)):
                good = l[j] == str(bool(v))           # pandas writes booleans as True / False
            else:
                try:
                    good = float(l[j]) == float(v)    # pandas writes the shortest round-trip repr: exact
                except ValueError:
                    good = False
            if not good:
                ctx.oracle(False, "C01.file.row_integrity", SITE, "line %d column %s: file %r, table %r" % (r, k, l[j], v), dict(cs, row=r, column=k))
                return
    ctx.oracle(True, "C01.file.row_integrity", SITE, "", cs)


def run(ctx):
    tmp = tempfile.mkdtemp(prefix="verif_c01_")
    try:
        _run(ctx, tmp)
    finally:
        shutil.rmtree(tmp, ignore_errors=True)


def _run(ctx, tmp):
    mk = importlib.import_module("ladim_plugins.release.makrel")
    drv = Driver()
    if getattr(ctx, "widened", False):
        drv.available = False
    pend = []
    for c in range(ctx.n(150, 3000)):
        groups, forms, container, glob, deliver, layout = build_config(ctx.rng)
        seed = ctx.sub_seed()
        fname = os.path.join(tmp, "out%d.rls" % c) if ctx.rng.random() < 0.2 else None
        total = int(sum(g["num"] for g in groups))
        cs = dict(container=container, glob=glob, forms=forms, fname=bool(fname), deliver=deliver,
                  groups=[{k: (v if not callable(v) else "<callable>") for k, v in g.items()} for g in groups])
        ctx.case(key=repr(cs), nontrivial=total > 0, sample=dict(container=container, forms=forms, nums=[g["num"] for g in groups], glob=glob) if c < 3 else None)
        for f in forms: ctx.branch("form." + f)
        ctx.branch("container." + container); ctx.branch("columns" if "columns" in glob else "default_columns"); ctx.size("groups", len(groups))
        if "columns" in glob:
            if "date" not in glob["columns"]: ctx.branch("columns.without_date")
            if not ("grp" in glob["columns"] and "tag" in glob["columns"]): ctx.branch("columns.without_markers")
            if any(k in relgen.geojson_props(g) for g in groups for k in glob["columns"]): ctx.branch("columns.geojson_property")
        if glob.get("seed", None) == 0: ctx.branch("seed.zero")
        if fname: ctx.branch("fname")
        gj = {}                                   # GeoJSON group -> its polygons / features, read from the text
        for g, conf in enumerate(groups):
            if forms[g] != "geojson":
                continue
            flat = gj[g] = feature_polys(conf["location"])
            ctx.branch("geojson.deliver." + deliver[g])
            ctx.branch("geojson.layout" if layout.get(g) else "geojson.relgen")
            ctx.size("geojson.features", len(set(fi for fi, _, _ in flat)))
            ctx.size("geojson.polygons", len(flat))
            if not isinstance(json.loads(conf["location"]), dict): ctx.branch("geojson.list_of_layers")
            if len(set(repr(sorted(pr.items())) for _, _, pr in flat)) > 1: ctx.branch("geojson.features_told_apart_by_properties")
            ar = [abs(geom.shoelace(p)) for _, p, _ in flat]
            if len(ar) > 1 and max(ar) > 4 * min(ar): ctx.branch("geojson.polygon_areas_differ_4x")
            if len(ar) > 1 and max(ar) > 100 * min(ar): ctx.branch("geojson.polygon_areas_differ_100x")
            if len(ar) > 1 and any(ar[k] > ar[k + 1] for k in range(len(ar) - 1)): ctx.branch("geojson.polygon_areas_not_ascending")
            if len(ar) > 1 and max(ar) == min(ar): ctx.branch("geojson.polygon_areas_equal")
            if any(not pr for _, _, pr in flat): ctx.branch("geojson.feature_without_properties")
            if int(conf["num"]) >= 12 and len(flat) > 1: ctx.branch("geojson.many_particles_several_polygons")
        for g in groups:
            ctx.branch("markers.explicit" if "grp" in g.get("attrs", {}) else "markers.implicit")
            if "attrs" not in g: ctx.branch("group.no_attrs_mapping")
            if not isinstance(g["num"], int): ctx.branch("num.numpy_integer")
            if not all(isinstance(d, str) and len(d) == 19 for d in (g["date"] if isinstance(g["date"], list) else [g["date"]])):
                ctx.branch("date.other_type_or_resolution")
            if not isinstance(g["location"], (str, dict)) and not (isinstance(g["location"], list) and all(isinstance(x, (float, list)) for x in g["location"])):
                ctx.branch("location.other_container_or_int")
            cfg = set(g.keys()) | set(g.get("attrs", {}).keys())
            if cfg & relgen.geojson_props(g): ctx.branch("collision.attr_and_own_geojson_property")
            if any(isinstance(v, (tuple, np.ndarray, np.floating)) for v in list(g.values()) + list(g.get("attrs", {}).values())):
                ctx.branch("attr.tuple_or_numpy")
        if len(set(repr(g["date"]) for g in groups)) < len(groups): ctx.branch("date.shared_by_groups")
        try:
            with Spy(mk) as spy:
                with RngRecorder(seed) as rec:
                    wconf = wrap(groups, container, glob, deliver, os.path.join(tmp, "loc%d" % c))
                    res = mk.make_release(wconf, fname) if fname else mk.make_release(wconf)
        except Exception as e:
            ctx.oracle(False, "C01.make_release.raises", SITE, "valid configuration raised %r" % (e,), cs)
            continue
        hdr = list(res.keys())
        nrows = len(res["date"]) if "date" in res else (len(next(iter(res.values()))) if res else 0)
        ctx.oracle(nrows == total, "C01.row_count", SITE, "%d rows for sum(num)=%d" % (nrows, total), cs)
        ctx.oracle(all(len(v) == nrows for v in res.values()), "C01.columns_unequal", SITE, "columns of different length", cs)
        if "columns" in glob:
            ctx.oracle(hdr == glob["columns"], "C01.columns_requested", SITE, "header %r, requested %r" % (hdr, glob["columns"]), cs)
        else:
            ctx.oracle(hdr[:4] == ["date", "longitude", "latitude", "depth"], "C01.columns_default", SITE, "header %r" % (hdr,), cs)
        names = attr_names(groups)
        if "columns" not in glob:
            # "date, longitude, latitude, depth followed by the attributes": nothing missing, nothing else
            wantset = {"date", "longitude", "latitude", "depth"} | names
            ctx.oracle(set(hdr) == wantset and len(hdr) == len(wantset), "C01.columns_default_set", SITE,
                       "header %r: missing %r, unexpected %r" % (hdr, sorted(wantset - set(hdr)), sorted(set(hdr) - wantset)), cs)
        if nrows == total and all(len(v) == nrows for v in res.values()):
            gen = spy.by_group(groups)
            seen = check_rows(ctx, res, hdr, nrows, groups, gen, cs)
            # position <-> feature properties inside one particle's values.  (a) on what the location reader handed over
            # in this very call (check_rows above ties these values to the rows, whatever the columns), ...
            for g, flat in gj.items():
                e = gen.get(g); n = int(groups[g]["num"])
                if e is None or n == 0 or any(len(e[k]) != n for k in e):
                    continue
                check_feature_join(ctx, g, groups[g], flat,
                                   [(i, e["longitude"][i], e["latitude"][i], {k: e[k][i] for k in e}) for i in range(n)],
                                   "values generated for the group", cs)
            # ... (b) on the rows of the table itself, when they show position and group
            if "grp" in res and "longitude" in res and "latitude" in res:
                for g, flat in gj.items():
                    rows = [r for r in range(nrows) if res["grp"][r] == g + 1]
                    check_feature_join(ctx, g, groups[g], flat,
                                       [(r, res["longitude"][r], res["latitude"][r], {k: res[k][r] for k in hdr}) for r in rows],
                                       "table", cs)
            if seen is None:
                ctx.branch("spy.incomplete")
                if not getattr(ctx, "_c01_spy_note", False):
                    ctx._c01_spy_note = True
                    ctx.note("C01: make_release no longer goes through make_single_release / date_range / get_location / get_attrs for every group; "
                             "the multiset row oracle had nothing to compare with")
        if fname:
            check_file(ctx, fname, res, hdr, nrows, total, cs)
        if "grp" in res and "tag" in res and nrows == total:
            grp = np.array(res["grp"]); tag = np.array(res["tag"])
            for g, conf in enumerate(groups):
                cnt = int(np.sum(grp == g + 1))
                ctx.oracle(cnt == conf["num"], "C01.group_count", SITE, "group %d contributed %d rows, num=%d" % (g, cnt, conf["num"]), dict(cs, group=g))
                # row integrity: the tag identifies (group, particle)
                mconf = relgen.materialise(conf)
                exp_dates = None
                try:
                    exp_dates = mk.date_range(conf["date"], conf["num"])
                except Exception:
                    pass
                alln = set(k for k in list(conf.keys()) + list(conf.get("attrs", {}).keys())) - set(SPECIAL)
                gjp = relgen.geojson_props(conf)
                polys_g = own_polys(forms[g], conf)
                for i in range(conf["num"]):
                    rows = np.flatnonzero(tag == g * 1000000 + i)
                    ok = len(rows) == 1 and grp[rows[0]] == g + 1
                    ctx.oracle(ok, "C01.row_integrity", SITE, "tag of particle %d of group %d appears %d times / in another group's row" % (i, g, len(rows)), dict(cs, group=g, particle=i))
                    if not ok:
                        continue
                    r = rows[0]
                    if exp_dates is not None and "date" in res:
                        ctx.oracle(res["date"][r] == exp_dates[i], "C01.row_integrity", SITE,
                                   "particle %d of group %d has date %r, its release time is %r" % (i, g, res["date"][r], exp_dates[i]), dict(cs, group=g, particle=i))
                    if forms[g] == "point" and ("longitude" in res or "latitude" in res):
                        # (a `columns` selection may hold only one of the two coordinates)
                        ctx.oracle(("longitude" not in res or res["longitude"][r] == conf["location"][0]) and
                                   ("latitude" not in res or res["latitude"][r] == conf["location"][1]),
                                   "C01.row_integrity", SITE, "particle of a point group has another position", dict(cs, group=g, particle=i))
                    if polys_g is not None and "longitude" in res and "latitude" in res:
                        # the position in the row of a particle of group g is a position of group g: inside (or, within
                        # 1e-11 * coordinate magnitude, on) one of the polygons of its location - same exact test and
                        # tolerance as in check_feature_join
                        x, y = res["longitude"][r], res["latitude"][r]
                        ctx.oracle(any(geom.inside_tol(q, x, y) for q in polys_g), "C01.row_integrity.position_of_other_location", SITE,
                                   "particle %d of %s group %d has position (lon %r, lat %r), outside every polygon of its group's location" % (
                                       i, forms[g], g, x, y), dict(cs, group=g, particle=i))
                    for nm in ("depth", "w", "age", "stage", "id2", "len", "q", "label", "flag", "name", "region", "farmid"):
                        if nm not in res:
                            continue
                        spec = conf.get("attrs", {}).get(nm, conf.get(nm, None))
                        if spec is None and nm in gjp:
                            continue        # comes with this group's location (checked by C03 and by check_rows)
                        if spec is None:
                            want = 0.0 if nm != "depth" else 0.0
                            ctx.oracle(res[nm][r] == want, "C01.missing_attr_not_zero", SITE,
                                       "group %d does not define %s but its particle has %r" % (g, nm, res[nm][r]), dict(cs, group=g, particle=i))
                        elif isinstance(spec, (list, tuple, np.ndarray)) and len(spec) == conf["num"] and not (len(spec) == 2 and conf["num"] != 2):
                            ctx.oracle(res[nm][r] == spec[i], "C01.row_integrity", SITE,
                                       "attribute %s of particle %d of group %d is %r, given %r" % (nm, i, g, res[nm][r], spec[i]), dict(cs, group=g, particle=i))
                        elif not isinstance(spec, (list, tuple, np.ndarray, dict, str)) and not callable(spec):
                            ctx.oracle(res[nm][r] == spec, "C01.row_integrity", SITE, "constant attribute %s changed" % nm, dict(cs, group=g, particle=i))
        if drv.available:
            try:
                ps = pieces(mk, groups, glob, seed)
            except Exception as e:
                ctx.disagreement("make_release.pieces", "replaying the group generators raised %r" % (e,), cs); continue
            j = drv.ask("table.make", table_toks(ps, glob.get("columns")))
            pend.append((j, res, cs))
    if drv.available:
        rep = drv.run()
        for j, res, cs in pend:
            st, t = rep[j]
            if st != "ok" or t[0] == "none":
                ctx.disagreement("table.make", "model produced no table (%r)" % (t[:3],), cs); continue
            hdr, rows = parse_table(t)
            ihdr = [relgen.name_tok(k) for k in res.keys()]
            ctx.eq("table.header", ihdr, hdr, cs)
            if ihdr != hdr:
                continue
            n = len(next(iter(res.values()))) if res else 0
            irows = [[canon_cell(res[k][r]) for k in res.keys()] for r in range(n)]
            ctx.eq("table.nrows", len(irows), len(rows), cs)
            if "date" in res and len(irows) == len(rows):
                di = list(res.keys()).index("date")
                ctx.eq("table.date_sequence", [r[di] for r in irows], [r[di] for r in rows], cs)
                # equal-date runs as multisets
                from collections import Counter
                ctx.eq("table.rows_multiset", Counter(tuple(r) for r in irows), Counter(tuple(r) for r in rows), cs)
            elif len(irows) == len(rows):
                from collections import Counter
                ctx.eq("table.rows_multiset", Counter(tuple(r) for r in irows), Counter(tuple(r) for r in rows), cs)


def replay(payload):
    print("predicate:", payload.get("predicate"), "|", payload.get("detail"))
    return False
