"""C01 — the release table is complete: one intact row per requested particle.

Correspondence: real `make_release` (seeded recorder) against the Lean table model (`Table.makeTable`:
dict-merge column order, concat + zero fill, sort by date string, column selection) fed with the group
pieces produced by the real `date_range` / `get_location` / `get_attrs` under the same draw stream.
Oracle: row counts per group (hidden marker attribute), row integrity (per-particle tag), zero fill,
column order (requested / default); the complete default header; the rows of the table as a multiset against the
values the real per-group generators returned *in that very call* (a spy on `make_single_release` / `date_range` /
`get_location` / `get_attrs`), which judges positions, sampled attributes and GeoJSON properties as well and does
not need the markers; the written file (when `fname` is given) against the returned table; for polygon, multi-polygon and
GeoJSON groups the position of a row against the group's own location (exact rational point-in-polygon of `geom`, no /repo
code), and for GeoJSON groups the feature properties of a row against the properties of the one feature whose polygon
contains the row's position (the spy cannot see this: position and properties come out of the same `get_location` call).
A second family of cases (`build_reuse_config` / `_run_reuse`) uses configuration *objects more than once*: 1..3 consecutive
calls on the same python configuration object, one group mapping listed several times in the group list, `attrs` / location /
date objects shared by different groups, and the same written as yaml text (anchors / aliases) handed over as stream or file
name.  Every call is judged by the same oracles (`judge`) against a deep copy of the content taken before the first call.
A third family (`build_session` / `_run_sessions`) uses *a name or object again with other content*: the same yaml file name
(or one of two names) rewritten between calls, one stream object rewritten and rewound, one python object whose content is replaced
in place; the GeoJSON location files and the output file keep their names through such a session too.  Every call is judged by
`judge` against the configuration written for that call."""
import copy, importlib, io, json, os, shutil, tempfile
from collections import Counter
import numpy as np
from .common import Driver, I, unF, RngRecorder, same_bits
from . import relgen, geom
from .relgen import name_tok, cell_tok, frame_toks

RULE = ("1..6 groups; num in {0,1,2,3,5,12,40} (int or numpy integer); location forms point / polygon / multi-polygon / metric offset / "
        "GeoJSON (1..3 features, 1..2 polygons each, MultiPolygon or Polygon geometry, heterogeneous properties, sometimes a property "
        "`w` named like a group attribute), coordinates as float/int lists, tuples or numpy arrays; attribute forms const / list / "
        "range / gaussian / exponential / piecewise / callable / dotted name (lists also as tuple / numpy array, constants also "
        "numpy floats), attributes named like GeoJSON properties (region, farmid); implicit and explicit `attrs`, the oracle's "
        "markers explicit or implicit (then groups without any `attrs` mapping); dates as second-resolution strings or (40 %) "
        "date-only / sub-second strings, date / datetime objects, datetime64[s|ms|D], pairs as list or tuple, a quarter of the later "
        "groups repeat an earlier group's date span (cross-group ties); with and without `columns` (either all of date, position, "
        "depth, markers plus extras, or an arbitrary non-empty subset of the available columns incl. GeoJSON properties, possibly "
        "without date / markers); flat, list (a real list: no global keys) and grouped containers; with and without seed (seed 0 "
        "in 5 % of the seeded cases); a fifth of the cases write the file (`fname`). 60 % of the GeoJSON groups and 12 % of the other "
        "groups get a *feature-layout* GeoJSON location instead: 1..6 features of 1..3 disjoint polygons each on a 3-degree grid, "
        "polygon kinds rectangle (aspect 1 .. 0.01) / triangle / random simple polygon, polygon sizes 0.014 .. 1.3 degrees mixed "
        "within one location (or all unit squares: equal triangle areas), geometry Polygon / MultiPolygon in any letter case, every "
        "feature with a distinct `farm_id` (int, x.5 float, rarely a text) in shuffled order and/or region / farmid / name / w "
        "properties, features without `properties` / with `properties: null` / with `{}`, the layer alone or first in a list of "
        "layers; a GeoJSON location is handed over as a stream or (40 %) as the name of a UTF-8 file. Non-trivial: total num >= 1. "
        "Second family (60 / 1000 plans, objects used more than once): 1..4 distinct group mappings generated as above with num in {0,1,2,3,5,12} (or, for a "
        "third of the plans, from plain yaml-representable values), with probability 0.6 one to three extra listings of some of "
        "them in the group list (the same mapping object up to 4 times), 30 % of the later groups share the `attrs` mapping object "
        "of an earlier group (same num; markers implicit), 25 % its location object, 25 % its date object; flat (single listing "
        "only) / list / grouped containers, seed / columns as above; python plans: 1..3 consecutive calls of make_release on the "
        "very same configuration object (each call with or without `fname`; a GeoJSON stream is replaced by a fresh stream in the "
        "same group mapping before each call, a mapping listed twice names a GeoJSON file), at least one thing used twice in "
        "every python plan; yaml plans: the configuration dumped by yaml.safe_dump (key order kept, block or flow style; shared "
        "objects become anchor / alias and are one object again after loading), handed over as a stream or as a file name, 1..2 calls. "
        "Third family (60 / 800 sessions, a name or object used again with OTHER content): 2..5 configurations handed to make_release "
        "one after the other in one process through one channel - one yaml file name rewritten between the calls (half of the "
        "sessions), two yaml file names used in random turn (3..5 calls), one stream object truncated / rewritten / rewound, or one "
        "python dict / list whose content (and, place by place, whose group mappings' content) is replaced in place; each next "
        "configuration is fresh (45 %: 1..4 groups, num in {0,1,2,3,5,12}, any container / seed / columns as above), the "
        "version before the previous one again (15 % from the third call), or the previous one after 1..3 edits out of: other num "
        "of one group (per-particle value lists continued cyclically), a group replaced / appended / deleted / two groups swapped, "
        "seed / columns drawn again, other container; yaml channels use plain yaml-representable values and name GeoJSON files, the "
        "python channel the rich value types and GeoJSON as file or stream; the GeoJSON file of group position g keeps its name "
        "through the session (rewritten with the layer of that call); 40 % of the calls write the output file, which keeps one "
        "name through the session in half of the sessions. Every call is judged on its own.")
ASSUMPTIONS = ["rows with equal date strings are compared as multisets (pandas' quicksort is unstable)",
               "a configuration in which one mapping object occurs several times (python [g, g], yaml alias) means its content "
               "written out: a group mapping listed m times is m groups of that content; handing the same configuration "
               "object to make_release again is again a call on that content",
               "a configuration given as a file name / stream / python object is the content that name / stream / object holds "
               "when make_release is called (third family: the content is replaced between calls)"]
SITE = "ladim_plugins/release/makrel.py::make_release"
SPECIAL = ["num", "date", "location", "attrs"]


def attr_names(groups):
    """every attribute name of the configuration: implicit, explicit, and the GeoJSON feature properties"""
    out = set()
    for c in groups:
        out |= set(c.keys()) - set(SPECIAL)
        out |= set(c.get("attrs", {}).keys())
        out |= relgen.geojson_props(c)
    return out


def build_config(rng):
    ng = rng.randrange(1, 7)
    groups = []; forms = []; deliver = {}; layout = {}
    for g in range(ng):
        form, conf = relgen.gen_group(rng, g, rich=True)
        if g > 0 and rng.random() < 0.25:
            conf["date"] = groups[rng.randrange(g)]["date"]         # same span as an earlier group: cross-group ties
        if rng.random() < (0.6 if form == "geojson" else 0.12):
            # feature layout: which feature a particle lands in (sizes, kinds, identifying properties)
            form = "geojson"; conf["location"] = gen_feature_location(rng); layout[g] = True
        if form == "geojson":
            deliver[g] = "file" if rng.random() < 0.4 else "stream"
        groups.append(conf); forms.append(form)
    container = rng.choice(["flat", "list", "grouped"]) if ng == 1 else rng.choice(["list", "grouped", "grouped"])
    glob = {}
    if container != "list":                      # a list of groups cannot carry global keys
        if rng.random() < 0.5:
            glob["seed"] = rng.randrange(1000) if rng.random() >= 0.05 else 0
        if rng.random() < 0.5:
            allc = ["date", "longitude", "latitude", "depth", "grp", "tag"]
            extra = sorted(attr_names(groups) - set(allc))
            if rng.random() < 0.6:
                cols = allc + rng.sample(extra, rng.randrange(0, len(extra) + 1))
            else:                                # any non-empty selection, possibly without date / position / markers
                pool = allc + extra
                cols = rng.sample(pool, rng.randrange(1, len(pool) + 1))
            rng.shuffle(cols)
            glob["columns"] = cols
    return groups, forms, container, glob, deliver, layout


def _markers_implicit(conf):
    """the oracle's markers of a group as implicit attributes (out of the `attrs` mapping)"""
    ex = conf.get("attrs")
    if isinstance(ex, dict):
        for k in ("grp", "tag"):
            if k in ex:
                conf[k] = ex.pop(k)


def build_reuse_config(rng):
    """Configurations in which *objects are used more than once* - the same configuration object handed to
    `make_release` again (e.g. once for the table in memory, once to write the file), one group mapping listed several
    times in the group list (python `[g, g]`, a yaml alias `- *g`: the loader returns one shared mapping), and parts shared
    between different groups (one `attrs` mapping, one location object, one date object: `attrs: *common`).  The meaning of
    such a configuration is that of its content written out: a mapping listed m times is m groups of that content.
    Returns a plan: the distinct group mappings, the group list as indices into them (`slots`), container, global keys,
    number of consecutive calls, and how the configuration is delivered (python object / yaml text as stream or file)."""
    mode = rng.choice(["python", "python", "yaml"])
    rich = mode == "python"                      # yaml text holds plain lists / numbers / strings only
    ng = rng.randrange(1, 5)
    groups = []; forms = []; layout = {}; shared = []
    for g in range(ng):
        a_attrs = rng.randrange(g) if g > 0 and rng.random() < 0.3 else None
        # value lists of a shared `attrs` mapping have one length: the groups sharing it have the same num
        # (num from the smaller counts: a mapping may be listed up to 4 times and is judged in up to 3 calls)
        force = groups[a_attrs]["num"] if a_attrs is not None else rng.choice([0, 1, 2, 3, 5, 12])
        form, conf = relgen.gen_group(rng, g, yamlable=not rich, force_num=force, rich=rich)
        if not rich and rng.random() < 0.5:
            _markers_implicit(conf)
            if not conf["attrs"] and rng.random() < 0.5:
                del conf["attrs"]
        if g > 0 and rng.random() < 0.25:
            conf["date"] = groups[rng.randrange(g)]["date"]; shared.append(("date", g))
        if g > 0 and rng.random() < 0.25:
            a = rng.randrange(g)
            conf["location"] = groups[a]["location"]; form = forms[a]; shared.append(("location", a, g))
            if layout.get(a): layout[g] = True
        elif rng.random() < (0.6 if form == "geojson" else 0.12):
            form = "geojson"; conf["location"] = gen_feature_location(rng); layout[g] = True
        if a_attrs is not None:
            # the markers tell the groups apart: they stay outside the shared mapping
            _markers_implicit(groups[a_attrs]); _markers_implicit(conf)
            if not groups[a_attrs].get("attrs"):
                groups[a_attrs]["attrs"] = dict(q=rng.choice([1.5, 7, -2]))
            conf["attrs"] = groups[a_attrs]["attrs"]; shared.append(("attrs", a_attrs, g))
        groups.append(conf); forms.append(form)
    slots = list(range(ng))
    if rng.random() < 0.6:
        for _ in range(rng.choice([1, 1, 2, 3])):
            slots.insert(rng.randrange(len(slots) + 1), rng.randrange(ng))
    container = rng.choice(["flat", "list", "grouped"]) if len(slots) == 1 else rng.choice(["list", "grouped", "grouped"])
    glob = {}
    if container != "list":
        if rng.random() < 0.5:
            glob["seed"] = rng.randrange(1000) if rng.random() >= 0.05 else 0
        if rng.random() < 0.5:
            allc = ["date", "longitude", "latitude", "depth", "grp", "tag"]
            extra = sorted(attr_names(groups) - set(allc))
            if rng.random() < 0.6:
                cols = allc + rng.sample(extra, rng.randrange(0, len(extra) + 1))
            else:
                pool = allc + extra
                cols = rng.sample(pool, rng.randrange(1, len(pool) + 1))
            rng.shuffle(cols)
            glob["columns"] = cols
    ncalls = rng.choice([1, 2, 2, 3]) if rich else rng.choice([1, 2])
    if rich and ncalls == 1 and len(slots) == ng and not shared:
        ncalls = 2                               # something is used twice in every python-object plan
    mult = Counter(slots)
    deliver = {}
    for g in range(ng):
        if forms[g] == "geojson":
            # a stream can be read once: a mapping listed twice, and every yaml text, names a file
            deliver[g] = "file" if (not rich or mult[g] > 1 or rng.random() < 0.5) else "stream"
    how = "object" if rich else rng.choice(["yaml.stream", "yaml.file"])
    return dict(mode=mode, groups=groups, forms=forms, layout=layout, shared=shared, slots=slots, container=container,
                glob=glob, ncalls=ncalls, deliver=deliver, how=how,
                yaml_style=dict(default_flow_style=rng.choice([None, False, True]), allow_unicode=rng.random() < 0.5))


GRID_STEP = 3.0          # feature-layout polygons sit in separate 3 x 3 degree cells; every polygon stays within 1.3 of its cell centre


def _layout_polygon(rng, cx, cy, r, kind):
    """one simple polygon [(lon, lat)] inside the disc-ish cell of radius r around (cx, cy)"""
    if kind == "rect":
        hx = r * rng.uniform(0.3, 1.0)
        hy = r * rng.choice([1.0, 1.0, 0.5, 0.1, 0.01]) * rng.uniform(0.3, 1.0)
        if rng.random() < 0.5:
            hx, hy = hy, hx
        p = [(cx - hx, cy - hy), (cx + hx, cy - hy), (cx + hx, cy + hy), (cx - hx, cy + hy)]
        k = rng.randrange(4); p = p[k:] + p[:k]
        return p[::-1] if rng.random() < 0.5 else p
    if kind == "tri":
        while True:
            p = geom.star_polygon(rng, cx, cy, r, 3)
            if geom.is_simple(p):
                return p[::-1] if rng.random() < 0.5 else p
    return geom.random_polygon(rng, cx, cy, r)


def gen_feature_location(rng):
    """A GeoJSON location that explores *which feature a particle lands in*: several features with polygons of (very)
    different size and kind, pairwise disjoint (own grid cell each, gap >= 0.4 degrees), and feature properties that tell
    the features apart.  Returns the JSON text."""
    nf = rng.randrange(1, 7)
    sizes = rng.choice(["mixed", "mixed", "mixed", "equal_unit_squares", "same_scale"])
    cells = rng.sample(range(24), 18)                          # 8 x 3 grid of cells, visited in random order
    ids = rng.sample(range(1, 100), nf)                        # distinct identifiers, not ordered like the features
    pmode = rng.choice(["ident", "ident", "ident+hetero", "hetero", "sparse"])
    idkind = rng.choice(["int", "int", "half", "mixed_text"])
    scale0 = rng.choice([0.02, 0.1, 0.5, 1.3])
    feats = []; k = 0
    for f in range(nf):
        ps = []
        for q in range(rng.choice([1, 1, 2, 3])):
            cell = cells[k]; k += 1
            cx = -15.0 + GRID_STEP * (cell % 8); cy = 57.0 + GRID_STEP * (cell // 8)
            if sizes == "equal_unit_squares":
                p = [(cx, cy), (cx + 1.0, cy), (cx + 1.0, cy + 1.0), (cx, cy + 1.0)]
            else:
                r = (scale0 if sizes == "same_scale" else rng.choice([0.02, 0.1, 0.5, 1.3])) * rng.uniform(0.7, 1.0)
                p = _layout_polygon(rng, cx, cy, r, rng.choice(["rect", "rect", "tri", "random", "random"]))
            ps.append(p)
        ring = lambda p: [[x, y] for x, y in p] + [[p[0][0], p[0][1]]]
        props = {}
        if pmode in ("ident", "ident+hetero"):
            props["farm_id"] = ids[f] if idkind == "int" else ids[f] + 0.5 if idkind == "half" else (
                "id-%d" % ids[f] if f % 2 else ids[f])
        if pmode != "ident":
            for name in ("region", "farmid"):
                if rng.random() < 0.7:
                    props[name] = rng.choice([f + 1, 2.5 * (f + 1)])
            if rng.random() < 0.4:
                props["name"] = rng.choice(["farm %d", "anlegg æ%d"]) % ids[f]
            if rng.random() < 0.3:
                props["w"] = 100.0 + f
            keys = list(props); rng.shuffle(keys); props = {kk: props[kk] for kk in keys}
        t = rng.choice(["MultiPolygon", "MultiPolygon", "multipolygon", "MULTIPOLYGON"])
        geometry = dict(type=t, coordinates=[[ring(p)] for p in ps])
        if len(ps) == 1 and rng.random() < 0.5:
            geometry = dict(type=rng.choice(["Polygon", "polygon", "POLYGON"]), coordinates=[ring(ps[0])])
        feat = dict(type="Feature", properties=props, geometry=geometry)
        if pmode == "sparse" and rng.random() < 0.35:
            how = rng.choice(["omit", "null", "empty"])
            if how == "omit":
                del feat["properties"]
            else:
                feat["properties"] = None if how == "null" else {}
        feats.append(feat)
    layer = dict(type="FeatureCollection", features=feats)
    if rng.random() < 0.15:
        # the reader takes the first layer of a list of layers
        return json.dumps([layer] + ([dict(type="FeatureCollection", features=[])] if rng.random() < 0.5 else []), ensure_ascii=False)
    return json.dumps(layer, ensure_ascii=False)


def feature_polys(locjson):
    """the GeoJSON text read independently of /repo: [(feature index, [(lon, lat)] outer ring without the closing point,
    properties of the feature)] for every polygon of the first layer"""
    data = json.loads(locjson)
    layer = data if isinstance(data, dict) else data[0]
    out = []
    for fi, f in enumerate(layer["features"]):
        g = f["geometry"]
        outer = [pl[0] for pl in g["coordinates"]] if g["type"].upper() == "MULTIPOLYGON" else [g["coordinates"][0]]
        for ring in outer:
            out.append((fi, [(float(x), float(y)) for x, y in ring[:-1]], f.get("properties") or {}))
    return out


def own_polys(form, conf):
    """the polygons [(lon, lat)] of a polygon / multi-polygon / GeoJSON group's location (None for the other forms)"""
    loc = conf["location"]
    if form == "geojson":
        return [p for _, p, _ in feature_polys(loc)]
    if form == "poly":
        return [[(float(x), float(y)) for x, y in zip(loc[0], loc[1])]]
    if form == "multi":
        return [[(float(x), float(y)) for x, y in zip(lo, la)] for lo, la in zip(loc[0], loc[1])]
    return None


def config_defined(conf):
    return (set(conf.keys()) | set(conf.get("attrs", {}).keys())) - set(SPECIAL)


def check_feature_join(ctx, g, conf, flat, particles, where, cs):
    """`particles`: [(particle / row number, lon, lat, {property name: value in that row})] of the GeoJSON group g.
    The property says the values of one particle stay together: the feature properties in a row are those of the
    feature the row's position was sampled in, 0 where that feature has no such property.  The polygons of one location are
    pairwise disjoint by construction (separate grid cells), so the owner is unique; a position in no polygon is C03's
    subject and not judged here.  Tolerance: `geom.inside_tol` decides exactly (rationals) and accepts in addition points
    within 1e-11 * (coordinate magnitude + 1) < 1e-9 degrees of the boundary - the sampled point is an affine combination
    of the triangle corners evaluated in binary64 (error a few ulp of 75, i.e. ~1e-14) - while the polygons of different
    features are >= 0.4 degrees apart, so the tolerance can never change the owner.
    Names the group's configuration defines itself are the particle's attribute (C04), not the feature's: skipped."""
    skip = config_defined(conf)
    names = sorted(set(k for _, _, pr in flat for k in pr) - skip)
    for i, x, y, vals in particles:
        owners = sorted(set(fi for fi, p, _ in flat if geom.inside_tol(p, x, y)))
        if len(owners) != 1:
            ctx.branch("geojson.position_in_%d_features" % len(owners))
            continue
        fi = owners[0]
        props = next(pr for f2, _, pr in flat if f2 == fi)
        bad = [(nm, vals[nm], props.get(nm)) for nm in names if nm in vals and ckey(vals[nm]) != ckey(props.get(nm))]
        ctx.oracle(not bad, "C01.row_integrity.geojson_feature", SITE,
                   "%s: particle/row %d of GeoJSON group %d lies at (lon %r, lat %r) in feature %d, whose properties are %r, but "
                   "carries %s" % (where, i, g, x, y, fi, props, ", ".join("%s=%r (feature has %r)" % b for b in bad)),
                   dict(cs, group=g, particle=i))
        ctx.branch("geojson.feature_join_checked")


def materialise(conf, how=None, path=None):
    """a GeoJSON location (JSON text in the generated configuration) as a fresh stream, or as the name of a UTF-8 file"""
    if how == "file" and isinstance(conf["location"], str):
        with open(path, "w", encoding="utf-8") as fh:
            fh.write(conf["location"])
        c = dict(conf); c["location"] = path
        return c
    return relgen.materialise(conf)


def wrap(groups, container, glob, deliver=None, stem=None):
    gs = [materialise(c, (deliver or {}).get(g), "%s_g%d.geojson" % (stem, g)) for g, c in enumerate(groups)]
    if container == "flat":
        c = dict(gs[0]); c.update(glob); return c
    if container == "list" and not glob:
        return gs                                # build_config leaves glob empty for the list container
    d = dict(glob); d["groups"] = gs
    return d


def pieces(mk, groups, glob, seed):
    """re-run the per-group generators in the order make_release uses them, under the same draw stream"""
    out = []
    with RngRecorder(seed) as rec:
        if "seed" in glob:
            np.random.seed(glob["seed"])
        for c0 in groups:
            conf = relgen.materialise(c0)
            explicit = conf.get("attrs", dict())
            implicit = {k: v for k, v in conf.items() if k not in SPECIAL}
            attrs_all = {**dict(depth=0.0), **implicit, **explicit}
            num = conf["num"]
            dates = mk.date_range(conf["date"], num)
            loc = mk.get_location(conf["location"], num)
            attrs = mk.get_attrs(attrs_all, num)
            out.append(dict(num=num, date=dates, loc=list(loc.items()),
                            dd=[("depth", [0.0] * num)],
                            imp=[(k, attrs[k]) for k in implicit], exp=[(k, attrs[k]) for k in explicit]))
    return out


def table_toks(ps, cols):
    t = [I(len(ps))]
    for p in ps:
        t.append(I(p["num"]))
        t.append(I(len(p["date"])) + "".join(" " + cell_tok(d) for d in p["date"]))
        for key in ("loc", "dd", "imp", "exp"):
            t.append(frame_toks(p[key]))
    if cols is None:
        t.append("0")
    else:
        t.append("1 %d %s" % (len(cols), " ".join(name_tok(c) for c in cols)))
    return " ".join(t)


def parse_table(t):
    it = iter(t)
    nc = int(next(it)); hdr = [next(it) for _ in range(nc)]
    nr = int(next(it))
    rows = [[next(it) for _ in range(nc)] for _ in range(nr)]
    return hdr, rows


def canon_cell(v):
    return cell_tok(v)


class Spy:
    """records, during one real `make_release` call, what the per-group generators returned for each group
    (copies taken at return time: `make_single_release` pops keys from the location mapping).  The functions are
    looked up in the module at call time, so wrapping them in the module namespace observes the real data flow."""
    NAMES = ("make_single_release", "date_range", "get_location", "get_attrs")

    def __init__(self, mk):
        self.mk = mk; self.recs = []; self.cur = None; self.saved = {}

    def __enter__(self):
        mk = self.mk; spy = self
        self.saved = {n: getattr(mk, n) for n in self.NAMES}

        def msr(conf, *a, **k):
            rec = dict(conf=conf, date=None, loc=None, attrs=None, marker=spy.marker_of(conf)); spy.recs.append(rec)
            prev, spy.cur = spy.cur, rec
            try:
                return spy.saved["make_single_release"](conf, *a, **k)
            finally:
                spy.cur = prev

        def dr(*a, **k):
            out = spy.saved["date_range"](*a, **k)
            if spy.cur is not None and spy.cur["date"] is None:
                spy.cur["date"] = list(out)
            return out

        def gl(*a, **k):
            out = spy.saved["get_location"](*a, **k)
            if spy.cur is not None and spy.cur["loc"] is None:
                spy.cur["loc"] = {kk: list(v) for kk, v in out.items()}
            return out

        def ga(*a, **k):
            out = spy.saved["get_attrs"](*a, **k)
            if spy.cur is not None and spy.cur["attrs"] is None:
                spy.cur["attrs"] = {kk: list(v) for kk, v in out.items()}
            return out

        mk.make_single_release = msr; mk.date_range = dr; mk.get_location = gl; mk.get_attrs = ga
        return self

    def __exit__(self, *a):
        for n, f in self.saved.items():
            setattr(self.mk, n, f)
        return False

    @staticmethod
    def marker_of(conf):
        """the group marker `grp` of a group mapping (None if it has none); read when the group is handed over"""
        try:
            return conf.get("attrs", {}).get("grp", conf.get("grp")) if isinstance(conf.get("attrs", {}), dict) else conf.get("grp")
        except Exception:
            return None

    @staticmethod
    def values_of(rec):
        # the values of a particle: its date, what comes with its location, its attributes (see by_group)
        if rec["date"] is None or rec["loc"] is None or rec["attrs"] is None:
            return None
        e = dict(date=rec["date"]); e.update(rec["loc"]); e.update(rec["attrs"])
        return e

    def by_slots(self, groups, slots):
        """as by_group for a configuration whose group list is `slots` (indices into `groups`; a group mapping may be
        listed several times): position in the list -> the values generated for that group.  A record is recognised by
        the marker its mapping had when it was handed over; the records of one mapping listed m times are m groups of
        identical content, so they are assigned to its m positions in call order.  More records than positions for a
        mapping, or an incomplete record: None for the positions concerned (nothing to compare with)."""
        out = {}; free = {}
        for k, g in enumerate(slots):
            free.setdefault(g, []).append(k)
        for rec in self.recs:
            try:
                g = int(rec.get("marker")) - 1
            except Exception:
                continue
            if g not in free:
                continue
            if not free[g]:
                for k, g2 in enumerate(slots):
                    if g2 == g:
                        out[k] = None
                continue
            out[free[g].pop(0)] = self.values_of(rec)
        return out

    def by_group(self, groups):
        """group index -> the values generated for it: column name -> list (None if the record is incomplete).
        A group is recognised by its marker attribute, not by the order of the calls."""
        out = {}
        for rec in self.recs:
            conf = rec["conf"]
            try:
                m = rec.get("marker")
                if m is None:
                    m = conf.get("attrs", {}).get("grp", conf.get("grp")) if isinstance(conf.get("attrs", {}), dict) else conf.get("grp")
                g = int(m) - 1
            except Exception:
                continue
            if not (0 <= g < len(groups)) or g in out:
                out[g] = None; continue
            if rec["date"] is None or rec["loc"] is None or rec["attrs"] is None:
                out[g] = None; continue
            # the values of a particle: its date, what comes with its location, its attributes.  An attribute the
            # configuration defines (constant repeated, list verbatim, ... - C04) is that attribute of the particle,
            # also when the GeoJSON feature has a property of the same name.
            e = dict(date=rec["date"]); e.update(rec["loc"]); e.update(rec["attrs"])
            out[g] = e
        return out


def ckey(v):
    """a table cell, canonical for comparison: text as text; a missing value (None / NaN) is the fill value 0 of
    `fillna(0)`; numbers by value (7 == 7.0 == True is what a mixed pandas column gives back)"""
    if isinstance(v, str):
        return ("s", v)
    if v is None:
        return ("n", 0.0)
    try:
        f = float(v)
    except Exception:
        return ("r", repr(v))
    if f != f:
        return ("n", 0.0)
    return ("n", f + 0.0)


def check_rows(ctx, res, hdr, nrows, groups, gen, cs):
    """the rows of the table are exactly the rows of the particles: for every group and every particle one row
    holding that particle's date, position and attributes (0 where its group defines no such attribute) -
    compared as multisets, so neither the row order nor the markers matter"""
    want = []
    for g, conf in enumerate(groups):
        e = gen.get(g)
        n = int(conf["num"])
        if n == 0:
            continue
        if e is None or any(len(e[c]) != n for c in e):
            return None                                   # generators not observed for this group: nothing to compare with
        for i in range(n):
            want.append((g, i, tuple(ckey(e[c][i]) if c in e else ("n", 0.0) for c in hdr)))
    have = [tuple(ckey(res[c][r]) for c in hdr) for r in range(nrows)]
    cw = Counter(w for _, _, w in want); ch = Counter(have)
    if cw == ch:
        ctx.oracle(True, "C01.row_integrity", SITE, "", cs)
        return True
    lost = [(g, i, w) for g, i, w in want if ch[w] < cw[w]]
    extra = [h for h in have if cw[h] < ch[h]]
    # name the clause: a lost row that differs from an unexpected row only under columns its group does not define
    # is a fill-value defect, anything else a row that does not hold one particle's values
    pred = "C01.row_integrity"; detail = None
    for g, i, w in lost[:50]:
        e = gen[g]
        for h in extra:
            diff = [j for j in range(len(hdr)) if w[j] != h[j]]
            if diff and all(hdr[j] not in e for j in diff):
                pred = "C01.missing_attr_not_zero"
                detail = "group %d does not define %s but the row of its particle %d has %r there" % (
                    g, [hdr[j] for j in diff], i, [h[j][1] for j in diff])
                break
        if detail:
            break
    if detail is None:
        if lost:
            g, i, w = lost[0]
            near = min(extra, key=lambda h: sum(1 for j in range(len(hdr)) if w[j] != h[j])) if extra else None
            diff = [hdr[j] for j in range(len(hdr)) if near is not None and w[j] != near[j]]
            detail = ("no row holds the values of particle %d of group %d (%d rows lost, %d unexpected); columns %r: expected %r; the "
                      "closest row differs in %r: %r" % (i, g, len(lost), len(extra), hdr, [x[1] for x in w], diff,
                                                         [near[hdr.index(c)][1] for c in diff] if near is not None else None))
        else:
            detail = "%d rows that belong to no particle, e.g. %r under columns %r" % (len(extra), [x[1] for x in extra[0]], hdr)
    ctx.oracle(False, pred, SITE, detail, cs)
    return False


def check_file(ctx, fname, res, hdr, nrows, total, cs):
    """the file written when `fname` is given: tab-separated, no header, one line per requested particle, one field
    per column, the same values as the returned table"""
    if not os.path.exists(fname):
        ctx.oracle(False, "C01.file.shape", SITE, "fname given but no file written", cs); return
    with open(fname, encoding="utf8") as f:
        lines = [l.rstrip("\n").split("\t") for l in f.read().split("\n") if l != ""]
    ok = len(lines) == total and all(len(l) == len(hdr) for l in lines)
    ctx.oracle(ok, "C01.file.shape", SITE, "file has %d lines (field counts %r) for sum(num)=%d and %d columns" % (
        len(lines), sorted(set(len(l) for l in lines)), total, len(hdr)), cs)
    if not ok or nrows != total:
        return
    for r, l in enumerate(lines):
        for j, k in enumerate(hdr):
            v = res[k][r]
            if isinstance(v, str):
                good = l[j] == v                      # the generated texts contain no tab, quote or line break
            elif isinstance(v, (bool, np.bool_)):
                good = l[j] == str(bool(v))           # pandas writes booleans as True / False
            else:
                try:
                    good = float(l[j]) == float(v)    # pandas writes the shortest round-trip repr: exact
                except ValueError:
                    good = False
            if not good:
                ctx.oracle(False, "C01.file.row_integrity", SITE, "line %d column %s: file %r, table %r" % (r, k, l[j], v), dict(cs, row=r, column=k))
                return
    ctx.oracle(True, "C01.file.row_integrity", SITE, "", cs)


def judge(ctx, mk, res, spy, groups, forms, glob, fname, total, cs, gj, slots=None):
    """every implementation-side oracle of the property on one returned table `res`.
    `groups`: the distinct group mappings as the user wrote them; `slots`: the configuration's group list as indices
    into `groups` (None: each once, in order) - an index that occurs m times is one group mapping listed m times, i.e.
    m groups of identical content (each contributes its own `num` rows with that content)."""
    slots = list(range(len(groups))) if slots is None else list(slots)
    mult = Counter(slots)
    lgroups = [groups[s] for s in slots]                 # the groups of the configuration, in its order
    hdr = list(res.keys())
    nrows = len(res["date"]) if "date" in res else (len(next(iter(res.values()))) if res else 0)
    ctx.oracle(nrows == total, "C01.row_count", SITE, "%d rows for sum(num)=%d" % (nrows, total), cs)
    ctx.oracle(all(len(v) == nrows for v in res.values()), "C01.columns_unequal", SITE, "columns of different length", cs)
    if "columns" in glob:
        ctx.oracle(hdr == glob["columns"], "C01.columns_requested", SITE, "header %r, requested %r" % (hdr, glob["columns"]), cs)
    else:
        ctx.oracle(hdr[:4] == ["date", "longitude", "latitude", "depth"], "C01.columns_default", SITE, "header %r" % (hdr,), cs)
    names = attr_names(groups)
    if "columns" not in glob:
        # "date, longitude, latitude, depth followed by the attributes": nothing missing, nothing else
        wantset = {"date", "longitude", "latitude", "depth"} | names
        ctx.oracle(set(hdr) == wantset and len(hdr) == len(wantset), "C01.columns_default_set", SITE,
                   "header %r: missing %r, unexpected %r" % (hdr, sorted(wantset - set(hdr)), sorted(set(hdr) - wantset)), cs)
    if nrows == total and all(len(v) == nrows for v in res.values()):
        # gen: position in the configuration's group list -> the values generated for that group in this call
        gen = spy.by_group(groups) if slots == list(range(len(groups))) else spy.by_slots(groups, slots)
        seen = check_rows(ctx, res, hdr, nrows, lgroups, gen, cs)
        # position <-> feature properties inside one particle's values.  (a) on what the location reader handed over
        # in this very call (check_rows above ties these values to the rows, whatever the columns), ...
        for k, g in enumerate(slots):
            if g not in gj:
                continue
            flat = gj[g]
            e = gen.get(k); n = int(groups[g]["num"])
            if e is None or n == 0 or any(len(e[k2]) != n for k2 in e):
                continue
            check_feature_join(ctx, g, groups[g], flat,
                               [(i, e["longitude"][i], e["latitude"][i], {k: e[k][i] for k in e}) for i in range(n)],
                               "values generated for the group", cs)
        # ... (b) on the rows of the table itself, when they show position and group
        if "grp" in res and "longitude" in res and "latitude" in res:
            for g, flat in gj.items():
                rows = [r for r in range(nrows) if res["grp"][r] == g + 1]
                check_feature_join(ctx, g, groups[g], flat,
                                   [(r, res["longitude"][r], res["latitude"][r], {k: res[k][r] for k in hdr}) for r in rows],
                                   "table", cs)
        if seen is None:
            ctx.branch("spy.incomplete")
            if not getattr(ctx, "_c01_spy_note", False):
                ctx._c01_spy_note = True
                ctx.note("C01: make_release no longer goes through make_single_release / date_range / get_location / get_attrs for every group; "
                         "the multiset row oracle had nothing to compare with")
    if fname:
        check_file(ctx, fname, res, hdr, nrows, total, cs)
    if "grp" in res and "tag" in res and nrows == total:
        grp = np.array(res["grp"]); tag = np.array(res["tag"])
        for g, conf in enumerate(groups):
            cnt = int(np.sum(grp == g + 1)); m = mult[g]
            ctx.oracle(cnt == m * conf["num"], "C01.group_count", SITE, "group %d%s contributed %d rows, num=%d" % (
                g, "" if m == 1 else " (listed %d times: %d groups of this content)" % (m, m), cnt, conf["num"]), dict(cs, group=g))
            # row integrity: the tag identifies (group, particle)
            mconf = relgen.materialise(conf)
            exp_dates = None
            try:
                exp_dates = mk.date_range(conf["date"], conf["num"])
            except Exception:
                pass
            alln = set(k for k in list(conf.keys()) + list(conf.get("attrs", {}).keys())) - set(SPECIAL)
            gjp = relgen.geojson_props(conf)
            polys_g = own_polys(forms[g], conf)
            for i in range(conf["num"]):
                rows = np.flatnonzero(tag == g * 1000000 + i)
                ok = len(rows) == m and all(grp[r] == g + 1 for r in rows)
                ctx.oracle(ok, "C01.row_integrity", SITE, "tag of particle %d of group %d appears %d times%s / in another group's row" % (
                    i, g, len(rows), "" if m == 1 else " (the group is listed %d times)" % m), dict(cs, group=g, particle=i))
                if not ok:
                    continue
                for r in rows:                  # one row, or one row per listing of the group
                    if exp_dates is not None and "date" in res:
                        ctx.oracle(res["date"][r] == exp_dates[i], "C01.row_integrity", SITE,
                                   "particle %d of group %d has date %r, its release time is %r" % (i, g, res["date"][r], exp_dates[i]), dict(cs, group=g, particle=i))
                    if forms[g] == "point" and ("longitude" in res or "latitude" in res):
                        # (a `columns` selection may hold only one of the two coordinates)
                        ctx.oracle(("longitude" not in res or res["longitude"][r] == conf["location"][0]) and
                                   ("latitude" not in res or res["latitude"][r] == conf["location"][1]),
                                   "C01.row_integrity", SITE, "particle of a point group has another position", dict(cs, group=g, particle=i))
                    if polys_g is not None and "longitude" in res and "latitude" in res:
                        # the position in the row of a particle of group g is a position of group g: inside (or, within
                        # 1e-11 * coordinate magnitude, on) one of the polygons of its location - same exact test and
                        # tolerance as in check_feature_join
                        x, y = res["longitude"][r], res["latitude"][r]
                        ctx.oracle(any(geom.inside_tol(q, x, y) for q in polys_g), "C01.row_integrity.position_of_other_location", SITE,
                                   "particle %d of %s group %d has position (lon %r, lat %r), outside every polygon of its group's location" % (
                                       i, forms[g], g, x, y), dict(cs, group=g, particle=i))
                    for nm in ("depth", "w", "age", "stage", "id2", "len", "q", "label", "flag", "name", "region", "farmid"):
                        if nm not in res:
                            continue
                        spec = conf.get("attrs", {}).get(nm, conf.get(nm, None))
                        if spec is None and nm in gjp:
                            continue        # comes with this group's location (checked by C03 and by check_rows)
                        if spec is None:
                            want = 0.0 if nm != "depth" else 0.0
                            ctx.oracle(res[nm][r] == want, "C01.missing_attr_not_zero", SITE,
                                       "group %d does not define %s but its particle has %r" % (g, nm, res[nm][r]), dict(cs, group=g, particle=i))
                        elif isinstance(spec, (list, tuple, np.ndarray)) and len(spec) == conf["num"] and not (len(spec) == 2 and conf["num"] != 2):
                            ctx.oracle(res[nm][r] == spec[i], "C01.row_integrity", SITE,
                                       "attribute %s of particle %d of group %d is %r, given %r" % (nm, i, g, res[nm][r], spec[i]), dict(cs, group=g, particle=i))
                        elif not isinstance(spec, (list, tuple, np.ndarray, dict, str)) and not callable(spec):
                            ctx.oracle(res[nm][r] == spec, "C01.row_integrity", SITE, "constant attribute %s changed" % nm, dict(cs, group=g, particle=i))


def _run_reuse(ctx, mk, drv, pend, tmp):
    """objects used more than once (see build_reuse_config).  Every call is judged by `judge` against the content of
    the configuration as it was written (a deep copy taken before anything is handed over); the correspondence with
    the Lean table model is asked for the written-out configuration (one group per listing)."""
    import yaml
    for c in range(ctx.n(60, 1000)):
        plan = build_reuse_config(ctx.rng)
        groups = copy.deepcopy(plan["groups"])            # the reference: what the user wrote
        forms, slots, container, glob, deliver = plan["forms"], plan["slots"], plan["container"], plan["glob"], plan["deliver"]
        glob_ref = copy.deepcopy(glob)
        lgroups = [groups[s] for s in slots]
        mult = Counter(slots)
        total = int(sum(g["num"] for g in lgroups))
        stem = os.path.join(tmp, "reuse%d" % c)
        # the configuration object: built once; a mapping listed twice is the same object twice, shared parts stay shared
        gs = [materialise(conf, deliver.get(g), "%s_g%d.geojson" % (stem, g)) for g, conf in enumerate(plan["groups"])]
        glist = [gs[s] for s in slots]
        if container == "flat":
            wconf = dict(gs[0]); wconf.update(glob); streams_in = {0: wconf}
        else:
            wconf = glist if container == "list" else dict(glob, groups=glist); streams_in = dict(enumerate(gs))
        text = None
        if plan["mode"] == "yaml":
            # shared objects are written as anchor / alias by the dumper; the loader hands them out as one object again
            text = yaml.safe_dump(wconf, sort_keys=False, **plan["yaml_style"])     # key order as written: it is the attribute order
            try:
                back = yaml.safe_load(text)
                bl = back if isinstance(back, list) else back.get("groups", [back])
                same = back == wconf and all((bl[i] is bl[j]) == (slots[i] == slots[j]) for i in range(len(bl)) for j in range(i))
            except Exception:
                same = False
            if not same:
                ctx.branch("reuse.yaml.roundtrip_differs_skipped"); continue
            if len(slots) > len(groups) or plan["shared"]:
                ctx.branch("reuse.yaml.alias" if "*id" in text else "reuse.yaml.shared_scalars_only")
            if plan["how"] == "yaml.file":
                with open(stem + ".yaml", "w", encoding="utf8") as fh:
                    fh.write(text)
        gj = {g: feature_polys(groups[g]["location"]) for g in range(len(groups)) if forms[g] == "geojson"}
        for k in range(plan["ncalls"]):
            seed = ctx.sub_seed()
            fname = os.path.join(tmp, "reuse%d_call%d.rls" % (c, k)) if ctx.rng.random() < 0.3 else None
            cs = dict(container=container, glob=glob_ref, forms=forms, fname=bool(fname), deliver=deliver,
                      reuse=dict(delivered_as=plan["how"], group_list=slots, shared=plan["shared"], call=k + 1, of_calls_on_the_same_object=plan["ncalls"],
                                 yaml=text),
                      groups=[{kk: (v if not callable(v) else "<callable>") for kk, v in g.items()} for g in groups])
            ctx.case(key=repr(cs), nontrivial=total > 0, sample=dict(container=container, forms=forms, nums=[g["num"] for g in groups], glob=glob_ref, reuse=dict(cs["reuse"], yaml=None)) if c < 2 and k == 0 else None)
            for f in forms: ctx.branch("form." + f)
            ctx.branch("container." + container); ctx.branch("columns" if "columns" in glob_ref else "default_columns"); ctx.size("groups", len(slots))
            ctx.branch("reuse.delivered_as." + plan["how"]); ctx.branch("reuse.container." + container)
            ctx.size("reuse.calls_on_same_object", plan["ncalls"]); ctx.size("reuse.max_listings_of_one_group", max(mult.values()))
            if k > 0: ctx.branch("reuse.later_call_on_same_object")
            if k > 0 and fname: ctx.branch("reuse.later_call_writes_file")
            if len(slots) > len(groups): ctx.branch("reuse.group_listed_more_than_once")
            for sh in plan["shared"]: ctx.branch("reuse.shared_" + sh[0])
            if fname: ctx.branch("fname")
            for g, how in deliver.items(): ctx.branch("geojson.deliver." + how)
            # the class the property's row / column clauses had never seen: a group mapping *with an explicit attrs block*
            # that is processed again as the same object (a later call on a list / grouped object, or a second listing)
            again = [g for g in range(len(groups)) if groups[g].get("attrs") and (mult[g] > 1 or (k > 0 and container != "flat" and plan["mode"] == "python"))]
            if again:
                ctx.branch("reuse.explicit_attrs_group_processed_again")
            for g, conf in enumerate(groups):
                ctx.branch("markers.explicit" if "grp" in conf.get("attrs", {}) else "markers.implicit")
                if "attrs" not in conf: ctx.branch("group.no_attrs_mapping")
            # a stream can be read once: before every call a fresh one is put into the same group mapping
            for g, how in deliver.items():
                if how == "stream" and g in streams_in:
                    streams_in[g]["location"] = io.StringIO(groups[g]["location"])
            if plan["mode"] == "yaml":
                arg = stem + ".yaml" if plan["how"] == "yaml.file" else io.StringIO(text)
            else:
                arg = wconf
            try:
                with Spy(mk) as spy:
                    with RngRecorder(seed) as rec:
                        res = mk.make_release(arg, fname) if fname else mk.make_release(arg)
            except Exception as e:
                ctx.oracle(False, "C01.make_release.raises", SITE, "valid configuration raised %r (call %d on the same configuration object, group list %r)" % (
                    e, k + 1, slots), cs)
                break
            judge(ctx, mk, res, spy, groups, forms, glob_ref, fname, total, cs, gj, slots)
            if drv.available:
                try:
                    ps = pieces(mk, lgroups, glob_ref, seed)
                except Exception as e:
                    ctx.disagreement("make_release.pieces", "replaying the group generators raised %r" % (e,), cs); continue
                j = drv.ask("table.make", table_toks(ps, glob_ref.get("columns")))
                pend.append((j, res, cs))


# ----------------------------------------------------------------------------- third family: names / objects used again
def _gen_glob(rng, groups, container):
    """global keys (seed / columns) for a set of groups, drawn like build_config does"""
    glob = {}
    if container == "list":
        return glob                               # a list of groups cannot carry global keys
    if rng.random() < 0.5:
        glob["seed"] = rng.randrange(1000) if rng.random() >= 0.05 else 0
    if rng.random() < 0.5:
        allc = ["date", "longitude", "latitude", "depth", "grp", "tag"]
        extra = sorted(attr_names(groups) - set(allc))
        if rng.random() < 0.6:
            cols = allc + rng.sample(extra, rng.randrange(0, len(extra) + 1))
        else:
            pool = allc + extra
            cols = rng.sample(pool, rng.randrange(1, len(pool) + 1))
        rng.shuffle(cols)
        glob["columns"] = cols
    return glob


def _set_markers(conf, g):
    """the oracle's markers of a group mapping that now stands at position g (kept where they were: explicit / implicit)"""
    where = conf["attrs"] if "grp" in conf.get("attrs", {}) else conf
    where["grp"] = g + 1
    where["tag"] = [float(g * 1000000 + i) for i in range(int(conf["num"]))]


def _session_group(rng, g, rich):
    form, conf = relgen.gen_group(rng, g, yamlable=not rich, force_num=rng.choice([0, 1, 2, 3, 5, 12]), rich=rich)
    if not rich and rng.random() < 0.5:
        _markers_implicit(conf)
        if not conf["attrs"] and rng.random() < 0.5:
            del conf["attrs"]
    lay = False
    if rng.random() < (0.6 if form == "geojson" else 0.12):
        form = "geojson"; conf["location"] = gen_feature_location(rng); lay = True
    return form, conf, lay


def _resize(v, n_old, n_new):
    """a per-particle value list of a group whose num changes from n_old to n_new (continued cyclically)"""
    if isinstance(v, (list, tuple, np.ndarray)) and len(v) == n_old:
        v = list(v)
        return [v[i % n_old] for i in range(n_new)] if n_old else [float(i) for i in range(n_new)]
    return v


def _session_version(rng, prev, rich):
    """one version of a configuration: a fresh one, or the previous one after the kind of edits a user makes between two
    runs (other num of a group, a group added / removed / replaced / moved, other seed / columns, other container)"""
    if prev is None or rng.random() < 0.45:
        ng = rng.randrange(1, 5)
        gens = [_session_group(rng, g, rich) for g in range(ng)]
        groups = [c for _, c, _ in gens]; forms = [f for f, _, _ in gens]; layout = [l for _, _, l in gens]
        container = rng.choice(["flat", "list", "grouped"]) if ng == 1 else rng.choice(["list", "grouped", "grouped"])
        return dict(groups=groups, forms=forms, layout=layout, container=container, glob=_gen_glob(rng, groups, container),
                    change="first version" if prev is None else "fresh configuration")
    groups = copy.deepcopy(prev["groups"]); forms = list(prev["forms"]); layout = list(prev["layout"])
    container = prev["container"]; glob = copy.deepcopy(prev["glob"])
    ops = []
    for _ in range(rng.choice([1, 1, 2, 3])):
        op = rng.choice(["num", "num", "replace", "append", "delete", "swap", "glob", "container"])
        ng = len(groups)
        if op == "num":
            g = rng.randrange(ng); conf = groups[g]; n_old = int(conf["num"])
            n_new = rng.choice([n for n in (0, 1, 2, 3, 5, 12) if n != n_old])
            for d in (conf, conf.get("attrs", {})):
                for k in list(d):
                    if k not in SPECIAL:
                        d[k] = _resize(d[k], n_old, n_new)
            conf["num"] = n_new
        elif op == "replace":
            g = rng.randrange(ng); forms[g], groups[g], layout[g] = _session_group(rng, g, rich)
        elif op == "append" and ng < 5:
            f, c, l = _session_group(rng, ng, rich); forms.append(f); groups.append(c); layout.append(l)
        elif op == "delete" and ng > 1:
            g = rng.randrange(ng); del groups[g], forms[g], layout[g]
        elif op == "swap" and ng > 1:
            a, b = rng.sample(range(ng), 2)
            for lst in (groups, forms, layout):
                lst[a], lst[b] = lst[b], lst[a]
        elif op == "glob":
            glob = _gen_glob(rng, groups, "grouped"); container = "grouped" if (glob and container == "list") else container
        elif op == "container":
            container = rng.choice(["flat", "list", "grouped"])
        else:
            continue
        ops.append(op)
    for g, conf in enumerate(groups):
        _set_markers(conf, g)
    if container == "flat" and len(groups) > 1:
        container = "grouped"
    if container == "list":
        glob = {}
    avail = {"date", "longitude", "latitude", "depth"} | attr_names(groups)
    if "columns" in glob and not set(glob["columns"]) <= avail:
        glob = _gen_glob(rng, groups, container)      # the old selection names a column the edited groups do not have
    return dict(groups=groups, forms=forms, layout=layout, container=container, glob=glob,
                change="previous version edited: " + (", ".join(ops) or "markers only"))


def build_session(rng):
    """A *session*: 2..5 configurations handed to `make_release` one after the other in one process THROUGH THE SAME
    NAME OR OBJECT - the user edits release.yaml and runs again; a script writes one scratch yaml per farm / month and
    converts it.  Every call is a call on a valid configuration (the content the name / object has at that moment) and is
    judged on its own.  Channels: one yaml file name rewritten between the calls; two file names used in turn; one stream
    object rewritten and rewound; one python object whose content (and whose group mappings' content) is replaced in
    place.  The GeoJSON location files of group position g keep their name through the session as well (rewritten when
    that group's location changes), and the output file either keeps one name through the session or not."""
    channel = rng.choice(["yaml.file.same_name"] * 3 + ["yaml.file.two_names", "yaml.stream.same_object", "object.content_replaced"])
    rich = channel == "object.content_replaced"
    nver = rng.choice([3, 4, 5]) if channel == "yaml.file.two_names" else rng.choice([2, 2, 3, 4])
    versions = []
    for v in range(nver):
        if v >= 2 and rng.random() < 0.15:
            ver = copy.deepcopy(versions[v - 2]); ver["change"] = "back to the version before the previous one"
        else:
            ver = _session_version(rng, versions[-1] if versions else None, rich)
        versions.append(ver)
    return dict(channel=channel, rich=rich, versions=versions,
                name_of=[rng.randrange(2) if channel == "yaml.file.two_names" else 0 for _ in range(nver)],
                out_same_name=rng.random() < 0.5, writes=[rng.random() < 0.4 for _ in range(nver)],
                geo_how=[{g: ("file" if (not rich or rng.random() < 0.5) else "stream") for g in range(5)} for _ in range(nver)],
                yaml_style=dict(default_flow_style=rng.choice([None, False, True]), allow_unicode=rng.random() < 0.5))


def _san(groups):
    return [{kk: (v if not callable(v) else "<callable>") for kk, v in g.items()} for g in groups]


def _run_sessions(ctx, mk, drv, pend, tmp):
    """names / objects used again with OTHER content (see build_session).  The property quantifies over every valid
    configuration, however it is delivered: the table of a call is the table of the configuration the file name / stream /
    object holds at the time of that call.  Each call is judged by `judge` (row count, per-group counts, columns, row
    integrity, zero fill, written file) against a deep copy of the version written for it - nothing is taken from /repo."""
    import yaml
    for c in range(ctx.n(60, 800)):
        plan = build_session(ctx.rng)
        channel = plan["channel"]
        stem = os.path.join(tmp, "session%d" % c)
        names = [stem + "_release.yaml", stem + "_release_b.yaml"]
        last_text = {}                      # configuration file name -> text it held at its last use
        last_geo = {}                       # GeoJSON file name -> text it held at its last use
        out_used = set()
        stream = io.StringIO()
        obj = None
        earlier = []; prev = None
        for k, ver in enumerate(plan["versions"]):
            groups = copy.deepcopy(ver["groups"])             # the reference: what the user wrote for this call
            forms, container, glob = ver["forms"], ver["container"], copy.deepcopy(ver["glob"])
            total = int(sum(g["num"] for g in groups))
            deliver = {g: plan["geo_how"][k][g] for g in range(len(groups)) if forms[g] == "geojson"}
            # the configuration of this call; GeoJSON locations of group position g keep one file name through the session
            geo_rewritten = False
            for g, how in deliver.items():
                nm = "%s_g%d.geojson" % (stem, g)
                if how == "file":
                    if nm in last_geo and last_geo[nm] != groups[g]["location"]:
                        geo_rewritten = True
                    last_geo[nm] = groups[g]["location"]
            wconf = wrap(copy.deepcopy(ver["groups"]), container, glob, deliver, stem)
            text = None; cname = None; arg = None
            if channel.startswith("yaml"):
                text = yaml.safe_dump(wconf, sort_keys=False, **plan["yaml_style"])
                try:
                    same = yaml.safe_load(text) == wconf
                except Exception:
                    same = False
                if not same:
                    ctx.branch("session.yaml.roundtrip_differs_skipped"); continue
            if channel.startswith("yaml.file"):
                cname = names[plan["name_of"][k]]
                changed = cname in last_text and last_text[cname] != text
                unchanged = cname in last_text and last_text[cname] == text
                with open(cname, "w", encoding="utf8") as fh:
                    fh.write(text)
                last_text[cname] = text
                arg = cname
            elif channel == "yaml.stream.same_object":
                changed = bool(earlier); unchanged = False
                stream.seek(0); stream.truncate(0); stream.write(text); stream.seek(0)
                arg = stream
            else:
                changed = bool(earlier); unchanged = False
                if obj is None or type(obj) is not type(wconf):
                    obj = wconf
                    if earlier: ctx.branch("session.object.other_container_type_new_object")
                elif isinstance(obj, list):
                    # the group mappings the list held stay the same objects where the new version has a group at that place
                    for old, new in zip(list(obj), wconf):
                        old.clear(); old.update(new)
                    obj[:] = list(obj[:len(wconf)]) + wconf[len(obj):]
                else:
                    og = obj.get("groups"); ng_ = wconf.get("groups")
                    if isinstance(og, list) and isinstance(ng_, list):
                        for old, new in zip(list(og), ng_):
                            old.clear(); old.update(new)
                        ng_ = list(og[:len(ng_)]) + ng_[len(og):]
                        wconf = dict(wconf, groups=ng_)
                        ctx.branch("session.object.group_mappings_edited_in_place")
                    obj.clear(); obj.update(wconf)
                arg = obj
            fname = None
            if plan["writes"][k]:
                fname = stem + "_particles.rls" if plan["out_same_name"] else "%s_particles_%d.rls" % (stem, k)
            seed = ctx.sub_seed()
            here = dict(call=k + 1, config_name=os.path.basename(cname) if cname else None, change=ver["change"],
                        yaml=text, config=None if text is not None else dict(container=container, glob=glob, groups=_san(groups)))
            cs = dict(container=container, glob=glob, forms=forms, fname=bool(fname), deliver=deliver,
                      session=dict(channel=channel, of_calls=len(plan["versions"]), output_name=os.path.basename(fname) if fname else None,
                                   this_call=here, earlier_calls_in_this_process=list(earlier)),
                      groups=_san(groups))
            prev_text = earlier[-1]["yaml"] if earlier else None
            earlier.append(here)
            ctx.case(key=repr(cs), nontrivial=total > 0,
                     sample=dict(container=container, forms=forms, nums=[g["num"] for g in groups], glob=glob,
                                 session=dict(channel=channel, call=k + 1, change=ver["change"])) if c < 1 and k < 2 else None)
            for f in forms: ctx.branch("form." + f)
            ctx.branch("container." + container); ctx.branch("columns" if "columns" in glob else "default_columns"); ctx.size("groups", len(groups))
            ctx.branch("session.channel." + channel); ctx.branch("session.container." + container)
            ctx.size("session.call_number", k + 1)
            if changed:
                ctx.branch("session.name_or_object_used_again_with_other_content")
                ctx.branch("session.used_again." + channel)
                if channel != "yaml.file.two_names" and prev is not None:
                    if sum(int(g["num"]) for g in prev["groups"]) != total: ctx.branch("session.used_again.other_total_num")
                    if len(prev["groups"]) != len(groups): ctx.branch("session.used_again.other_group_count")
                    if prev["glob"].get("columns") != glob.get("columns"): ctx.branch("session.used_again.other_columns")
                    if prev["container"] != container: ctx.branch("session.used_again.other_container")
                    if text is not None and prev_text is not None and len(text) == len(prev_text): ctx.branch("session.used_again.text_of_same_length")
                if ver["change"].startswith("previous"): ctx.branch("session.used_again.edited_version")
                if ver["change"].startswith("back"): ctx.branch("session.used_again.back_to_older_version")
            prev = ver
            if unchanged: ctx.branch("session.name_used_again_unchanged_content")
            if geo_rewritten: ctx.branch("session.geojson_file_name_used_again_with_other_content")
            if fname:
                ctx.branch("fname")
                if fname in out_used: ctx.branch("session.output_name_used_again")
                out_used.add(fname)
            for g, how in deliver.items(): ctx.branch("geojson.deliver." + how)
            for conf in groups:
                ctx.branch("markers.explicit" if "grp" in conf.get("attrs", {}) else "markers.implicit")
                if "attrs" not in conf: ctx.branch("group.no_attrs_mapping")
            gj = {g: feature_polys(groups[g]["location"]) for g in range(len(groups)) if forms[g] == "geojson"}
            try:
                with Spy(mk) as spy:
                    with RngRecorder(seed) as rec:
                        res = mk.make_release(arg, fname) if fname else mk.make_release(arg)
            except Exception as e:
                ctx.oracle(False, "C01.make_release.raises", SITE, "valid configuration raised %r (call %d of the session, %s)" % (
                    e, k + 1, channel), cs)
                break
            judge(ctx, mk, res, spy, groups, forms, glob, fname, total, cs, gj)
            if drv.available:
                try:
                    ps = pieces(mk, groups, glob, seed)
                except Exception as e:
                    ctx.disagreement("make_release.pieces", "replaying the group generators raised %r" % (e,), cs); continue
                j = drv.ask("table.make", table_toks(ps, glob.get("columns")))
                pend.append((j, res, cs))


def run(ctx):
    tmp = tempfile.mkdtemp(prefix="verif_c01_")
    try:
        _run(ctx, tmp)
    finally:
        shutil.rmtree(tmp, ignore_errors=True)


def _run(ctx, tmp):
    mk = importlib.import_module("ladim_plugins.release.makrel")
    drv = Driver()
    if getattr(ctx, "widened", False):
        drv.available = False
    pend = []
    for c in range(ctx.n(150, 3000)):
        groups, forms, container, glob, deliver, layout = build_config(ctx.rng)
        seed = ctx.sub_seed()
        fname = os.path.join(tmp, "out%d.rls" % c) if ctx.rng.random() < 0.2 else None
        total = int(sum(g["num"] for g in groups))
        cs = dict(container=container, glob=glob, forms=forms, fname=bool(fname), deliver=deliver,
                  groups=[{k: (v if not callable(v) else "<callable>") for k, v in g.items()} for g in groups])
        ctx.case(key=repr(cs), nontrivial=total > 0, sample=dict(container=container, forms=forms, nums=[g["num"] for g in groups], glob=glob) if c < 3 else None)
        for f in forms: ctx.branch("form." + f)
        ctx.branch("container." + container); ctx.branch("columns" if "columns" in glob else "default_columns"); ctx.size("groups", len(groups))
        if "columns" in glob:
            if "date" not in glob["columns"]: ctx.branch("columns.without_date")
            if not ("grp" in glob["columns"] and "tag" in glob["columns"]): ctx.branch("columns.without_markers")
            if any(k in relgen.geojson_props(g) for g in groups for k in glob["columns"]): ctx.branch("columns.geojson_property")
        if glob.get("seed", None) == 0: ctx.branch("seed.zero")
        if fname: ctx.branch("fname")
        gj = {}                                   # GeoJSON group -> its polygons / features, read from the text
        for g, conf in enumerate(groups):
            if forms[g] != "geojson":
                continue
            flat = gj[g] = feature_polys(conf["location"])
            ctx.branch("geojson.deliver." + deliver[g])
            ctx.branch("geojson.layout" if layout.get(g) else "geojson.relgen")
            ctx.size("geojson.features", len(set(fi for fi, _, _ in flat)))
            ctx.size("geojson.polygons", len(flat))
            if not isinstance(json.loads(conf["location"]), dict): ctx.branch("geojson.list_of_layers")
            if len(set(repr(sorted(pr.items())) for _, _, pr in flat)) > 1: ctx.branch("geojson.features_told_apart_by_properties")
            ar = [abs(geom.shoelace(p)) for _, p, _ in flat]
            if len(ar) > 1 and max(ar) > 4 * min(ar): ctx.branch("geojson.polygon_areas_differ_4x")
            if len(ar) > 1 and max(ar) > 100 * min(ar): ctx.branch("geojson.polygon_areas_differ_100x")
            if len(ar) > 1 and any(ar[k] > ar[k + 1] for k in range(len(ar) - 1)): ctx.branch("geojson.polygon_areas_not_ascending")
            if len(ar) > 1 and max(ar) == min(ar): ctx.branch("geojson.polygon_areas_equal")
            if any(not pr for _, _, pr in flat): ctx.branch("geojson.feature_without_properties")
            if int(conf["num"]) >= 12 and len(flat) > 1: ctx.branch("geojson.many_particles_several_polygons")
        for g in groups:
            ctx.branch("markers.explicit" if "grp" in g.get("attrs", {}) else "markers.implicit")
            if "attrs" not in g: ctx.branch("group.no_attrs_mapping")
            if not isinstance(g["num"], int): ctx.branch("num.numpy_integer")
            if not all(isinstance(d, str) and len(d) == 19 for d in (g["date"] if isinstance(g["date"], list) else [g["date"]])):
                ctx.branch("date.other_type_or_resolution")
            if not isinstance(g["location"], (str, dict)) and not (isinstance(g["location"], list) and all(isinstance(x, (float, list)) for x in g["location"])):
                ctx.branch("location.other_container_or_int")
            cfg = set(g.keys()) | set(g.get("attrs", {}).keys())
            if cfg & relgen.geojson_props(g): ctx.branch("collision.attr_and_own_geojson_property")
            if any(isinstance(v, (tuple, np.ndarray, np.floating)) for v in list(g.values()) + list(g.get("attrs", {}).values())):
                ctx.branch("attr.tuple_or_numpy")
        if len(set(repr(g["date"]) for g in groups)) < len(groups): ctx.branch("date.shared_by_groups")
        try:
            with Spy(mk) as spy:
                with RngRecorder(seed) as rec:
                    wconf = wrap(groups, container, glob, deliver, os.path.join(tmp, "loc%d" % c))
                    res = mk.make_release(wconf, fname) if fname else mk.make_release(wconf)
        except Exception as e:
            ctx.oracle(False, "C01.make_release.raises", SITE, "valid configuration raised %r" % (e,), cs)
            continue
        judge(ctx, mk, res, spy, groups, forms, glob, fname, total, cs, gj)
        if drv.available:
            try:
                ps = pieces(mk, groups, glob, seed)
            except Exception as e:
                ctx.disagreement("make_release.pieces", "replaying the group generators raised %r" % (e,), cs); continue
            j = drv.ask("table.make", table_toks(ps, glob.get("columns")))
            pend.append((j, res, cs))
    _run_reuse(ctx, mk, drv, pend, tmp)
    _run_sessions(ctx, mk, drv, pend, tmp)
    if drv.available:
        rep = drv.run()
        for j, res, cs in pend:
            st, t = rep[j]
            if st != "ok" or t[0] == "none":
                ctx.disagreement("table.make", "model produced no table (%r)" % (t[:3],), cs); continue
            hdr, rows = parse_table(t)
            ihdr = [relgen.name_tok(k) for k in res.keys()]
            ctx.eq("table.header", ihdr, hdr, cs)
            if ihdr != hdr:
                continue
            n = len(next(iter(res.values()))) if res else 0
            irows = [[canon_cell(res[k][r]) for k in res.keys()] for r in range(n)]
            ctx.eq("table.nrows", len(irows), len(rows), cs)
            if "date" in res and len(irows) == len(rows):
                di = list(res.keys()).index("date")
                ctx.eq("table.date_sequence", [r[di] for r in irows], [r[di] for r in rows], cs)
                # equal-date runs as multisets
                from collections import Counter
                ctx.eq("table.rows_multiset", Counter(tuple(r) for r in irows), Counter(tuple(r) for r in rows), cs)
            elif len(irows) == len(rows):
                from collections import Counter
                ctx.eq("table.rows_multiset", Counter(tuple(r) for r in irows), Counter(tuple(r) for r in rows), cs)


def replay(payload):
    print("predicate:", payload.get("predicate"), "|", payload.get("detail"))
    return False
