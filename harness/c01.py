"""C01 — the release table is complete: one intact row per requested particle.

Correspondence: real `make_release` (seeded recorder) against the Lean table model (`Table.makeTable`:
dict-merge column order, concat + zero fill, sort by date string, column selection) fed with the group
pieces produced by the real `date_range` / `get_location` / `get_attrs` under the same draw stream.
Oracle: row counts per group (hidden marker attribute), row integrity (per-particle tag), zero fill,
column order (requested / default)."""
import importlib, io
import numpy as np
from .common import Driver, I, unF, RngRecorder, same_bits
from . import relgen
from .relgen import name_tok, cell_tok, frame_toks

RULE = ("1..6 groups; num in {0,1,2,3,5,12,40}; location forms point / polygon / multi-polygon / metric offset / GeoJSON (1..3 "
        "features, 1..2 polygons each, heterogeneous properties); attribute forms const / list / range / gaussian / exponential / "
        "piecewise / callable / dotted name; implicit and explicit `attrs`; with and without `columns`; flat, list and grouped "
        "containers; with and without seed. Non-trivial: total num >= 1.")
ASSUMPTIONS = ["rows with equal date strings are compared as multisets (pandas' quicksort is unstable)"]
SITE = "ladim_plugins/release/makrel.py::make_release"
SPECIAL = ["num", "date", "location", "attrs"]


def build_config(rng):
    ng = rng.randrange(1, 7)
    groups = []; forms = []
    for g in range(ng):
        form, conf = relgen.gen_group(rng, g)
        groups.append(conf); forms.append(form)
    container = rng.choice(["flat", "list", "grouped"]) if ng == 1 else rng.choice(["list", "grouped"])
    glob = {}
    if rng.random() < 0.5:
        glob["seed"] = rng.randrange(1000)
    cols = None
    if rng.random() < 0.4:
        allc = ["date", "longitude", "latitude", "depth", "grp", "tag"]
        extra = sorted(set(k for c in groups for k in list(c.keys()) + list(c.get("attrs", {}).keys())) - set(SPECIAL) - set(allc))
        cols = allc + rng.sample(extra, rng.randrange(0, len(extra) + 1))
        rng.shuffle(cols)
        glob["columns"] = cols
    return groups, forms, container, glob


def wrap(groups, container, glob):
    gs = [relgen.materialise(c) for c in groups]
    if container == "flat":
        c = dict(gs[0]); c.update(glob); return c
    if container == "list" and not glob:
        return gs
    d = dict(glob); d["groups"] = gs
    return d


def pieces(mk, groups, glob, seed):
    """re-run the per-group generators in the order make_release uses them, under the same draw stream"""
    out = []
    with RngRecorder(seed) as rec:
        if "seed" in glob:
            np.random.seed(glob["seed"])
        for c0 in groups:
            conf = relgen.materialise(c0)
            explicit = conf.get("attrs", dict())
            implicit = {k: v for k, v in conf.items() if k not in SPECIAL}
            attrs_all = {**dict(depth=0.0), **implicit, **explicit}
            num = conf["num"]
            dates = mk.date_range(conf["date"], num)
            loc = mk.get_location(conf["location"], num)
            attrs = mk.get_attrs(attrs_all, num)
            out.append(dict(num=num, date=dates, loc=list(loc.items()),
                            dd=[("depth", [0.0] * num)],
                            imp=[(k, attrs[k]) for k in implicit], exp=[(k, attrs[k]) for k in explicit]))
    return out


def table_toks(ps, cols):
    t = [I(len(ps))]
    for p in ps:
        t.append(I(p["num"]))
        t.append(I(len(p["date"])) + "".join(" " + cell_tok(d) for d in p["date"]))
        for key in ("loc", "dd", "imp", "exp"):
            t.append(frame_toks(p[key]))
    if cols is None:
        t.append("0")
    else:
        t.append("1 %d %s" % (len(cols), " ".join(name_tok(c) for c in cols)))
    return " ".join(t)


def parse_table(t):
    it = iter(t)
    nc = int(next(it)); hdr = [next(it) for _ in range(nc)]
    nr = int(next(it))
    rows = [[next(it) for _ in range(nc)] for _ in range(nr)]
    return hdr, rows


def canon_cell(v):
    return cell_tok(v)


def run(ctx):
    mk = importlib.import_module("ladim_plugins.release.makrel")
    drv = Driver()
    if getattr(ctx, "widened", False):
        drv.available = False
    pend = []
    for c in range(ctx.n(150, 3000)):
        groups, forms, container, glob = build_config(ctx.rng)
        seed = ctx.sub_seed()
        total = sum(g["num"] for g in groups)
        cs = dict(container=container, glob=glob, forms=forms,
                  groups=[{k: (v if not callable(v) else "<callable>") for k, v in g.items()} for g in groups])
        ctx.case(key=repr(cs), nontrivial=total > 0, sample=dict(container=container, forms=forms, nums=[g["num"] for g in groups], glob=glob) if c < 3 else None)
        for f in forms: ctx.branch("form." + f)
        ctx.branch("container." + container); ctx.branch("columns" if "columns" in glob else "default_columns"); ctx.size("groups", len(groups))
        try:
            with RngRecorder(seed) as rec:
                res = mk.make_release(wrap(groups, container, glob))
        except Exception as e:
            ctx.oracle(False, "C01.make_release.raises", SITE, "valid configuration raised %r" % (e,), cs)
            continue
        hdr = list(res.keys())
        nrows = len(res["date"]) if "date" in res else (len(next(iter(res.values()))) if res else 0)
        ctx.oracle(nrows == total, "C01.row_count", SITE, "%d rows for sum(num)=%d" % (nrows, total), cs)
        ctx.oracle(all(len(v) == nrows for v in res.values()), "C01.columns_unequal", SITE, "columns of different length", cs)
        if "columns" in glob:
            ctx.oracle(hdr == glob["columns"], "C01.columns_requested", SITE, "header %r, requested %r" % (hdr, glob["columns"]), cs)
        else:
            ctx.oracle(hdr[:4] == ["date", "longitude", "latitude", "depth"], "C01.columns_default", SITE, "header %r" % (hdr,), cs)
        if "grp" in res and "tag" in res and nrows == total:
            grp = np.array(res["grp"]); tag = np.array(res["tag"])
            for g, conf in enumerate(groups):
                cnt = int(np.sum(grp == g + 1))
                ctx.oracle(cnt == conf["num"], "C01.group_count", SITE, "group %d contributed %d rows, num=%d" % (g, cnt, conf["num"]), dict(cs, group=g))
                # row integrity: the tag identifies (group, particle)
                mconf = relgen.materialise(conf)
                exp_dates = None
                try:
                    exp_dates = mk.date_range(conf["date"], conf["num"])
                except Exception:
                    pass
                alln = set(k for k in list(conf.keys()) + list(conf.get("attrs", {}).keys())) - set(SPECIAL)
                for i in range(conf["num"]):
                    rows = np.flatnonzero(tag == g * 1000000 + i)
                    ok = len(rows) == 1 and grp[rows[0]] == g + 1
                    ctx.oracle(ok, "C01.row_integrity", SITE, "tag of particle %d of group %d appears %d times / in another group's row" % (i, g, len(rows)), dict(cs, group=g, particle=i))
                    if not ok:
                        continue
                    r = rows[0]
                    if exp_dates is not None and "date" in res:
                        ctx.oracle(res["date"][r] == exp_dates[i], "C01.row_integrity", SITE,
                                   "particle %d of group %d has date %r, its release time is %r" % (i, g, res["date"][r], exp_dates[i]), dict(cs, group=g, particle=i))
                    if forms[g] == "point" and "longitude" in res:
                        ctx.oracle(res["longitude"][r] == conf["location"][0] and res["latitude"][r] == conf["location"][1],
                                   "C01.row_integrity", SITE, "particle of a point group has another position", dict(cs, group=g, particle=i))
                    for nm in ("depth", "w", "age", "stage", "id2", "len", "q", "label", "flag", "name", "region", "farmid"):
                        if nm not in res:
                            continue
                        if nm in ("name", "region", "farmid") and forms[g] == "geojson":
                            continue        # comes with the location (checked by C03)
                        spec = conf.get("attrs", {}).get(nm, conf.get(nm, None))
                        if spec is None:
                            want = 0.0 if nm != "depth" else 0.0
                            ctx.oracle(res[nm][r] == want, "C01.missing_attr_not_zero", SITE,
                                       "group %d does not define %s but its particle has %r" % (g, nm, res[nm][r]), dict(cs, group=g, particle=i))
                        elif isinstance(spec, list) and len(spec) == conf["num"] and not (len(spec) == 2 and conf["num"] != 2):
                            ctx.oracle(res[nm][r] == spec[i], "C01.row_integrity", SITE,
                                       "attribute %s of particle %d of group %d is %r, given %r" % (nm, i, g, res[nm][r], spec[i]), dict(cs, group=g, particle=i))
                        elif not isinstance(spec, (list, dict, str)) and not callable(spec):
                            ctx.oracle(res[nm][r] == spec, "C01.row_integrity", SITE, "constant attribute %s changed" % nm, dict(cs, group=g, particle=i))
        if drv.available:
            try:
                ps = pieces(mk, groups, glob, seed)
            except Exception as e:
                ctx.disagreement("make_release.pieces", "replaying the group generators raised %r" % (e,), cs); continue
            j = drv.ask("table.make", table_toks(ps, glob.get("columns")))
            pend.append((j, res, cs))
    if drv.available:
        rep = drv.run()
        for j, res, cs in pend:
            st, t = rep[j]
            if st != "ok" or t[0] == "none":
                ctx.disagreement("table.make", "model produced no table (%r)" % (t[:3],), cs); continue
            hdr, rows = parse_table(t)
            ihdr = [relgen.name_tok(k) for k in res.keys()]
            ctx.eq("table.header", ihdr, hdr, cs)
            if ihdr != hdr:
                continue
            n = len(next(iter(res.values()))) if res else 0
            irows = [[canon_cell(res[k][r]) for k in res.keys()] for r in range(n)]
            ctx.eq("table.nrows", len(irows), len(rows), cs)
            if "date" in res and len(irows) == len(rows):
                di = list(res.keys()).index("date")
                ctx.eq("table.date_sequence", [r[di] for r in irows], [r[di] for r in rows], cs)
                # equal-date runs as multisets
                from collections import Counter
                ctx.eq("table.rows_multiset", Counter(tuple(r) for r in irows), Counter(tuple(r) for r in rows), cs)
            elif len(irows) == len(rows):
                from collections import Counter
                ctx.eq("table.rows_multiset", Counter(tuple(r) for r in irows), Counter(tuple(r) for r in rows), cs)


def replay(payload):
    print("predicate:", payload.get("predicate"), "|", payload.get("detail"))
    return False
