"""C03 — release positions lie inside the requested area and carry its attributes.

Correspondence: real `latlon_from_poly` / `get_location` with recorded draws against the Lean sampling
model, given the triangulation returned by the real `triangulate_nonconvex_multi` (validated: vertices
are polygon vertices, exact area sum).  Oracle: exact rational point-in-polygon on the implementation's
output, axis convention, GeoJSON property join against an independent join, metric offsets converted
back to metres."""
import io, json, importlib, math
import numpy as np
from .common import Driver, F, I, L, unF, RngRecorder
from . import geom, ibmrun

RULE = ("random simple polygons (star-shaped 3..12 vertices, comb/L-shaped non-convex, both orientations, non-symmetric), "
        "1..4 pairwise disjoint polygons, list / multi-polygon / metric-offset / GeoJSON (Polygon and MultiPolygon features with "
        "heterogeneous property tables) / point forms, centres at latitudes -89..89 and any longitude incl. on / next to the antimeridian, num in 0..40; draws recorded with u=0 and "
        "1-2^-53 injected. Non-trivial: num >= 1.")
ASSUMPTIONS = ["the external `triangle` library's triangulation is validated per case (vertices, exact area sum), not proved to cover the polygon",
               "positions within 1e-11 (relative) outside an edge are counted as on the edge (floating-point evaluation of the convex combination)"]
SITE = "ladim_plugins/release/makrel.py"


def gen_polys(rng, k=None, clon=None, clat=None, r=None):
    k = k or rng.randrange(1, 5)
    clon = rng.uniform(-20, 30) if clon is None else clon
    clat = rng.uniform(-60, 70) if clat is None else clat
    r = r or rng.choice([0.01, 0.5, 2.0, 2e-4])
    polys = []
    for i in range(k):
        polys.append(geom.random_polygon(rng, clon + 3.0 * r * i, clat + 0.37 * r * i, r))
    return polys      # lists of (lon, lat)


def tri_toks(tris):
    return I(len(tris)) + " " + " ".join(" ".join(F(v) for v in (t[0][0], t[0][1], t[1][0], t[1][1], t[2][0], t[2][1])) for t in tris)


def check_positions(ctx, drv, pend, mk, polys, lat, lon, polynum, rec, cs, what):
    """polys: list of [(lon,lat)]; lat/lon/polynum: implementation output"""
    n = len(lat)
    for i in range(n):
        p = polys[int(polynum[i])] if polynum is not None else None
        if p is not None:
            ok = geom.inside_tol(p, lon[i], lat[i])
        else:
            ok = any(geom.inside_tol(q, lon[i], lat[i]) for q in polys)
        ctx.oracle(ok, "C03.%s.outside_polygon" % what, SITE,
                   "particle %d at (lon %r, lat %r) is outside its polygon" % (i, lon[i], lat[i]), dict(cs, particle=i))
    if polynum is not None:
        ctx.oracle(all(0 <= int(k) < len(polys) for k in polynum), "C03.%s.polynum_range" % what, SITE, "polygon index out of range", cs)


def run(ctx):
    mk = importlib.import_module("ladim_plugins.release.makrel")
    drv = Driver()
    if getattr(ctx, "widened", False):
        drv.available = False
    pend = []
    for c in range(ctx.n(250, 5000)):
        polys = gen_polys(ctx.rng)
        n = ctx.rng.choice([0, 1, 2, 5, 17, 40])
        plat = [np.array([p[1] for p in poly]) for poly in polys]
        plon = [np.array([p[0] for p in poly]) for poly in polys]
        cs = dict(polys=polys, n=n)
        ctx.case(key=("poly", repr(polys), n), nontrivial=n > 0, sample=dict(n=n, npoly=len(polys), nvert=[len(p) for p in polys]) if c < 3 else None)
        ctx.branch("npoly=%d" % len(polys)); ctx.size("num", n)
        single = len(polys) == 1 and ctx.rng.random() < 0.5
        try:
            with RngRecorder(ctx.sub_seed(), ibmrun.tail_injector(ctx.rng, 0.1)) as rec:
                if single:
                    lat, lon, polynum = mk.latlon_from_poly(plat[0], plon[0], n)
                else:
                    lat, lon, polynum = mk.latlon_from_poly(plat, plon, n)
        except Exception as e:
            ctx.oracle(False, "C03.latlon_from_poly.raises", SITE, "raised %r" % (e,), cs)
            continue
        check_positions(ctx, drv, pend, mk, polys, lat, lon, polynum, rec, cs, "latlon_from_poly")
        exp = [("rand", (n,)), ("rand", (2 * n,))]
        if rec.schedule() != exp:
            ctx.disagreement("latlon_from_poly.draw_schedule", "model declares %r, implementation requested %r" % (exp, rec.schedule()), cs)
            continue
        ctx.schedule_matches += 1
        # triangulation from the real code (coords are (lat, lon) pairs)
        coords = [np.stack((la, lo)).T for la, lo in zip(plat, plon)]
        tris, pidx = mk.triangulate_nonconvex_multi(coords)
        for k, poly in enumerate(polys):
            ok, msg = geom.valid_triangulation([(p[1], p[0]) for p in poly], [t for t, j in zip(tris, pidx) if j == k])
            ctx.oracle(ok, "C03.triangulation.invalid", SITE + "::triangulate_nonconvex", msg, dict(cs, polygon=k))
        if drv.available and n > 0:
            u = rec.log[0][3]; st = rec.log[1][3]
            pts = " ".join("%s %s %s" % (F(u[i]), F(st[i]), F(st[n + i])) for i in range(n))
            j = drv.ask("sample.points", tri_toks(tris), I(n), pts)
            pend.append((j, lat, lon, polynum, pidx, cs))
    # ---- get_location forms: axis convention, point, offsets, geojson
    for c in range(ctx.n(150, 3000)):
        form = ctx.rng.choice(["point", "poly", "multi", "offset", "geojson", "geojson"])
        n = ctx.rng.choice([1, 3, 10, 25])
        ctx.case(key=("loc", form, c, n), nontrivial=True); ctx.branch("form." + form)
        if form == "point":
            lon0 = ctx.rng.uniform(-180, 180); lat0 = ctx.rng.uniform(-89, 89)
            out = mk.get_location([lon0, lat0], n)
            ctx.oracle(out["longitude"] == [lon0] * n and out["latitude"] == [lat0] * n, "C03.point.not_exact", SITE + "::get_location",
                       "point (%r,%r) -> %r" % (lon0, lat0, (out["longitude"][:2], out["latitude"][:2])), dict(lon=lon0, lat=lat0, n=n))
            continue
        if form in ("poly", "multi"):
            polys = gen_polys(ctx.rng, k=1 if form == "poly" else ctx.rng.randrange(2, 4))
            if form == "poly":
                spec = [[p[0] for p in polys[0]], [p[1] for p in polys[0]]]
            else:
                spec = [[[p[0] for p in poly] for poly in polys], [[p[1] for p in poly] for poly in polys]]
            with RngRecorder(ctx.sub_seed()):
                out = mk.get_location(spec, n)
            cs = dict(form=form, polys=polys, n=n)
            check_positions(ctx, drv, pend, mk, polys, out["latitude"], out["longitude"], None, None, cs, "get_location")
            continue
        if form == "offset":
            # centres anywhere, including next to / on the antimeridian and the prime meridian
            clon = ctx.rng.choice([ctx.rng.uniform(-170, 170), ctx.rng.uniform(-170, 170), 179.9, -179.95, 180.0, -180.0, 0.0, 179.9999]); clat = ctx.rng.choice([-89.0, -60.0, 0.0, 45.0, 70.0, 89.0, ctx.rng.uniform(-89, 89)])
            off = geom.random_polygon(ctx.rng, ctx.rng.uniform(-200, 200), ctx.rng.uniform(-200, 200), ctx.rng.choice([50.0, 500.0, 5000.0]))
            spec = dict(center=[clon, clat], offset=[[p[0] for p in off], [p[1] for p in off]])
            with RngRecorder(ctx.sub_seed()):
                out = mk.get_location(spec, n)
            cs = dict(form=form, center=[clon, clat], offset=off, n=n)
            for i in range(n):
                dx, dy = mk.degree_diff_to_metric(out["longitude"][i] - clon, out["latitude"][i] - clat, clat)
                scale = max(max(abs(a), abs(b)) for a, b in off) + 1
                ok = geom.inside_exact(off, dx, dy) or geom.dist_to_boundary(off, dx, dy) <= 1e-6 * scale
                ctx.oracle(ok, "C03.offset.outside_offset_polygon", SITE + "::get_location_offset",
                           "particle %d: metres (%r, %r) outside the offset polygon" % (i, dx, dy), dict(cs, particle=i))
            # mutual inverses
            dx0 = ctx.rng.uniform(-1e4, 1e4); dy0 = ctx.rng.uniform(-1e4, 1e4)
            dl, dp = mk.metric_diff_to_degrees(dx0, dy0, clat)
            bx, by = mk.degree_diff_to_metric(dl, dp, clat)
            ctx.oracle(abs(bx - dx0) <= 1e-9 * (1 + abs(dx0)) and abs(by - dy0) <= 1e-9 * (1 + abs(dy0)), "C03.conversion.not_inverse", SITE,
                       "(%r,%r) m -> deg -> (%r,%r) m at lat %r" % (dx0, dy0, bx, by, clat), dict(lat=clat))
            continue
        # geojson
        nfeat = ctx.rng.randrange(1, 5)
        feats = []; flat = []
        base_lon = ctx.rng.uniform(-20, 20); base_lat = ctx.rng.uniform(-50, 60)
        kpoly = 0
        for f in range(nfeat):
            npol = ctx.rng.randrange(1, 4)
            ps = []
            for q in range(npol):
                ps.append(geom.random_polygon(ctx.rng, base_lon + 3.0 * kpoly, base_lat + 0.2 * kpoly, 1.0)); kpoly += 1
            props = {}
            for name in ("region", "farmid", "w"):
                if ctx.rng.random() < 0.7:
                    props[name] = ctx.rng.choice([f + 1, 10.5 * (f + 1), 7])
            ring = lambda p: [[x, y] for x, y in p] + [[p[0][0], p[0][1]]]
            if npol == 1 and ctx.rng.random() < 0.5:
                geomj = dict(type="Polygon", coordinates=[ring(ps[0])])
            else:
                geomj = dict(type="MultiPolygon", coordinates=[[ring(p)] for p in ps])
            feat = dict(type="Feature", geometry=geomj)
            if props or ctx.rng.random() < 0.5:
                feat["properties"] = props
            feats.append(feat)
            for p in ps:
                flat.append((f, p, props))
        doc = dict(type="FeatureCollection", features=feats)
        cs = dict(form=form, geojson=doc, n=n)
        try:
            with RngRecorder(ctx.sub_seed()):
                out = mk.get_location(io.StringIO(json.dumps(doc)), n)
        except Exception as e:
            ctx.oracle(False, "C03.geojson.raises", SITE + "::get_location_file", "raised %r" % (e,), cs)
            continue
        allprops = []
        for f_ in feats:
            for k_ in f_.get("properties", {}):
                if k_ not in allprops:
                    allprops.append(k_)
        for i in range(n):
            x, y = out["longitude"][i], out["latitude"][i]
            owners = [(f, props) for f, p, props in flat if geom.inside_tol(p, x, y)]
            ctx.oracle(len(owners) >= 1, "C03.geojson.outside_polygon", SITE + "::get_location_file",
                       "particle %d at (%r,%r) in no polygon" % (i, x, y), dict(cs, particle=i))
            if len(owners) == 1:
                f, props = owners[0]
                for name in allprops:
                    got = out.get(name, [None] * n)[i]
                    want = props.get(name, float("nan"))
                    same = (got == want) or (isinstance(got, float) and got != got and want != want)
                    ctx.oracle(same, "C03.geojson.property_join", SITE + "::get_location_file",
                               "particle %d in feature %d: property %s = %r, feature has %r" % (i, f, name, got, want), dict(cs, particle=i))
    if drv.available:
        rep = drv.run()
        for j, lat, lon, polynum, pidx, cs in pend:
            st, t = rep[j]
            if st != "ok":
                ctx.disagreement("sample.points", "driver error %r" % (t,), cs); continue
            m = int(t[0])
            for i in range(m):
                x, y, k = t[1 + 3 * i: 4 + 3 * i]
                c = dict(cs, particle=i)
                if x == "none":
                    ctx.disagreement("sample.points", "model has no triangle for particle %d" % i, c); continue
                ctx.eq_bits("sample.lat", lat[i], unF(x), c)
                ctx.eq_bits("sample.lon", lon[i], unF(y), c)
                ctx.eq("sample.polynum", int(polynum[i]), int(pidx[int(k)]), c)


def replay(payload):
    print("predicate:", payload.get("predicate"), "|", payload.get("detail"))
    return False
