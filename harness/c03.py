"""C03 — release positions lie inside the requested area and carry its attributes.

Correspondence: real `latlon_from_poly` / `get_location` with recorded draws against the Lean sampling
model, given the triangulation returned by the real `triangulate_nonconvex_multi` (validated: vertices
are polygon vertices, exact area sum).  Oracle: exact rational point-in-polygon on the implementation's
output, particle counts, axis convention, GeoJSON property join against an independent join, metric
offsets converted back to metres, degree<->metre conversions against the radii of the WGS84 ellipsoid.  Locations used more than
once: the same containers (round 8), and a GeoJSON file name whose file changes between the uses (round 9, oracle only)."""
import io, json, importlib, math, os, tempfile
import numpy as np
from .common import Driver, F, I, L, unF, RngRecorder
from . import geom, ibmrun

RULE = ("random simple polygons (star-shaped 3..12 vertices, comb/L-shaped non-convex, both orientations, non-symmetric, radii 2e-4..2 degrees), "
        "1..4 pairwise disjoint polygons, list / tuple / numpy / multi-polygon / metric-offset / GeoJSON / point forms; polygon centres (all polygon forms, "
        "also GeoJSON) at mid latitudes, on / next to / straddling the antimeridian and the prime meridian, far west, and at latitudes +-85 / +-88.5; "
        "GeoJSON: Polygon and MultiPolygon features, 1..4 features with 1..3 polygons, polygon radii 2e-4 / 1e-3 / 0.01 / 1 degree and integer-valued "
        "coordinates, 2-D and 3-D coordinates, foreign members (crs, name, bbox, id), properties object / empty / null / absent, heterogeneous property "
        "tables with numeric, text (non-ASCII too), boolean and null values, rarely a property called longitude / latitude; read from a stream or from a "
        "UTF-8 file by name; offset centres at latitudes -89..89 and any longitude incl. on / next to the antimeridian, float and integer centres / offsets; "
        "points as float / int / numpy scalars in lists and tuples; num in 0..40 (0, 1, 2 included in every form); draws recorded with u=0 and 1-2^-53 "
        "injected in every form; conversions at latitudes 0, +-60, +-88, +-88.9, +-89 and random, scalar / list / array arguments, 1e-3..1e6 m; the "
        "sibling sampler get_polygon_sample on the same polygons started at a random vertex. The same location used 2..4 times (round 8): by "
        "2..4 get_location calls with the same spec object or with separate specs holding the same coordinate containers, by 2..4 groups of one "
        "make_release configuration (same location object, or different centres sharing one offset container; dates differ so the table interleaves "
        "the groups; with / without seed), and by 2..3 make_release calls with the same configuration (group list or flat form); forms metric-offset "
        "(offset polygons of radius 10 m..5 km centred on the release centre or 1.5 / 3 / 10 radii away from it; offsets as lists, tuples, a 2-D float "
        "array, two 1-D float arrays in a list / tuple, a transposed view of a vertex table, integer lists / arrays; centres as list / tuple / array), "
        "polygon and multi-polygon (lists, tuples, 1-D float arrays, one 2-D / 3-D array) and a GeoJSON file given by name; every use is judged "
        "against the location as it was given. Round-trip conversions of float arrays are also compared with the arrays the caller passed. "
        "A GeoJSON location given by file NAME and used 2..7 times in one process while what the name refers to changes between the uses "
        "(round 9): 2..3 versions of the document, each used once or twice, sometimes the first one again at the end; the file rewritten in "
        "place, replaced atomically (os.replace), removed and created again, rewritten with the same size and the same time stamps, the same "
        "relative name used from another working directory, equally named files in different directories (absolute / relative names), a "
        "symbolic link pointed at another file, and a YAML configuration file (given by name, rewritten for every use) that names another "
        "GeoJSON file each time; absolute, relative and ./ names, with / without a sub-directory, base names with non-ASCII letters and a "
        "blank; the versions are unrelated areas, the same features moved east / west by 0.5 / 1.25 / 3 widths of the area, the same "
        "polygons with changed / dropped / added property values, or a reordered subset of the features; used through get_location, "
        "make_release with a configuration object (flat or 1..2 groups on the name, sometimes next to a group with an inline polygon; with / "
        "without seed), make_release with the YAML file, or a mixture; every use is judged against the document the name referred to when "
        "the call was made (positions inside its polygons, properties of its containing feature; through make_release the values that the "
        "feature has, by value). "
        "Non-trivial: num >= 1.")
ASSUMPTIONS = ["the external `triangle` library's triangulation is validated per case (vertices, exact area sum), not proved to cover the polygon",
               "positions within 1e-11 (relative) outside an edge are counted as on the edge (floating-point evaluation of the convex combination)",
               "a GeoJSON property whose value is null is 'no value': the particle may carry None or NaN (a property the feature does not have: NaN)",
               "'on the WGS84 ellipsoid' is read as: the metres per radian of latitude, and per radian of longitude divided by cos(lat), lie between the "
               "smallest (b^2/a) and the largest (a^2/b) radius of curvature of the WGS84 ellipsoid (any latitude convention satisfies this)"]
SITE = "ladim_plugins/release/makrel.py"

# WGS84 (EPSG:7030): semi-major axis and semi-minor axis, written down independently of the implementation
WGS_A = 6378137.0
WGS_B = 6356752.314245179
R_MIN = WGS_B * WGS_B / WGS_A        # meridional radius of curvature at the equator: the smallest radius of curvature
R_MAX = WGS_A * WGS_A / WGS_B        # radius of curvature at the poles: the largest


def gen_polys(rng, k=None, clon=None, clat=None, r=None):
    k = k or rng.randrange(1, 5)
    clon = rng.uniform(-20, 30) if clon is None else clon
    clat = rng.uniform(-60, 70) if clat is None else clat
    r = r or rng.choice([0.01, 0.5, 2.0, 2e-4])
    polys = []
    for i in range(k):
        polys.append(geom.random_polygon(rng, clon + 3.0 * r * i, clat + 0.37 * r * i, r))
    return polys      # lists of (lon, lat)


def gen_centre(rng):
    """(clon, clat, r, tag) for gen_polys; None = gen_polys' own default.  Polygons are plain coordinate lists: the
    code does not wrap longitudes, so a polygon straddling 180 has vertices on both sides of 180."""
    t = rng.random()
    if t < 0.5:
        return None, None, None, "mid"
    if t < 0.78:
        return rng.choice([179.9, -179.95, 180.0, -180.0, 179.9999, 0.0, -0.3, -150.0, -100.0]), None, None, "meridian"
    r = rng.choice([0.01, 0.5, 2e-4])           # |lat| stays below 90: 88.5 + 0.6*0.5 + 3*0.37*0.5 < 89.4
    clat = rng.choice([88.5, -88.5, 85.0, -85.0])
    if t < 0.92:
        return None, clat, r, "polar"
    return rng.choice([179.9, 180.0, -180.0, 0.0]), clat, r, "polar+meridian"


def int_polygon(rng, cx, cy, r):
    """simple polygon with integer-valued coordinates (Python ints)"""
    while True:
        p = geom.random_polygon(rng, cx, cy, r)
        q = [(int(round(x)), int(round(y))) for x, y in p]
        if geom.is_simple(q):
            return q


def tri_toks(tris):
    return I(len(tris)) + " " + " ".join(" ".join(F(v) for v in (t[0][0], t[0][1], t[1][0], t[1][1], t[2][0], t[2][1])) for t in tris)


def check_positions(ctx, drv, pend, mk, polys, lat, lon, polynum, rec, cs, what, num=None):
    """polys: list of [(lon,lat)]; lat/lon/polynum: implementation output"""
    if num is not None:
        lens = [len(lat), len(lon)] + ([len(polynum)] if polynum is not None else [])
        ctx.oracle(all(l == num for l in lens), "C03.%s.count" % what, SITE,
                   "%d particles requested, returned columns have lengths %r" % (num, lens), cs)
    n = min(len(lat), len(lon)) if num is not None else len(lat)
    for i in range(n):
        p = polys[int(polynum[i])] if polynum is not None and i < len(polynum) and 0 <= int(polynum[i]) < len(polys) else None
        if p is not None:
            ok = geom.inside_tol(p, lon[i], lat[i])
        elif polynum is not None:
            ok = False
        else:
            ok = any(geom.inside_tol(q, lon[i], lat[i]) for q in polys)
        ctx.oracle(ok, "C03.%s.outside_polygon" % what, SITE,
                   "particle %d at (lon %r, lat %r) is outside its polygon" % (i, lon[i], lat[i]), dict(cs, particle=i))
    if polynum is not None:
        ctx.oracle(all(0 <= int(k) < len(polys) for k in polynum), "C03.%s.polynum_range" % what, SITE, "polygon index out of range", cs)


def check_schedule(ctx, rec, n, what, cs):
    """every non-point location form draws exactly like latlon_from_poly: rand(n) then rand(2n) (the model's declared schedule)"""
    exp = [("rand", (n,)), ("rand", (2 * n,))]
    if rec.schedule() != exp:
        ctx.disagreement(what + ".draw_schedule", "model declares %r, implementation requested %r" % (exp, rec.schedule()), cs)
        return False
    ctx.schedule_matches += 1
    return True


def in_band(v):
    # 1e-9 relative: the band is 1 % wide; the quotient is formed with math.cos at |lat| <= 89 (relative error < 1e-13) and a handful of roundings
    return R_MIN * (1 - 1e-9) <= v <= R_MAX * (1 + 1e-9)


def conversion_checks(ctx, mk, lat):
    """degree<->metre conversions at reference latitude `lat`: mutual inverses (both directions, scalar / list / array arguments)
    and on the WGS84 ellipsoid (local radii between the extreme radii of curvature), judged without the implementation's other half."""
    rng = ctx.rng
    site = SITE + "::metric_diff_to_degrees/degree_diff_to_metric"
    mag = rng.choice([1e-3, 1.0, 50.0, 1e4, 1e6])
    dx0 = rng.choice([-1, 1]) * rng.uniform(0.1, 1.0) * mag; dy0 = rng.choice([-1, 1]) * rng.uniform(0.1, 1.0) * mag
    cs = dict(lat=lat, dx=dx0, dy=dy0)
    c = math.cos(math.radians(lat))
    # metres -> degrees, on the ellipsoid
    dl, dp = mk.metric_diff_to_degrees(dx0, dy0, lat)
    dl = float(dl); dp = float(dp)
    ok = dl != 0 and dp != 0 and math.isfinite(dl) and math.isfinite(dp) and in_band(dx0 / (math.radians(dl) * c)) and in_band(dy0 / math.radians(dp))
    ctx.oracle(ok, "C03.conversion.metric_to_degrees_not_wgs84", site,
               "(%r, %r) m at lat %r -> (%r, %r) degrees: radii outside [%r, %r]" % (dx0, dy0, lat, dl, dp, R_MIN, R_MAX), cs)
    # degrees -> metres, on the ellipsoid
    gl = rng.choice([-1, 1]) * rng.uniform(0.1, 1.0) * rng.choice([1e-6, 1e-3, 0.1, 2.0])
    gp = rng.choice([-1, 1]) * rng.uniform(0.1, 1.0) * rng.choice([1e-6, 1e-3, 0.1, 0.9])
    mx, my = mk.degree_diff_to_metric(gl, gp, lat)
    mx = float(mx); my = float(my)
    ok = math.isfinite(mx) and math.isfinite(my) and in_band(mx / (math.radians(gl) * c)) and in_band(my / math.radians(gp))
    ctx.oracle(ok, "C03.conversion.degrees_to_metric_not_wgs84", site,
               "(%r, %r) degrees at lat %r -> (%r, %r) m: radii outside [%r, %r]" % (gl, gp, lat, mx, my, R_MIN, R_MAX), dict(lat=lat, dlon=gl, dlat=gp))
    # mutual inverses, both directions.  Each direction is two multiplications / divisions by constants and one by the local
    # radius (< 10 roundings in all), so the round trip is exact to 1e-13 relative.
    bx, by = mk.degree_diff_to_metric(dl, dp, lat)
    ctx.oracle(abs(bx - dx0) <= 1e-13 * abs(dx0) and abs(by - dy0) <= 1e-13 * abs(dy0), "C03.conversion.not_inverse", SITE,
               "(%r,%r) m -> deg -> (%r,%r) m at lat %r" % (dx0, dy0, bx, by, lat), cs)
    hl, hp = mk.metric_diff_to_degrees(mx, my, lat)
    ctx.oracle(abs(hl - gl) <= 1e-13 * abs(gl) and abs(hp - gp) <= 1e-13 * abs(gp), "C03.conversion.not_inverse", SITE,
               "(%r,%r) deg -> m -> (%r,%r) deg at lat %r" % (gl, gp, hl, hp, lat), dict(lat=lat, dlon=gl, dlat=gp))
    # sequence arguments (get_location_offset passes the offset lists as they are)
    m = rng.randrange(1, 6)
    xs = [rng.uniform(-1, 1) * mag for _ in range(m)]; ys = [rng.uniform(-1, 1) * mag for _ in range(m)]
    kind = rng.choice(["list", "array", "intlist"])
    if kind == "intlist":
        xs = [int(round(v)) for v in xs]; ys = [int(round(v)) for v in ys]
    ax, ay = (np.array(xs), np.array(ys)) if kind == "array" else (xs, ys)
    ctx.branch("conversion.args." + kind)
    al, ap = mk.metric_diff_to_degrees(ax, ay, lat)
    qx, qy = mk.degree_diff_to_metric(np.asarray(al), np.asarray(ap), lat)
    ok = np.shape(al) == (m,) and np.shape(ap) == (m,) and np.shape(qx) == (m,) and np.shape(qy) == (m,) and \
        all(abs(qx[i] - xs[i]) <= 1e-13 * abs(xs[i]) and abs(qy[i] - ys[i]) <= 1e-13 * abs(ys[i]) for i in range(m))
    ctx.oracle(ok, "C03.conversion.not_inverse", SITE, "%s arguments (%r, %r) m -> deg -> (%r, %r) m at lat %r" % (kind, xs, ys, qx, qy, lat),
               dict(lat=lat, xs=xs, ys=ys, kind=kind))
    if kind == "array":
        # the caller's own check: convert its arrays forth and back and compare with the arrays it holds (the round trip must
        # give back what the caller passed, also as the caller sees it afterwards); both directions, same 1e-13 as above
        ok = all(abs(qx[i] - ax[i]) <= 1e-13 * abs(xs[i]) and abs(qy[i] - ay[i]) <= 1e-13 * abs(ys[i]) for i in range(m)) if np.shape(qx) == (m,) and np.shape(qy) == (m,) else False
        ctx.oracle(ok, "C03.conversion.not_inverse", SITE, "float arrays (%r, %r) m -> deg -> (%r, %r) m at lat %r differ from the caller's arrays, which now hold (%r, %r)"
                   % (xs, ys, qx, qy, lat, ax.tolist(), ay.tolist()), dict(lat=lat, xs=xs, ys=ys, kind="array, compared with the arrays passed"))
        gls = [rng.choice([-1, 1]) * rng.uniform(0.1, 1.0) * 0.1 for _ in range(m)]; gps = [rng.choice([-1, 1]) * rng.uniform(0.1, 1.0) * 0.1 for _ in range(m)]
        al2 = np.array(gls); ap2 = np.array(gps)
        ux, uy = mk.degree_diff_to_metric(al2, ap2, lat)
        vl, vp = mk.metric_diff_to_degrees(ux, uy, lat)
        ok = np.shape(vl) == (m,) and np.shape(vp) == (m,) and \
            all(abs(vl[i] - g) <= 1e-13 * abs(g) and abs(vl[i] - al2[i]) <= 1e-13 * abs(g) for i, g in enumerate(gls)) and \
            all(abs(vp[i] - g) <= 1e-13 * abs(g) and abs(vp[i] - ap2[i]) <= 1e-13 * abs(g) for i, g in enumerate(gps))
        ctx.oracle(ok, "C03.conversion.not_inverse", SITE, "float arrays (%r, %r) deg -> m -> (%r, %r) deg at lat %r; the caller's arrays now hold (%r, %r)"
                   % (gls, gps, vl, vp, lat, al2.tolist(), ap2.tolist()), dict(lat=lat, dlons=gls, dlats=gps, kind="array"))


def is_none(v):
    return v is None or (isinstance(v, float) and v != v)


def prop_same(got, want):
    """does the particle carry the feature's value?  null / absent: no value.  Text stays text, a boolean stays a boolean,
    numbers compare by value (pandas turns an integer column with gaps into floats)."""
    if is_none(want):
        return is_none(got)
    if isinstance(want, bool) or isinstance(got, (bool, np.bool_)):
        return isinstance(want, bool) and isinstance(got, (bool, np.bool_)) and bool(got) == want
    if isinstance(want, str) or isinstance(got, str):
        return isinstance(want, str) and isinstance(got, str) and got == want
    return got == want


PROP_NAMES = ("region", "farmid", "w", "name", "active", "depth", "navn_æøå")


def gen_geojson(ctx):
    """a FeatureCollection; returns (doc, flat, feats, tags) with flat = [(feature index, polygon [(lon,lat)], properties)]"""
    rng = ctx.rng
    tags = []
    nfeat = rng.randrange(1, 5)
    r = rng.choice([1.0, 1.0, 0.01, 1e-3, 2e-4, "int"])
    clon, clat, _, ctag = gen_centre(rng)
    if clat is not None and (r == "int" or r == 1.0):
        r = 0.01                                   # keep |lat| < 90 next to the poles
    tags.append("centre." + ctag)
    base_lon = rng.uniform(-20, 20) if clon is None else clon
    base_lat = rng.uniform(-50, 60) if clat is None else clat
    R = 5.0 if r == "int" else r
    tags.append("radius.%s" % r)
    rich = rng.random() < 0.5
    tags.append("props.rich" if rich else "props.numeric")
    three_d = rng.random() < 0.2
    if three_d:
        tags.append("coords.3d")
    feats = []; flat = []
    kpoly = 0
    for f in range(nfeat):
        npol = rng.randrange(1, 4)
        ps = []
        for q in range(npol):
            # 4 columns 3R apart (polygons are at most 2R wide), rows 1.6R apart (polygons are at most 1.2R high): pairwise disjoint
            cx = base_lon + 3.0 * R * (kpoly % 4); cy = base_lat + 1.6 * R * (kpoly // 4) + 0.2 * R * (kpoly % 4)
            ps.append(int_polygon(rng, cx, cy, R) if r == "int" else geom.random_polygon(rng, cx, cy, R)); kpoly += 1
        props = {}
        if rich:
            for name in PROP_NAMES:
                if rng.random() < 0.5:
                    props[name] = rng.choice([f + 1, 10.5 * (f + 1), 7, "farm %d" % f, "blåskjell", "", True, False, None, -3, 0, 0.0, 1e300])
        else:
            for name in ("region", "farmid", "w"):
                if rng.random() < 0.7:
                    props[name] = rng.choice([f + 1, 10.5 * (f + 1), 7])
        if three_d:
            ring = lambda p: [[x, y, 12.5] for x, y in p] + [[p[0][0], p[0][1], 12.5]]
        else:
            ring = lambda p: [[x, y] for x, y in p] + [[p[0][0], p[0][1]]]
        if npol == 1 and rng.random() < 0.5:
            geomj = dict(type="Polygon", coordinates=[ring(ps[0])])
        else:
            geomj = dict(type="MultiPolygon", coordinates=[[ring(p)] for p in ps])
        feat = dict(type="Feature", geometry=geomj)
        if props:
            feat["properties"] = props
        else:
            how = rng.choice(["absent", "empty", "null"])
            tags.append("properties." + how)
            if how == "empty":
                feat["properties"] = {}
            elif how == "null":
                feat["properties"] = None       # RFC 7946: "properties" is an object or null
        feats.append(feat)
        for p in ps:
            flat.append((f, p, props))
    doc = dict(type="FeatureCollection", features=feats)
    if rng.random() < 0.5:
        tags.append("foreign_members")
        doc["name"] = "område"
        doc["crs"] = dict(type="name", properties=dict(name="urn:ogc:def:crs:OGC:1.3:CRS84"))
        doc["bbox"] = [-180.0, -90.0, 180.0, 90.0]
        for i, ft in enumerate(feats):
            ft["id"] = i + 100
    # rarely: a property with the name of a position column ("arbitrary property tables")
    clash = None
    if rng.random() < 0.04:
        clash = rng.choice(["longitude", "latitude"])
        f = rng.randrange(nfeat)
        val = rng.choice([99.0, 7, -12.5])
        if not isinstance(feats[f].get("properties"), dict):
            feats[f]["properties"] = {}
        feats[f]["properties"][clash] = val
        flat = [(g, p, feats[g]["properties"] if g == f else pr) for g, p, pr in flat]
        tags.append("props.position_name")
    return doc, flat, feats, tags, clash


def inside_near(p, x, y):
    """geom.inside_tol(p, x, y), with the exact rational test skipped for points that are clearly away from the polygon's bounding
    box: a point inside or on the edge is in the box, and one that inside_tol counts as on the edge is within 1e-11 * scale of an
    edge, hence of the box (margin doubled for the float evaluation of that distance) -- the same verdict, only cheaper"""
    m = 2e-11 * (max(max(abs(a), abs(b)) for a, b in p) + 1.0)
    xs = [a for a, _ in p]; ys = [b for _, b in p]
    if x < min(xs) - m or x > max(xs) + m or y < min(ys) - m or y > max(ys) + m:
        return False
    return geom.inside_tol(p, x, y)


def geojson_particles(ctx, out, flat, allprops, n, clash, cs, m):
    """the first m particles of the table `out`: inside a polygon of the file, and carrying the properties of the feature
    whose polygon contains them (independent join: the owner is found by point-in-polygon on the returned position)"""
    for i in range(m):
        x, y = out["longitude"][i], out["latitude"][i]
        owners = [(f, props) for f, p, props in flat if inside_near(p, x, y)]
        ctx.oracle(len(owners) >= 1, "C03.geojson.outside_polygon", SITE + "::get_location_file",
                   "particle %d at (%r,%r) in no polygon" % (i, x, y), dict(cs, particle=i))
        if len(owners) == 1:
            f, props = owners[0]
            for name in allprops:
                if name == clash:
                    continue
                got = out.get(name, [None] * n)[i]
                want = props.get(name, float("nan"))
                same = (got == want) or (isinstance(got, float) and got != got and want != want)
                if want is None:
                    same = is_none(got)          # a null value: no value (ASSUMPTIONS)
                else:
                    same = same and prop_same(got, want)
                ctx.oracle(same, "C03.geojson.property_join", SITE + "::get_location_file",
                           "particle %d in feature %d: property %s = %r (%s), feature has %r (%s)" % (i, f, name, got, type(got).__name__, want, type(want).__name__), dict(cs, particle=i))


# ------------------------------------------------------------------------------------------------------------------
# The same location given more than once (round 8).  A location is written once and used by several groups of one
# release configuration (the same cage shape at many centres), by a second call with the same configuration, or by
# several get_location calls; the coordinate containers may be lists, tuples or numpy arrays (rows of a 2-D array, views).
# Every use is judged against the polygon AS IT WAS GIVEN (plain numbers written down before the first use).

def offset_polygon(rng, integer=False):
    """offset polygon in metres: radius 10 m .. 5 km, centred on the release centre or up to ten radii away from it
    (so that the release centre is inside, next to, or far outside the polygon)"""
    r = rng.choice([10.0, 50.0, 500.0, 5000.0])
    d = rng.choice([0.0, 0.0, 1.5, 3.0, 10.0]) * r
    a = rng.uniform(0, 2 * math.pi)
    cx = d * math.cos(a); cy = d * math.sin(a)
    if integer:
        return int_polygon(rng, int(round(cx)), int(round(cy)), r), d / r
    return geom.random_polygon(rng, cx, cy, r), d / r


OFFSET_CONTAINERS = ("list", "tuple", "array2d", "arrays", "tuple_of_arrays", "array_view", "intlist", "intarray")


def offset_container(kind, off):
    xs = [p[0] for p in off]; ys = [p[1] for p in off]
    if kind in ("list", "intlist"):
        return [list(xs), list(ys)]
    if kind == "tuple":
        return (tuple(xs), tuple(ys))
    if kind in ("array2d", "intarray"):
        return np.array([xs, ys])                      # float64 (int64 for whole metres): the rows are views of one array
    if kind == "arrays":
        return [np.array(xs, dtype=float), np.array(ys, dtype=float)]
    if kind == "tuple_of_arrays":
        return (np.array(xs, dtype=float), np.array(ys, dtype=float))
    if kind == "array_view":
        return np.array([[x, y] for x, y in zip(xs, ys)], dtype=float).T     # (2, m) transposed view of a vertex table
    raise ValueError(kind)


def centre_container(rng, clon, clat):
    kind = rng.choice(["list", "list", "tuple", "array"])
    return {"list": [clon, clat], "tuple": (clon, clat), "array": np.array([clon, clat])}[kind], kind


def offset_centre(rng, integer=False):
    clon = rng.choice([rng.uniform(-170, 170), rng.uniform(-170, 170), 179.9, -179.95, 180.0, -180.0, 0.0, 5.0])
    clat = rng.choice([-89.0, -60.0, 0.0, 45.0, 60.0, 70.0, 89.0, rng.uniform(-89, 89), rng.uniform(-89, 89)])
    if integer:
        clon = int(round(clon)); clat = max(-88, min(88, int(round(clat))))
    return clon, clat


def offset_positions(ctx, mk, off, clon, clat, lon, lat, cs):
    """metric-offset clause: the positions, converted back to metres around the centre, lie inside (or on the edge of) the
    offset polygon `off` (plain numbers, as given).  Two judgements:
    (a) with the package's own degree -> metre conversion (the inverse of the one that laid the polygon out).  Tolerance:
        the conversions are exact to 1e-13 relative (conversion_checks); a position is centre + difference in degrees, each
        of magnitude <= 180 degrees plus the polygon, so forming it, the convex combination of the vertices and taking the
        centre off again cost a few roundings of 2.9e-14 degrees = at most 1e-8 m; 1e-6 m + 1e-9 of the polygon's extent
        leaves two orders of magnitude;
    (b) without any implementation conversion: whatever the metres per degree are, they lie between the smallest and the
        largest radius of curvature of the WGS84 ellipsoid (ASSUMPTIONS), so the metre position lies in a known rectangle;
        if that rectangle does not meet the polygon the position is outside under every admissible conversion."""
    scale = max(max(abs(a), abs(b)) for a, b in off) + 1
    tol = 1e-6 + 1e-9 * scale
    c = math.cos(math.radians(clat)); k = math.pi / 180
    for i in range(min(len(lon), len(lat))):
        dlon = lon[i] - clon; dlat = lat[i] - clat
        dx, dy = mk.degree_diff_to_metric(dlon, dlat, clat)
        ok = geom.inside_exact(off, dx, dy) or geom.dist_to_boundary(off, dx, dy) <= tol
        ctx.oracle(ok, "C03.offset.outside_offset_polygon", SITE + "::get_location_offset",
                   "particle %d: metres (%r, %r) outside the offset polygon as given" % (i, dx, dy), dict(cs, particle=i))
        x1, x2 = sorted((dlon * k * c * R_MIN * (1 - 1e-9), dlon * k * c * R_MAX * (1 + 1e-9)))
        y1, y2 = sorted((dlat * k * R_MIN * (1 - 1e-9), dlat * k * R_MAX * (1 + 1e-9)))
        mx = (x1 + x2) / 2; my = (y1 + y2) / 2
        ok = geom.inside_exact(off, mx, my) or geom.dist_to_boundary(off, mx, my) <= math.hypot((x2 - x1) / 2, (y2 - y1) / 2) + tol
        ctx.oracle(ok, "C03.offset.outside_offset_polygon_any_wgs84_radius", SITE + "::get_location_offset",
                   "particle %d at (lon %r, lat %r), centre (%r, %r): between (%r, %r) m and (%r, %r) m from the centre for every radius of "
                   "curvature of the ellipsoid, which does not meet the offset polygon as given" % (i, lon[i], lat[i], clon, clat, x1, y1, x2, y2),
                   dict(cs, particle=i))


def release_rows(out, gid):
    """rows of make_release's table that belong to group `gid` (the table is sorted by date: groups are interleaved)"""
    sel = [j for j, g in enumerate(out.get("gid", [])) if g == gid]
    return [out["longitude"][j] for j in sel], [out["latitude"][j] for j in sel]


def in_child(fn):
    """run fn() in a forked child and return ("ok", result), ("exception", text) or ("killed", text)"""
    import pickle
    r, w = os.pipe()
    pid = os.fork()
    if pid == 0:
        code = 1
        try:
            os.close(r)
            try:
                res = ("ok", fn())
            except BaseException as e:
                res = ("exception", "raised %r" % (e,))
            with os.fdopen(w, "wb") as f:
                pickle.dump(res, f)
            code = 0
        finally:
            os._exit(code)
    os.close(w)
    with os.fdopen(r, "rb") as f:
        data = f.read()
    _, st = os.waitpid(pid, 0)
    if os.WIFSIGNALED(st):
        return "killed", "the process was killed by signal %d inside the implementation" % os.WTERMSIG(st)
    try:
        return pickle.loads(data)
    except Exception as e:
        return "exception", "no result from the child process (%r, exit status %r)" % (e, st)


def reuse_cases(ctx, mk):
    rng = ctx.rng
    for c in range(ctx.n(120, 1200)):
        form = rng.choice(["offset", "offset", "offset", "poly", "multi", "geojson"])
        how = rng.choice(["get_location.same_spec", "get_location.shared_coords", "make_release.groups_same_spec",
                          "make_release.groups_shared_coords", "make_release.twice"])
        k = rng.choice([2, 2, 3, 4])
        via_release = how.startswith("make_release")
        nums = [rng.choice([1, 2, 3, 10, 25] if via_release else [1, 3, 10, 25, 0, 2]) for _ in range(k)]
        ctx.case(key=("reuse", form, how, c), nontrivial=sum(nums) > 0)
        ctx.branch("reuse.form." + form); ctx.branch("reuse." + how); ctx.size("reuse.uses", k)
        # ---- the location(s): specs[i] is what use i is given; given[i] describes it in plain numbers
        path = None
        if form == "offset":
            kind = rng.choice(OFFSET_CONTAINERS)
            integer = kind in ("intlist", "intarray")
            off, dist = offset_polygon(rng, integer)
            off = [(int(a), int(b)) for a, b in off] if integer else [(float(a), float(b)) for a, b in off]
            ctx.branch("reuse.offset.container." + kind)
            ctx.branch("reuse.offset.centre_%s" % ("inside_or_near" if dist == 0 else "outside_%gr" % dist))
            shared = offset_container(kind, off)
            if how.endswith("same_spec") or how == "make_release.twice" and rng.random() < 0.5:
                clon, clat = offset_centre(rng, integer)
                cen, ckind = centre_container(rng, clon, clat)
                ctx.branch("reuse.offset.centre_container." + ckind)
                spec = dict(center=cen, offset=shared)
                specs = [spec] * k; given = [(clon, clat)] * k
            else:
                given = [offset_centre(rng, integer) for _ in range(k)]
                specs = []
                for clon, clat in given:
                    cen, ckind = centre_container(rng, clon, clat)
                    ctx.branch("reuse.offset.centre_container." + ckind)
                    specs.append(dict(center=cen, offset=shared))
            cs0 = dict(form=form, how=how, container=kind, offset=off, centres=given, nums=nums)
            site = SITE + "::get_location_offset"
        elif form in ("poly", "multi"):
            clon, clat, rr, ctag = gen_centre(rng)
            polys = gen_polys(rng, k=1 if form == "poly" else rng.randrange(2, 4), clon=clon, clat=clat, r=rr)
            cont = rng.choice(["list", "tuple", "numpy", "numpy", "array2d"])
            if cont == "array2d" and (form == "multi" and len(set(len(p) for p in polys)) > 1):
                cont = "numpy"
            ctx.branch("reuse.poly.container." + cont)
            conv = {"list": list, "numpy": lambda v: np.array(v, dtype=float), "tuple": tuple, "array2d": list}[cont]
            if form == "poly":
                spec = [conv([p[0] for p in polys[0]]), conv([p[1] for p in polys[0]])]
            else:
                spec = [[conv([p[0] for p in poly]) for poly in polys], [conv([p[1] for p in poly]) for poly in polys]]
            if cont == "tuple":
                spec = tuple(spec)
            elif cont == "array2d":
                spec = np.array(spec, dtype=float)           # (2, m) or (2, npoly, m): lon and lat are views of one array
            if how.endswith("shared_coords"):
                # separate location objects holding the same coordinate containers
                specs = [type(spec)(spec) if isinstance(spec, (list, tuple)) else spec[:] for _ in range(k)]
            else:
                specs = [spec] * k
            given = [None] * k
            cs0 = dict(form=form, how=how, container=cont, polys=polys, nums=nums)
            site = SITE + "::get_location"
        else:
            while True:
                doc, flat, feats, tags, clash = gen_geojson(ctx)
                if clash is None:
                    break
            with tempfile.NamedTemporaryFile("w", suffix=".geojson", encoding="utf-8", delete=False) as fh:
                path = fh.name
                json.dump(doc, fh, ensure_ascii=False)
            specs = [path] * k; given = [None] * k
            allprops = []
            for f_ in feats:
                for k_ in (f_.get("properties") or {}):
                    if k_ not in allprops:
                        allprops.append(k_)
            cs0 = dict(form=form, how=how, geojson=doc, nums=nums)
            site = SITE + "::get_location_file"
        # ---- the uses: (group, num, lon, lat, full table or None) per use.  They run in a forked child process: a location that a
        #      previous use has damaged can take the triangulation library (C code) down with a signal, which must be reported as
        #      a failing input and not end the check.  All random choices are fixed here, before the fork.
        seeds = [(ctx.sub_seed(), ctx.sub_seed()) for _ in range(k + 3)]
        if via_release:
            groups = []
            for i in range(k):
                d0 = "20%02d-%02d-%02d" % (rng.randrange(0, 30), rng.randrange(1, 13), rng.randrange(1, 29))
                date = d0 if rng.random() < 0.6 else [d0, "2031-01-01T06"]
                groups.append(dict(date=date, num=nums[i], location=specs[i], gid=i))
            ncall = 1
            conf = dict(groups=groups)
            if how == "make_release.twice":
                ncall = 2
                if k == 2 and rng.random() < 0.5:
                    conf = dict(groups[0]); ncall = 3 if rng.random() < 0.3 else 2       # flat form: one group, called again
                    groups = [groups[0]]
                    ctx.branch("reuse.make_release.flat")
            if rng.random() < 0.5:
                conf["seed"] = rng.randrange(1000)
            cs0 = dict(cs0, dates=[g["date"] for g in groups], seed=conf.get("seed"), calls=ncall)

        def do_uses():
            import random
            uses = []; errors = []; schedules = []
            if not via_release:
                for i in range(k):
                    try:
                        with RngRecorder(seeds[i][0], ibmrun.tail_injector(random.Random(seeds[i][1]), 0.1)) as rec:
                            out = mk.get_location(specs[i], nums[i])
                    except Exception as e:
                        errors.append((site, "use %d of the same location raised %r" % (i, e), dict(use=i)))
                        break
                    schedules.append((i, nums[i], rec.schedule()))
                    uses.append((i, nums[i], out["longitude"], out["latitude"], out))
            else:
                for call in range(ncall):
                    try:
                        with RngRecorder(seeds[call][0], ibmrun.tail_injector(random.Random(seeds[call][1]), 0.1)):
                            out = mk.make_release(conf)
                    except Exception as e:
                        errors.append((SITE + "::make_release", "call %d of make_release with the same configuration raised %r" % (call, e), dict(call=call)))
                        break
                    for g in groups:
                        lon, lat = release_rows(out, g["gid"])
                        uses.append((g["gid"], g["num"], lon, lat, None))
            return uses, errors, schedules

        try:
            status, res = in_child(do_uses)
        finally:
            if path is not None and os.path.exists(path):
                os.unlink(path)
        if status != "ok":
            ctx.oracle(False, "C03.reuse.raises", site, "using the same location %d times: %s" % (k, res), cs0)
            continue
        uses, errors, schedules = res
        for site_, detail, extra in errors:
            ctx.oracle(False, "C03.reuse.raises", site_, detail, dict(cs0, **extra))
        for i, n, sched in schedules:
            exp = [("rand", (n,)), ("rand", (2 * n,))]
            if [tuple(x) for x in sched] != exp:
                ctx.disagreement("get_location.%s.reuse.draw_schedule" % form, "model declares %r, implementation requested %r" % (exp, sched), dict(cs0, use=i))
            else:
                ctx.schedule_matches += 1
        # ---- every use against the location as given
        for u, (i, n, lon, lat, table) in enumerate(uses):
            cs = dict(cs0, use=u, group=i, n=n)
            what = "reuse." + form
            ctx.oracle(len(lon) == n and len(lat) == n, "C03.%s.count" % what, site,
                       "use %d: %d particles requested, %d / %d returned" % (u, n, len(lon), len(lat)), cs)
            if form == "offset":
                clon, clat = given[i]
                offset_positions(ctx, mk, off, clon, clat, lon, lat, cs)
            elif form in ("poly", "multi"):
                check_positions(ctx, None, None, mk, polys, lat, lon, None, None, cs, what)
            elif table is not None:
                lens = [len(table[k_]) for k_ in ["longitude", "latitude"] + [a for a in allprops if a in table]]
                ctx.oracle(all(l == n for l in lens), "C03.geojson.count", site, "%d particles requested, returned columns have lengths %r" % (n, lens), cs)
                geojson_particles(ctx, table, flat, allprops, n, None, cs, min(lens))
            else:
                # through make_release: positions only (its table fills absent values with 0; the columns are property C01's)
                for j in range(min(len(lon), len(lat))):
                    ctx.oracle(any(geom.inside_tol(p, lon[j], lat[j]) for _, p, _ in flat), "C03.geojson.outside_polygon", site,
                               "particle %d of group %d at (%r,%r) in no polygon" % (j, i, lon[j], lat[j]), dict(cs, particle=j))


# ------------------------------------------------------------------------------------------------------------------
# A GeoJSON location given by FILE NAME, used more than once in one process while what the name refers to changes
# between the uses (round 9).  A release area is edited / regenerated under the same name (a script that rewrites
# area.geojson per farm or per scenario and calls make_release each time), the same relative name is used from another
# working directory, equally named files lie in different directories, a link is pointed at another file, or the YAML
# configuration (itself given by name) is rewritten.  "The given polygons" of a location given by name are the polygons the
# file of that name contains when the location is used: every use is judged against the document that the name referred to
# AT THE TIME OF THE CALL (plain numbers written down by the generator, read off the document by flat_of below).

FILE_LAYOUTS = ("rewrite", "replace", "remove_create", "same_stat", "chdir", "same_basename", "symlink", "config_rewritten")
FILE_EDITS = ("new_area", "moved", "props_only", "features_subset")
FILE_BASENAMES = ("area.geojson", "release_area.geojson", "område.geojson", "cage 1.json")


def doc_rings(doc):
    """the exterior rings of a FeatureCollection, per feature (RFC 7946: the first ring of a Polygon is its exterior, closed by
    repeating the first position; a MultiPolygon is a list of Polygons)"""
    for f, ft in enumerate(doc["features"]):
        g = ft["geometry"]
        for ring in ([g["coordinates"][0]] if g["type"] == "Polygon" else [p[0] for p in g["coordinates"]]):
            yield f, ft, ring


def flat_of(doc):
    """[(feature index, polygon [(lon, lat)], properties)] read off the document"""
    return [(f, [(c[0], c[1]) for c in ring[:-1]], ft.get("properties") or {}) for f, ft, ring in doc_rings(doc)]


def props_of(doc):
    names = []
    for ft in doc["features"]:
        for k_ in (ft.get("properties") or {}):
            if k_ not in names:
                names.append(k_)
    return names


def fresh_geojson(ctx, min_features=1):
    while True:
        doc, flat, feats, tags, clash = gen_geojson(ctx)
        if clash is None and len(feats) >= min_features:
            assert [(f, [tuple(q) for q in p], pr) for f, p, pr in flat] == flat_of(doc), "generator self-check: flat_of reads the document differently"
            return doc, tags


def moved_doc(rng, doc):
    """the same features and properties, every polygon moved east / west by 0.5, 1.25 or 3 times the width of the whole area
    (0.5: the old and the new area overlap); None if rounding made a polygon non-simple"""
    import copy
    new = copy.deepcopy(doc)
    pos = [c for _, _, ring in doc_rings(new) for c in ring]
    xs = [c[0] for c in pos]
    dx = rng.choice([0.5, 1.25, 3.0]) * rng.choice([-1, 1]) * (max(xs) - min(xs))
    if all(isinstance(c[0], int) for c in pos):
        dx = int(math.copysign(math.ceil(abs(dx)), dx))
    for c in pos:
        c[0] = c[0] + dx
    if not all(geom.is_simple(p) for _, p, _ in flat_of(new)):
        return None
    return new


def reprops_doc(rng, doc, rich):
    """the same polygons; property values changed, properties dropped and added"""
    import copy
    new = copy.deepcopy(doc)
    names = PROP_NAMES if rich else ("region", "farmid", "w")
    for f, ft in enumerate(new["features"]):
        pool = [f + 1, 10.5 * (f + 1), 7, "farm %d" % f, "blåskjell", "", True, False, None, -3, 0, 0.0, 1e300] if rich else [f + 1, 10.5 * (f + 1), 7, f + 11, 2.5]
        old = ft.get("properties") or {}
        props = {}
        for name in names:
            if name in old:
                t = rng.random()
                if t >= 0.2:                                       # else: dropped
                    props[name] = old[name] if t < 0.5 else rng.choice(pool)
            elif rng.random() < 0.3:
                props[name] = rng.choice(pool)
        ft["properties"] = props
    if repr([ft.get("properties") or {} for ft in new["features"]]) == repr([ft.get("properties") or {} for ft in doc["features"]]):
        new["features"][0]["properties"] = dict(new["features"][0]["properties"], region=1000 + rng.randrange(1000))
    return new


def subset_doc(rng, doc):
    """some of the features (at least one, not all), in another order"""
    import copy
    new = copy.deepcopy(doc)
    new["features"] = rng.sample(new["features"], rng.randrange(1, len(new["features"])))
    return new


def gen_versions(ctx, edit, nver):
    """nver documents: what the file name refers to, one after the other"""
    rng = ctx.rng
    base, tags = fresh_geojson(ctx, 2 if edit == "features_subset" else 1)
    docs = [base]
    for v in range(1, nver):
        new = None
        if edit == "moved":
            new = moved_doc(rng, docs[-1])
        elif edit == "props_only":
            new = reprops_doc(rng, docs[-1], "props.rich" in tags)
        elif edit == "features_subset":
            new = subset_doc(rng, base)
        if new is None:
            new = fresh_geojson(ctx)[0]
        docs.append(new)
    return docs, tags


def release_join(ctx, out, rows, flat, allprops, gid, cs, site):
    """rows `rows` of make_release's table: inside a polygon of the document, and carrying every value that the containing feature
    has (make_release's table writes 0 where there is no value and lets a release attribute of the same name take precedence: only
    values that the feature HAS are judged here, by value, and not the names that the group itself sets)"""
    for j in rows:
        x, y = out["longitude"][j], out["latitude"][j]
        owners = [(f, props) for f, p, props in flat if inside_near(p, x, y)]
        ctx.oracle(len(owners) >= 1, "C03.geojson.outside_polygon", site,
                   "row %d (group %d) at (%r,%r) in no polygon of the file as it was when make_release was called" % (j, gid, x, y), dict(cs, row=j))
        if len(owners) == 1:
            f, props = owners[0]
            for name in allprops:
                want = props.get(name)
                if name in ("depth", "gid", "date", "longitude", "latitude") or is_none(want):
                    continue
                got = out[name][j] if name in out else None
                # by value: make_release's table has one pandas column per name for all groups and features, so a number or a boolean
                # may come back in another numeric type (False next to features without the property: 0.0); text stays text
                if isinstance(want, str) or isinstance(got, str):
                    same = isinstance(want, str) and isinstance(got, str) and got == want
                else:
                    same = got is not None and bool(got == want)
                ctx.oracle(same, "C03.geojson.property_join", site,
                           "row %d (group %d) in feature %d: column %s = %r (%s), feature has %r (%s)" % (j, gid, f, name, got, type(got).__name__, want, type(want).__name__),
                           dict(cs, row=j))


def changing_file_cases(ctx, mk):
    import shutil, random
    import yaml                      # here and not in the child processes: imported once
    rng = ctx.rng
    for c in range(ctx.n(48, 700)):
        layout = rng.choice(FILE_LAYOUTS)
        edit = rng.choice(FILE_EDITS)
        via = "make_release.yaml_file" if layout == "config_rewritten" else rng.choice(["get_location", "get_location", "make_release", "make_release.yaml_file", "mixed"])
        nver = rng.choice([2, 2, 3])
        docs, tags = gen_versions(ctx, edit, nver)
        ctx.branch("changing_file.layout." + layout); ctx.branch("changing_file.edit." + edit); ctx.branch("changing_file.via." + via)
        ctx.size("changing_file.versions", nver)
        for t in tags:
            ctx.branch("changing_file.geojson." + t)
        # ---- which version the name refers to at each use: every version once or twice, in order; sometimes the first one again
        seq = []
        for v in range(nver):
            seq += [v] * rng.choice([1, 1, 2])
        if rng.random() < 0.3:
            seq.append(0); ctx.branch("changing_file.first_version_again")
        # ---- names
        base = rng.choice(FILE_BASENAMES)
        sub = rng.choice(["", "", "data"])
        if layout in ("chdir",):
            nameform = rng.choice(["rel", "dotrel"])
        elif layout in ("same_basename", "config_rewritten"):
            nameform = rng.choice(["abs", "rel"])
        else:
            nameform = rng.choice(["abs", "abs", "rel", "dotrel"])
        ctx.branch("changing_file.name." + nameform + (".subdir" if sub else ""))
        root = tempfile.mkdtemp(prefix="c03_")
        rel = os.path.join(sub, base) if sub else base
        per_version = layout in ("chdir", "same_basename", "config_rewritten", "symlink")
        vdir = [os.path.join(root, "run%d" % v) if per_version else root for v in range(nver)]
        if layout == "symlink":
            file_of = [os.path.join(vdir[v], base) for v in range(nver)]            # the link root/rel points at one of these
            cwd_of = [root] * nver
            name_of = [dict(abs=os.path.join(root, rel), rel=rel, dotrel="./" + rel)[nameform]] * nver
        elif layout == "chdir":
            file_of = [os.path.join(vdir[v], rel) for v in range(nver)]
            cwd_of = vdir
            name_of = [dict(rel=rel, dotrel="./" + rel)[nameform]] * nver
        elif per_version:
            file_of = [os.path.join(vdir[v], rel) for v in range(nver)]
            cwd_of = [root] * nver
            name_of = [file_of[v] if nameform == "abs" else os.path.join("run%d" % v, rel) for v in range(nver)]
        else:
            file_of = [os.path.join(root, rel)] * nver
            cwd_of = [root] * nver
            name_of = [dict(abs=os.path.join(root, rel), rel=rel, dotrel="./" + rel)[nameform]] * nver
        texts = [json.dumps(d, ensure_ascii=False).encode("utf-8") for d in docs]
        if layout == "same_stat":
            m = max(len(t) for t in texts)
            texts = [t + b" " * (m - len(t)) for t in texts]         # same size in bytes (white space after the document), same times
        yaml_path = os.path.join(root, "release.yaml")
        # ---- the uses (every random choice here, before the fork)
        uses = []
        for u, v in enumerate(seq):
            kind = via if via != "mixed" else rng.choice(["get_location", "make_release", "make_release.yaml_file"])
            use = dict(version=v, kind=kind, seeds=(ctx.sub_seed(), ctx.sub_seed()))
            if kind == "get_location":
                use["n"] = rng.choice([1, 3, 10, 25, 25, 2, 0])
            else:
                groups = []
                for g in range(rng.choice([1, 1, 2])):
                    d0 = "20%02d-%02d-%02d" % (rng.randrange(0, 30), rng.randrange(1, 13), rng.randrange(1, 29))
                    groups.append(dict(date=d0 if rng.random() < 0.6 else [d0, "2031-01-01T06"], num=rng.choice([1, 3, 10, 25, 25]), location=name_of[v], gid=g))
                if rng.random() < 0.3:
                    # a neighbour group with a polygon written in the configuration (its rows are not judged here)
                    groups.insert(rng.randrange(len(groups) + 1), dict(date="2015-06-01", num=rng.choice([1, 4]), gid=99,
                                                                       location=[[1.0, 2.0, 1.5], [60.0, 60.0, 61.0]]))
                if len(groups) == 1 and rng.random() < 0.5:
                    conf = dict(groups[0])
                else:
                    conf = dict(groups=groups)
                if rng.random() < 0.5:
                    conf["seed"] = rng.randrange(1000)
                use["conf"] = conf; use["groups"] = [(g["gid"], g["num"]) for g in groups if g["gid"] != 99]
            uses.append(use)
            ctx.branch("changing_file.use." + kind)
        ctx.case(key=("changing_file", layout, edit, via, c), nontrivial=any(us.get("n", 1) > 0 for us in uses))
        cs0 = dict(form="geojson by file name", layout=layout, edit=edit, name=name_of[0] if len(set(name_of)) == 1 else name_of,
                   versions=docs, uses=[(us["version"], us["kind"], us.get("n", us.get("groups"))) for us in uses])
        site = SITE + "::get_location"

        def do_uses():
            def write(path, data):
                os.makedirs(os.path.dirname(path), exist_ok=True)
                with open(path, "wb") as f:
                    f.write(data)
            os.chdir(root)
            if per_version:
                for v in range(nver):
                    write(file_of[v], texts[v])
            cur = None; st0 = None
            results = []
            for u, use in enumerate(uses):
                v = use["version"]
                if v != cur:
                    # make the name refer to version v
                    p = file_of[v]
                    if layout == "rewrite":
                        write(p, texts[v])
                    elif layout == "replace":
                        write(p + ".new", texts[v]); os.replace(p + ".new", p)
                    elif layout == "remove_create":
                        if os.path.exists(p):
                            os.unlink(p)
                        write(p, texts[v])
                    elif layout == "same_stat":
                        write(p, texts[v])
                        if st0 is None:
                            st0 = os.stat(p)
                        else:
                            os.utime(p, ns=(st0.st_atime_ns, st0.st_mtime_ns))
                    elif layout == "symlink":
                        link = os.path.join(root, rel)
                        os.makedirs(os.path.dirname(link), exist_ok=True)
                        os.symlink(p, link + ".new"); os.replace(link + ".new", link)
                    cur = v
                os.chdir(cwd_of[v])
                try:
                    with RngRecorder(use["seeds"][0], ibmrun.tail_injector(random.Random(use["seeds"][1]), 0.1)) as rec:
                        if use["kind"] == "get_location":
                            out = mk.get_location(name_of[v], use["n"])
                        elif use["kind"] == "make_release":
                            out = mk.make_release(use["conf"])
                        else:
                            with open(yaml_path, "w", encoding="utf8") as f:       # the configuration file: same name, rewritten for every use
                                yaml.safe_dump(use["conf"], f, allow_unicode=True)
                            out = mk.make_release(yaml_path)
                except Exception as e:
                    results.append(("raised", "%r" % (e,), None)); break
                results.append(("ok", out, rec.schedule()))
            return results

        try:
            status, res = in_child(do_uses)
        finally:
            shutil.rmtree(root, ignore_errors=True)
        if status != "ok":
            ctx.oracle(False, "C03.geojson.raises", site, "a GeoJSON file given by name, used %d times: %s" % (len(uses), res), cs0)
            continue
        for u, (use, (st, out, sched)) in enumerate(zip(uses, res)):
            v = use["version"]
            cs = dict(cs0, use=u, version=v)
            when = "use %d, when the name referred to version %d of the file" % (u, v)
            if st != "ok":
                ctx.oracle(False, "C03.geojson.raises", site, "%s (%s): raised %s" % (when, use["kind"], out), cs)
                continue
            flat = flat_of(docs[v]); allprops = props_of(docs[v])
            if use["kind"] == "get_location":
                n = use["n"]
                exp = [("rand", (n,)), ("rand", (2 * n,))]
                if [tuple(x) for x in sched] != exp:
                    ctx.disagreement("get_location.geojson.changing_file.draw_schedule", "model declares %r, implementation requested %r" % (exp, sched), cs)
                else:
                    ctx.schedule_matches += 1
                lens = [len(out[k_]) for k_ in ["longitude", "latitude"] + [a for a in allprops if a in out]]
                ctx.oracle(all(l == n for l in lens), "C03.geojson.count", SITE + "::get_location_file",
                           "%s: %d particles requested, returned columns have lengths %r" % (when, n, lens), cs)
                geojson_particles(ctx, out, flat, allprops, n, None, dict(cs, when=when), min(lens))
            else:
                for gid, num in use["groups"]:
                    rows = [j for j, g in enumerate(out.get("gid", [])) if g == gid]
                    ctx.oracle(len(rows) == num, "C03.geojson.count", SITE + "::make_release",
                               "%s: group %d asked for %d particles, the table has %d rows of it" % (when, gid, num, len(rows)), cs)
                    release_join(ctx, out, rows, flat, allprops, gid, dict(cs, when=when), SITE + "::make_release")


def run(ctx):
    mk = importlib.import_module("ladim_plugins.release.makrel")
    drv = Driver()
    if getattr(ctx, "widened", False):
        drv.available = False
    pend = []
    for c in range(ctx.n(250, 5000)):
        clon, clat, rr, ctag = gen_centre(ctx.rng)
        polys = gen_polys(ctx.rng, clon=clon, clat=clat, r=rr)
        n = ctx.rng.choice([0, 1, 2, 5, 17, 40])
        plat = [np.array([p[1] for p in poly]) for poly in polys]
        plon = [np.array([p[0] for p in poly]) for poly in polys]
        cs = dict(polys=polys, n=n)
        ctx.case(key=("poly", repr(polys), n), nontrivial=n > 0, sample=dict(n=n, npoly=len(polys), nvert=[len(p) for p in polys]) if c < 3 else None)
        ctx.branch("npoly=%d" % len(polys)); ctx.size("num", n); ctx.branch("latlon_from_poly.centre." + ctag)
        single = len(polys) == 1 and ctx.rng.random() < 0.5
        try:
            with RngRecorder(ctx.sub_seed(), ibmrun.tail_injector(ctx.rng, 0.1)) as rec:
                if single:
                    lat, lon, polynum = mk.latlon_from_poly(plat[0], plon[0], n)
                else:
                    lat, lon, polynum = mk.latlon_from_poly(plat, plon, n)
        except Exception as e:
            ctx.oracle(False, "C03.latlon_from_poly.raises", SITE, "raised %r" % (e,), cs)
            continue
        check_positions(ctx, drv, pend, mk, polys, lat, lon, polynum, rec, cs, "latlon_from_poly", num=n)
        exp = [("rand", (n,)), ("rand", (2 * n,))]
        if rec.schedule() != exp:
            ctx.disagreement("latlon_from_poly.draw_schedule", "model declares %r, implementation requested %r" % (exp, rec.schedule()), cs)
            continue
        ctx.schedule_matches += 1
        # triangulation from the real code (coords are (lat, lon) pairs)
        coords = [np.stack((la, lo)).T for la, lo in zip(plat, plon)]
        tris, pidx = mk.triangulate_nonconvex_multi(coords)
        for k, poly in enumerate(polys):
            ok, msg = geom.valid_triangulation([(p[1], p[0]) for p in poly], [t for t, j in zip(tris, pidx) if j == k])
            ctx.oracle(ok, "C03.triangulation.invalid", SITE + "::triangulate_nonconvex", msg, dict(cs, polygon=k))
        if drv.available and n > 0 and len(lat) == n and len(lon) == n and len(polynum) == n:
            u = rec.log[0][3]; st = rec.log[1][3]
            pts = " ".join("%s %s %s" % (F(u[i]), F(st[i]), F(st[n + i])) for i in range(n))
            j = drv.ask("sample.points", tri_toks(tris), I(n), pts)
            pend.append((j, lat, lon, polynum, pidx, cs))
        # ---- the sibling sampler of the same file (chooses fan / constrained triangulation by its own convexity test):
        #      the same polygon, started at another vertex, must be sampled inside as well
        if ctx.rng.random() < 0.4:
            poly = ctx.rng.choice(polys)
            s = ctx.rng.randrange(len(poly))
            rot = poly[s:] + poly[:s]
            n2 = ctx.rng.choice([0, 1, 7, 30])
            orient = [geom._orient(rot[i - 1], rot[i], rot[(i + 1) % len(rot)]) for i in range(len(rot))]
            convex = len(set(orient)) == 1
            reflex0 = orient[0] != (1 if geom.shoelace(rot) > 0 else -1)
            ctx.branch("get_polygon_sample." + ("convex" if convex else "nonconvex.reflex_at_start" if reflex0 else "nonconvex"))
            cs2 = dict(polygon=rot, n=n2)
            try:
                with RngRecorder(ctx.sub_seed(), ibmrun.tail_injector(ctx.rng, 0.1)):
                    x, y = mk.get_polygon_sample(np.array(rot, dtype=float), n2)
            except Exception as e:
                ctx.oracle(False, "C03.get_polygon_sample.raises", SITE + "::get_polygon_sample", "raised %r" % (e,), cs2)
            else:
                ctx.oracle(len(x) == n2 and len(y) == n2, "C03.get_polygon_sample.count", SITE + "::get_polygon_sample",
                           "%d requested, %d / %d returned" % (n2, len(x), len(y)), cs2)
                for i in range(min(len(x), len(y))):
                    ctx.oracle(geom.inside_tol(rot, x[i], y[i]), "C03.get_polygon_sample.outside_polygon", SITE + "::get_polygon_sample",
                               "sample %d at (%r, %r) is outside the polygon" % (i, x[i], y[i]), dict(cs2, particle=i))
    # ---- get_location forms: axis convention, point, offsets, geojson
    for c in range(ctx.n(150, 3000)):
        form = ctx.rng.choice(["point", "poly", "multi", "offset", "geojson", "geojson"])
        n = ctx.rng.choice([1, 3, 10, 25, 0, 2])
        ctx.case(key=("loc", form, c, n), nontrivial=n > 0); ctx.branch("form." + form); ctx.size("num." + form, n)
        if form == "point":
            lon0 = ctx.rng.uniform(-180, 180); lat0 = ctx.rng.uniform(-89, 89)
            kind = ctx.rng.choice(["float", "float", "int", "numpy", "tuple", "mixed"])
            if kind == "int":
                lon0 = int(round(lon0)); lat0 = int(round(lat0))
            elif kind == "numpy":
                lon0 = np.float64(lon0); lat0 = np.float64(lat0)
            elif kind == "mixed":
                lon0 = int(round(lon0))
            ctx.branch("point." + kind)
            spec = (lon0, lat0) if kind == "tuple" else [lon0, lat0]
            with RngRecorder(ctx.sub_seed()) as rec:
                out = mk.get_location(spec, n)
            ctx.oracle(out["longitude"] == [lon0] * n and out["latitude"] == [lat0] * n, "C03.point.not_exact", SITE + "::get_location",
                       "point (%r,%r) -> %r" % (lon0, lat0, (out["longitude"][:2], out["latitude"][:2])), dict(lon=lon0, lat=lat0, n=n))
            ctx.oracle(len(out["longitude"]) == n and len(out["latitude"]) == n, "C03.point.count", SITE + "::get_location",
                       "%d particles requested, %d / %d returned" % (n, len(out["longitude"]), len(out["latitude"])), dict(lon=lon0, lat=lat0, n=n))
            if rec.schedule() != []:
                ctx.disagreement("get_location.point.draw_schedule", "a point location draws nothing in the model, implementation requested %r" % (rec.schedule(),), dict(lon=lon0, lat=lat0, n=n))
            continue
        if form in ("poly", "multi"):
            clon, clat, rr, ctag = gen_centre(ctx.rng)
            polys = gen_polys(ctx.rng, k=1 if form == "poly" else ctx.rng.randrange(2, 4), clon=clon, clat=clat, r=rr)
            ctx.branch("get_location.centre." + ctag)
            cont = ctx.rng.choice(["list", "list", "numpy", "tuple"])
            conv = {"list": list, "numpy": np.array, "tuple": tuple}[cont]
            ctx.branch("get_location.container." + cont)
            if form == "poly":
                spec = [conv([p[0] for p in polys[0]]), conv([p[1] for p in polys[0]])]
            else:
                spec = [[conv([p[0] for p in poly]) for poly in polys], [conv([p[1] for p in poly]) for poly in polys]]
            if cont == "tuple":
                spec = tuple(spec)
            cs = dict(form=form, polys=polys, n=n, container=cont)
            try:
                with RngRecorder(ctx.sub_seed(), ibmrun.tail_injector(ctx.rng, 0.1)) as rec:
                    out = mk.get_location(spec, n)
            except Exception as e:
                ctx.oracle(False, "C03.get_location.raises", SITE + "::get_location", "raised %r" % (e,), cs)
                continue
            check_positions(ctx, drv, pend, mk, polys, out["latitude"], out["longitude"], None, None, cs, "get_location", num=n)
            check_schedule(ctx, rec, n, "get_location." + form, cs)
            continue
        if form == "offset":
            # centres anywhere, including next to / on the antimeridian and the prime meridian
            clon = ctx.rng.choice([ctx.rng.uniform(-170, 170), ctx.rng.uniform(-170, 170), 179.9, -179.95, 180.0, -180.0, 0.0, 179.9999]); clat = ctx.rng.choice([-89.0, -60.0, 0.0, 45.0, 70.0, 89.0, ctx.rng.uniform(-89, 89)])
            off = geom.random_polygon(ctx.rng, ctx.rng.uniform(-200, 200), ctx.rng.uniform(-200, 200), ctx.rng.choice([50.0, 500.0, 5000.0]))
            if ctx.rng.random() < 0.25:
                # the documented form: whole numbers of degrees and metres (YAML gives ints)
                clon = int(round(clon)); clat = max(-88, min(88, int(round(clat))))
                off = int_polygon(ctx.rng, ctx.rng.randrange(-200, 201), ctx.rng.randrange(-200, 201), ctx.rng.choice([50.0, 500.0, 5000.0]))
                ctx.branch("offset.int")
            spec = dict(center=[clon, clat], offset=[[p[0] for p in off], [p[1] for p in off]])
            cs = dict(form=form, center=[clon, clat], offset=off, n=n)
            try:
                with RngRecorder(ctx.sub_seed(), ibmrun.tail_injector(ctx.rng, 0.1)) as rec:
                    out = mk.get_location(spec, n)
            except Exception as e:
                ctx.oracle(False, "C03.offset.raises", SITE + "::get_location_offset", "raised %r" % (e,), cs)
                continue
            ctx.oracle(len(out["longitude"]) == n and len(out["latitude"]) == n, "C03.offset.count", SITE + "::get_location_offset",
                       "%d particles requested, %d / %d returned" % (n, len(out["longitude"]), len(out["latitude"])), cs)
            check_schedule(ctx, rec, n, "get_location.offset", cs)
            for i in range(min(len(out["longitude"]), len(out["latitude"]))):
                dx, dy = mk.degree_diff_to_metric(out["longitude"][i] - clon, out["latitude"][i] - clat, clat)
                scale = max(max(abs(a), abs(b)) for a, b in off) + 1
                ok = geom.inside_exact(off, dx, dy) or geom.dist_to_boundary(off, dx, dy) <= 1e-6 * scale
                ctx.oracle(ok, "C03.offset.outside_offset_polygon", SITE + "::get_location_offset",
                           "particle %d: metres (%r, %r) outside the offset polygon" % (i, dx, dy), dict(cs, particle=i))
            offset_positions(ctx, mk, off, clon, clat, out["longitude"], out["latitude"], cs)
            # mutual inverses
            dx0 = ctx.rng.uniform(-1e4, 1e4); dy0 = ctx.rng.uniform(-1e4, 1e4)
            dl, dp = mk.metric_diff_to_degrees(dx0, dy0, clat)
            bx, by = mk.degree_diff_to_metric(dl, dp, clat)
            ctx.oracle(abs(bx - dx0) <= 1e-9 * (1 + abs(dx0)) and abs(by - dy0) <= 1e-9 * (1 + abs(dy0)), "C03.conversion.not_inverse", SITE,
                       "(%r,%r) m -> deg -> (%r,%r) m at lat %r" % (dx0, dy0, bx, by, clat), dict(lat=clat))
            # inverses in both directions, sequence arguments, and the WGS84 radii: at the centre's latitude and at another one
            for lat_ in (clat, ctx.rng.choice([89.0, -89.0, 88.9, -88.9, 88.0, -88.0, 60.0, -60.0, 0.0, 60, ctx.rng.uniform(-89, 89)])):
                try:
                    conversion_checks(ctx, mk, lat_)
                except Exception as e:
                    ctx.oracle(False, "C03.conversion.raises", SITE, "conversion at reference latitude %r raised %r" % (lat_, e), dict(lat=lat_))
            continue
        # geojson
        doc, flat, feats, tags, clash = gen_geojson(ctx)
        for t in tags:
            ctx.branch("geojson." + t)
        via = ctx.rng.choice(["stream", "stream", "path"])
        ctx.branch("geojson.via." + via)
        cs = dict(form=form, geojson=doc, n=n, via=via)
        path = None
        try:
            with RngRecorder(ctx.sub_seed(), ibmrun.tail_injector(ctx.rng, 0.1)) as rec:
                if via == "stream":
                    out = mk.get_location(io.StringIO(json.dumps(doc)), n)
                else:
                    with tempfile.NamedTemporaryFile("w", suffix=".geojson", encoding="utf-8", delete=False) as fh:
                        path = fh.name
                        json.dump(doc, fh, ensure_ascii=False)       # non-ASCII names and texts as UTF-8 bytes
                    out = mk.get_location(path, n)
        except Exception as e:
            ctx.oracle(False, "C03.geojson.raises", SITE + "::get_location_file", "raised %r" % (e,), cs)
            continue
        finally:
            if path is not None and os.path.exists(path):
                os.unlink(path)
        check_schedule(ctx, rec, n, "get_location.geojson", cs)
        allprops = []
        for f_ in feats:
            for k_ in (f_.get("properties") or {}):
                if k_ not in allprops:
                    allprops.append(k_)
        lens = dict((k_, len(out[k_])) for k_ in ["longitude", "latitude"] + [a for a in allprops if a in out])
        ctx.oracle(all(l == n for l in lens.values()), "C03.geojson.count", SITE + "::get_location_file",
                   "%d particles requested, returned columns have lengths %r" % (n, lens), cs)
        if clash is not None and n > 0:
            # the table has one column of that name: if it holds the feature property (value or no value) for every particle,
            # the positions are gone.  Judged on its own, so that this explanation is not mixed with any other failure.
            vals = [pr.get(clash) if isinstance(pr, dict) else None for _, _, pr in flat]
            col = out[clash]
            if all(any(prop_same(v, w) for w in vals) for v in col):
                ctx.oracle(False, "C03.geojson.property_replaces_position", SITE + "::get_location",
                           "a feature property called %r replaces the particles' %s: %r" % (clash, clash, col[:5]), cs)
                continue
        geojson_particles(ctx, out, flat, allprops, n, clash, cs, min(lens.values()))
    reuse_cases(ctx, mk)
    changing_file_cases(ctx, mk)
    if drv.available:
        rep = drv.run()
        for j, lat, lon, polynum, pidx, cs in pend:
            st, t = rep[j]
            if st != "ok":
                ctx.disagreement("sample.points", "driver error %r" % (t,), cs); continue
            m = int(t[0])
            for i in range(m):
                x, y, k = t[1 + 3 * i: 4 + 3 * i]
                c = dict(cs, particle=i)
                if x == "none":
                    ctx.disagreement("sample.points", "model has no triangle for particle %d" % i, c); continue
                ctx.eq_bits("sample.lat", lat[i], unF(x), c)
                ctx.eq_bits("sample.lon", lon[i], unF(y), c)
                ctx.eq("sample.polynum", int(polynum[i]), int(pidx[int(k)]), c)


def replay(payload):
    print("predicate:", payload.get("predicate"), "|", payload.get("detail"))
    return False
