"""C06 — forcing fields follow the forcing files in time for every run schedule.

Correspondence: the real chemicals `Forcing` (synthetic float64 ROMS files, 1..3 files) driven through
`update(t)` on consecutive / late / gapped schedules against the Lean state machine (`Roms.init`,
`Roms.update`), bit-exact at sample cells (U with the first scalar, V with the second scalar), together with
the frame-step table (`forcing_steps`).
Oracle: served velocity (U and V, at three cells, and through `Forcing.velocity(X, Y, Z)`) = linear interpolation
in *time* of the two enclosing file frames; every scalar between the two frames and equal to the frame at
coinciding steps.  Both the chemicals pairing (chemicals Grid + Forcing) and the mine pairing
(`ladim_plugins.mine`: sedimentation Grid + chemicals Forcing) are driven.
Sessions: the property is stated per run, for every start offset and time step; a process may make several runs on the same
forcing files (consecutive runs, ensemble members, split / restarted runs, chemicals and mine side by side).  Every case is
therefore a session of 1..4 runs on one set of files, each run with its own start time, dt, schedule, stop time, module,
input_file form, ibm_forcing subset and (several files) file sub-range, created one after the other or all alive at once
with interleaved updates; every run is judged by the same oracle against the file contents and compared with the model."""
import importlib, os, tempfile, shutil
import numpy as np
from .common import Driver, F, I, L, unF, same_bits, close
from . import romsfile

RULE = ("3..8 frames with random spacing (multiples of dt, or not), 1..3 files, start on a frame / between frames (any whole number "
        "of steps after a frame, or any fraction), dt in {60, 300, 600, 900}, schedules consecutive from 0, starting late (as LADiM "
        "does when the first release is later), with gaps (no particles alive), up to the stop time = last frame or an earlier step; "
        "step numbers passed as int or numpy.int64 (as LADiM does). Configurations: gridforce module chemicals or mine; input_file as "
        "list / tuple / glob pattern / glob pattern trimmed by first_file+last_file (with decoy files outside the range); "
        "ibm_forcing [] / [temp] / [temp, salt] / [AKs, temp]; files stored as float64, float32 or int16 with per-file "
        "scale_factor/add_offset; ocean_time encoded per file in seconds/hours/days since the start or another epoch. "
        "Observed: U, V and every scalar at three cells (bottom, middle, top level) and Forcing.velocity at the matching points. "
        "Sessions: after the primary run, 0..3 further runs in the same process on the same forcing files (so 1..4 Forcing objects per file "
        "set), each with its own start (the primary's start / another frame / a whole number of steps after a frame / any fraction / the "
        "primary's last update step = restarted run), its own dt (the primary's, or any of 20..1800 s, mostly dividing the frame offsets), "
        "its own schedule kind and stop time, module chemicals or mine independently of the primary, any input_file form that resolves to the "
        "same files, an ibm_forcing subset/reordering, and with several files possibly a contiguous sub-range of them; the runs are "
        "consecutive (create, drive, close) or concurrent (all objects created first, updates interleaved round-robin). "
        "Non-trivial: every (file set, run) pair.")
ASSUMPTIONS = ["float32 and int16-scaled forcing files are judged by the oracle with a float32 tolerance and are not compared with the model; "
               "the bit-exact model comparison uses the float64 files",
               "interpolation oracle tolerance 1e-9 relative for float64 files (accumulated increments vs closed-form lerp); "
               "1e-5 relative + 5e-6 absolute for float32/int16 files (the class keeps such fields in float32: |u| <= 0.5, at most 42 "
               "accumulated float32 increments); further runs of a session may have up to 600 steps per frame interval: absolute "
               "tolerance max(5e-6, 6e-8 * steps per frame interval) there (one float32 rounding of |u| <= 0.5 per step is <= 1.5e-8)",
               "unaligned dt (known findings F-C06e-*): with strictly increasing truncated frame steps the deviation is accepted as the "
               "known finding only if the served value is the step-indexed interpolation the design limitation predicts, and no "
               "exception is accepted; anything else is reported under *.unaligned_dt.other / C06.update.raises"]
SITE = "ladim_plugins/chemicals/gridforce.py::Forcing.update"
SITE_INIT = "ladim_plugins/chemicals/gridforce.py::Forcing.__init__"
SITE_VEL = "ladim_plugins/chemicals/gridforce.py::Forcing.velocity"

NX, NY, NLEV = 7, 6, 3            # whole grid 7 x 6, default subgrid: imax = 5, jmax = 4
EPOCHS = ["1970-01-01 00:00:00", "1948-01-01 00:00:00", "2015-01-01 00:00:00"]
NAME_SETS = [[], ["temp"], ["temp"], ["temp", "salt"], ["AKs", "temp"]]


def gen_case(rng):
    dt = rng.choice([60, 300, 600, 900])
    nfr = rng.randrange(3, 9)
    aligned = rng.random() < 0.8
    gaps = [rng.choice([1, 2, 3, 6]) * dt if aligned else rng.choice([dt, 2 * dt, 700, 1000, 1800]) for _ in range(nfr - 1)]
    rel = np.concatenate([[0], np.cumsum(gaps)]).astype(int)     # frame times relative to the first frame
    mode = rng.choice(["on_frame", "on_frame", "between", "on_later_frame"])
    if mode == "on_frame":
        start_off = 0
    elif mode == "on_later_frame":
        start_off = int(rel[rng.randrange(0, nfr - 1)])
    else:
        k = rng.randrange(0, nfr - 1)
        span = int(rel[k + 1] - rel[k])
        if aligned and span > dt and rng.random() < 0.85:
            start_off = int(rel[k]) + rng.randrange(1, span // dt) * dt      # any whole number of steps after frame k, before frame k+1
        else:
            start_off = int(rel[k] + (rng.choice([dt, 2 * dt]) if aligned and span > dt else rng.randrange(1, max(2, span))))
        start_off = min(start_off, int(rel[k + 1]) - 1)
    frame_times = (rel - start_off).tolist()             # seconds since simulation start
    last = frame_times[-1]
    tmax = last // dt
    # stop time: the last frame, or an earlier model step (the forcing period then extends beyond the run)
    stop_step = None
    if tmax >= 2 and rng.random() < 0.3:
        stop_step = rng.randrange(1, tmax)
    send = tmax if stop_step is None else stop_step
    kind = rng.choice(["consecutive", "late", "gaps", "late_gaps"])
    sched = []
    t = 0 if kind in ("consecutive", "gaps") else rng.randrange(0, max(1, send // 2 + 1))
    while t <= send and len(sched) < 60:
        sched.append(int(t))
        t += 1 if kind in ("consecutive", "late") or rng.random() < 0.6 else rng.randrange(2, 6)
    nfiles = min(rng.randrange(1, 4), nfr - 1) or 1
    # configuration dimensions
    plugin = rng.choice(["chemicals", "chemicals", "mine"])
    form = rng.choice(["list", "list", "tuple", "pattern", "pattern_first_last"])
    storage = rng.choice(["f8", "f8", "f8", "f4", "int16", "int16"])
    names = list(rng.choice(NAME_SETS))
    units = []
    for _ in range(nfiles):
        units.append(None if rng.random() < 0.5 else [rng.choice(["seconds", "hours", "days"]), rng.choice([None] + EPOCHS)])
    cells = [[1, 2, 2], [0, rng.randrange(0, 4), rng.randrange(0, 5)], [NLEV - 1, rng.randrange(0, 4), rng.randrange(0, 5)]]
    return dict(dt=dt, frame_times=frame_times, sched=sched, kind=kind, mode=mode, aligned=aligned, nfiles=nfiles,
                stop_step=stop_step, plugin=plugin, form=form, storage=storage, names=names, units=units, cells=cells,
                t_np=rng.random() < 0.5)


def _pack_for(rng, names):
    """per-file int16 packing: different scale factors for u and v, an offset for the scalars (velocities: offset 0, as the class assumes)"""
    pack = {"u": (rng.choice([0.001, 0.0005, 0.002]), 0.0), "v": (rng.choice([0.001, 0.0005, 0.002]), 0.0)}
    for nm in names:
        if nm == "AKs":
            pack[nm] = (rng.choice([1e-6, 5e-7]), rng.choice([0.0, 0.005]))
        else:
            pack[nm] = (rng.choice([0.001, 0.0005]), rng.choice([5.0, 0.0, 10.0]))
    return pack


def _lerp(x, xs, vals):
    b = int(np.searchsorted(xs, x, side="right") - 1)
    b = max(0, min(b, len(xs) - 2))
    w = (x - xs[b]) / (xs[b + 1] - xs[b])
    return vals[b] + w * (vals[b + 1] - vals[b]), b


DT_FOLLOW = [20, 30, 60, 100, 120, 150, 200, 300, 450, 600, 900, 1200, 1800]


def _gen_sched(rng, send):
    """an increasing sequence of update steps that LADiM can issue, up to step `send` (same distribution as gen_case)"""
    kind = rng.choice(["consecutive", "late", "gaps", "late_gaps"])
    sched = []
    t = 0 if kind in ("consecutive", "gaps") else rng.randrange(0, max(1, send // 2 + 1))
    while t <= send and len(sched) < 60:
        sched.append(int(t))
        t += 1 if kind in ("consecutive", "late") or rng.random() < 0.6 else rng.randrange(2, 6)
    return kind, sched


def gen_follower(rng, case, parts, decoys):
    """A further run made by the same process on the forcing files of `case` (consecutive runs, ensemble members, split or
    restarted runs, chemicals and mine sharing one forcing class): its own start time, time step, schedule, stop time, module,
    input_file form, ibm_forcing subset and - with several files - possibly a contiguous sub-range of the files.
    parts: frame times (s after the primary start) of each file.  All times in the result are relative to the primary start."""
    dt0 = case["dt"]; nf = len(parts)
    a, b = 0, nf
    if nf > 1 and rng.random() < 0.3:
        ranges = [(i, j) for i in range(nf) for j in range(i + 1, nf + 1) if (i, j) != (0, nf) and sum(len(p) for p in parts[i:j]) >= 2]
        if ranges:
            a, b = rng.choice(ranges)
    sub = [int(x) for p in parts[a:b] for x in p]            # frame times served by these files
    want = rng.choice(["same", "other_start", "other_start", "other_dt", "other_dt", "both", "both", "restart"])

    def valid_start(s):
        return sub[0] <= s < sub[-1]
    if want in ("same", "other_dt") and not valid_start(0):
        want = "both" if want == "other_dt" else "other_start"
    if want == "restart":
        s_r = int(case["sched"][-1]) * dt0                   # the split run continues where the first run made its last update
        if not (s_r > 0 and valid_start(s_r)):
            want = "other_start"
    # time step
    dt2 = dt0
    if want in ("other_dt", "both"):
        span = sub[-1] - sub[0]
        cands = [d for d in DT_FOLLOW if d != dt0 and span // d <= 600]
        ref = 0 if want == "other_dt" else sub[0]
        al = [d for d in cands if all((x - ref) % d == 0 for x in sub)]
        dt2 = rng.choice(al) if (al and rng.random() < 0.8) else rng.choice(cands)
    # start
    mode = "primary_start"
    if want in ("same", "other_dt"):
        s = 0
    elif want == "restart":
        s = s_r; mode = "restart"
    else:
        mode = rng.choice(["on_frame", "between", "between", "fraction"])
        k = rng.randrange(0, len(sub) - 1)
        span_k = sub[k + 1] - sub[k]
        if mode == "between" and (span_k - 1) // dt2 >= 1:
            s = sub[k] + rng.randrange(1, (span_k - 1) // dt2 + 1) * dt2     # a whole number of steps after frame k, before frame k+1
        elif mode == "fraction" and span_k >= 2:
            s = sub[k] + rng.randrange(1, span_k)
        else:
            s = sub[k]; mode = "on_frame"
    assert valid_start(s)
    ft2 = [x - s for x in sub]
    tmax = ft2[-1] // dt2
    stop_step = rng.randrange(1, tmax) if (tmax >= 2 and rng.random() < 0.3) else None
    kind, sched = _gen_sched(rng, tmax if stop_step is None else stop_step)
    forms = ["list", "list", "tuple", "pattern_first_last"] + (["pattern"] if (not decoys and (a, b) == (0, nf)) else [])
    names = list(case["names"])
    names = rng.choice([names, names, names[:1], names[::-1], []])
    relation = ("same_start" if s == 0 else "other_start") + "." + ("same_dt" if dt2 == dt0 else "other_dt")
    return dict(role="follower", dt=dt2, start=int(s), frange=[a, b], frame_times=ft2, sched=sched, kind=kind, stop_step=stop_step,
                plugin=rng.choice(["chemicals", "mine"]), form=rng.choice(forms), names=list(names), t_np=rng.random() < 0.5,
                relation=relation, mode=mode)


def run(ctx):
    G = importlib.import_module("ladim_plugins.chemicals.gridforce")
    MINE = importlib.import_module("ladim_plugins.mine")
    drv = Driver()
    if getattr(ctx, "widened", False):
        drv.available = False
    pend = []
    tmp = tempfile.mkdtemp(prefix="verif_c06_")
    try:
        for c in range(ctx.n(100, 1000)):
            case = gen_case(ctx.rng)
            if not case["sched"]:
                continue
            storage = case["storage"]
            # split the frames over files
            nf = case["nfiles"]
            ft0 = case["frame_times"]
            cuts = sorted(ctx.rng.sample(range(1, len(ft0)), nf - 1)) if nf > 1 else []
            parts = [ft0[a:b] for a, b in zip([0] + cuts, cuts + [len(ft0)])]
            t0 = np.datetime64("2015-09-07T01:00:00")
            t0s = str(t0).replace("T", " ")
            cdir = os.path.join(tmp, "c%d" % c)
            os.makedirs(cdir)
            files = []; fr = {"u": [], "v": []}
            for nm in case["names"]:
                fr[nm] = []

            def write(path, part, u_i):
                kw = {}
                if storage == "int16":
                    kw["pack"] = _pack_for(ctx.rng, case["names"])
                if case["units"][u_i] is not None:
                    kw["time_unit"], kw["epoch"] = case["units"][u_i]
                return romsfile.write_roms(path, ctx.rng, nx=NX, ny=NY, N=NLEV, frame_times=[int(x) for x in part], t0=t0s,
                                           fields=tuple(case["names"]), dtype="f4" if storage == "f4" else "f8", **kw)

            for p_i, part in enumerate(parts):
                path = os.path.join(cdir, "f%02d.nc" % (p_i + 1))
                out = write(path, part, p_i)
                files.append(path)
                for key in fr:
                    fr[key].append(out[key])
            if case["form"] == "pattern_first_last":
                # decoy files matched by the pattern but outside [first_file, last_file]: same times as the adjacent file, other values
                write(os.path.join(cdir, "f00.nc"), parts[0], 0)
                write(os.path.join(cdir, "f99.nc"), parts[-1], len(parts) - 1)
            # ---- the session: the primary run and 0..3 further runs of the same process on the same forcing files
            primary = dict(role="primary", dt=case["dt"], start=0, frange=[0, nf], frame_times=ft0, sched=case["sched"], kind=case["kind"],
                           stop_step=case["stop_step"], plugin=case["plugin"], form=case["form"], names=list(case["names"]), t_np=case["t_np"])
            nfollow = ctx.rng.choice([0, 1, 1, 2, 2, 3])
            followers = [gen_follower(ctx.rng, case, parts, case["form"] == "pattern_first_last") for _ in range(nfollow)]
            # concurrent: all Forcing objects exist at the same time and are updated in turn (ensemble members in one process);
            # otherwise each run is created, driven and closed before the next one
            concurrent = nfollow > 0 and ctx.rng.random() < 0.3
            specs = [primary] + followers
            ctx.case(key=repr(case), nontrivial=True, sample=case if c < 3 else None)
            ctx.branch("schedule." + case["kind"]); ctx.branch("start." + case["mode"]); ctx.branch("aligned" if case["aligned"] else "unaligned_dt")
            ctx.branch("plugin." + case["plugin"]); ctx.branch("input." + case["form"]); ctx.branch("storage." + storage)
            ctx.branch("ibm_forcing." + ("+".join(case["names"]) or "none"))
            ctx.branch("stop.last_frame" if case["stop_step"] is None else "stop.before_last_frame")
            ctx.branch("t_type.np_int64" if case["t_np"] else "t_type.int")
            for un in case["units"]:
                ctx.branch("time_units.default" if un is None else "time_units.%s.%s" % (un[0], "start" if un[1] is None else un[1][:4]))
            ctx.branch("session.runs_%d" % len(specs))
            if nfollow:
                ctx.branch("session.concurrent" if concurrent else "session.sequential")

            def open_run(spec, idx):
                """configuration, Grid and Forcing of one run; None when the initialisation failed (reported)"""
                dt = spec["dt"]; ft = spec["frame_times"]; names = spec["names"]; form = spec["form"]
                a, b = spec["frange"]; fl = files[a:b]
                ALL = {key: np.concatenate(fr[key][a:b]) for key in ["u", "v"] + list(names)}
                gf = {}
                if form == "list":
                    gf["input_file"] = list(fl)
                elif form == "tuple":
                    gf["input_file"] = tuple(fl)
                else:
                    gf["input_file"] = os.path.join(cdir, "f*.nc")
                    if form == "pattern_first_last":
                        gf["first_file"] = fl[0]; gf["last_file"] = fl[-1]
                if spec["plugin"] == "mine" and form in ("list", "tuple"):
                    gf["grid_file"] = fl[0]          # the mine Grid (ladim ROMS Grid) takes a single file name or a pattern
                start = t0 + np.timedelta64(int(spec["start"]), "s")
                stop_s = int(ft[-1]) if spec["stop_step"] is None else int(spec["stop_step"] * dt)
                conf = dict(gridforce=gf, start_time=start, stop_time=start + np.timedelta64(stop_s, "s"), dt=dt, ibm_forcing=list(names))
                cs = dict(case=case, files=len(fl))
                lbl = ""
                if len(specs) > 1:
                    cs.update(session=specs[:idx + 1] if not concurrent else specs, run=idx, concurrent=concurrent)
                    lbl = ("[run %d of %d %s runs of one process on the same forcing files: start %+d s, dt %d s, files %d..%d, %s] "
                           % (idx + 1, len(specs), "concurrent" if concurrent else "consecutive", spec["start"], dt, a + 1, b, spec["plugin"]))
                if idx > 0:
                    ctx.case(key=repr((case, idx, spec)), nontrivial=True)
                    ctx.branch("follower.relation." + spec["relation"]); ctx.branch("follower.start." + spec["mode"])
                    ctx.branch("follower.dt_%d" % dt); ctx.branch("follower.schedule." + spec["kind"])
                    ctx.branch("follower.plugin.%s_after_%s" % (spec["plugin"], primary["plugin"]))
                    ctx.branch("follower.input." + form + ("" if form == primary["form"] else ".other_than_primary"))
                    ctx.branch("follower.files.all" if (a, b) == (0, nf) else "follower.files.subrange")
                    ctx.branch("follower.ibm_forcing." + ("same" if names == primary["names"] else "+".join(names) or "none"))
                    ctx.branch("follower.aligned" if all(x % dt == 0 for x in ft) else "follower.unaligned_dt")
                    ctx.branch("follower.stop.last_frame" if spec["stop_step"] is None else "follower.stop.before_last_frame")
                GridC, ForC = (MINE.Grid, MINE.Forcing) if spec["plugin"] == "mine" else (G.Grid, G.Forcing)
                try:
                    grid = GridC(conf); f = ForC(conf, grid)
                except SystemExit as e:
                    # every generated configuration is valid: the forcing period covers [start, stop], the frames are strictly
                    # increasing in time and the files exist
                    ctx.branch("rejected_by_forcing_init")
                    ctx.oracle(False, "C06.init.rejected", SITE_INIT, lbl + "Grid/Forcing initialisation exits (%r) for a forcing period that covers the run: "
                               "frames %r s, stop %d s, input %s" % (e, ft, stop_s, form), cs)
                    return None
                except Exception as e:
                    ctx.oracle(False, "C06.init.raises", SITE_INIT, lbl + "Grid/Forcing initialisation raised %r: frames %r s, stop %d s, input %s, time units %r"
                               % (e, ft, stop_s, form, case["units"]), cs)
                    return None
                # frame values at the sample cells, as the class reads them: U[frame, k, Ju, Iu] with Iu = slice(i0-1, i1),
                # V[frame, k, Jv, Iv] with Jv = slice(j0-1, j1), scalars [frame, k, J, I]
                cells = [tuple(x) for x in case["cells"]]
                uvals = [ALL["u"][:, k, grid.j0 + j, grid.i0 - 1 + i] for k, j, i in cells]
                vvals = [ALL["v"][:, k, grid.j0 - 1 + j, grid.i0 + i] for k, j, i in cells]
                svals = {nm: [ALL[nm][:, k, grid.j0 + j, grid.i0 + i] for k, j, i in cells] for nm in names}
                # points where Forcing.velocity returns exactly one U (resp. V) node: X on a U-point, Y on a row, Z in the middle of layer k
                zw = np.asarray(grid.z_w)

                def zmid(k, jc, ic):
                    jc = max(0, min(int(jc), zw.shape[1] - 1)); ic = max(0, min(int(ic), zw.shape[2] - 1))
                    return -0.5 * (zw[k, jc, ic] + zw[k + 1, jc, ic])
                XU = np.array([grid.i0 + i - 0.5 for k, j, i in cells]); YU = np.array([float(grid.j0 + j) for k, j, i in cells])
                ZU = np.array([zmid(k, j, np.around(i - 0.5)) for k, j, i in cells])
                XV = np.array([float(grid.i0 + i) for k, j, i in cells]); YV = np.array([grid.j0 + j - 0.5 for k, j, i in cells])
                ZV = np.array([zmid(k, np.around(j - 0.5), i) for k, j, i in cells])
                return dict(spec=spec, idx=idx, f=f, grid=grid, cs=cs, lbl=lbl, cells=cells, uvals=uvals, vvals=vvals, svals=svals,
                            pts=(XU, YU, ZU, XV, YV, ZV), served=[], err=None)

            def step_run(R, i):
                """the i-th update of the run's schedule, and the observation after it"""
                spec = R["spec"]
                if R["err"] is not None or i >= len(spec["sched"]):
                    return
                f = R["f"]; cells = R["cells"]; names = spec["names"]; XU, YU, ZU, XV, YV, ZV = R["pts"]
                t = spec["sched"][i]
                try:
                    f.update(np.int64(t) if spec["t_np"] else t)
                    su = f.velocity(XU, YU, ZU)[0]; sv = f.velocity(XV, YV, ZV)[1]
                    R["served"].append(dict(U=[float(f.U[cl]) for cl in cells], V=[float(f.V[cl]) for cl in cells],
                                            S={nm: [float(f[nm][cl]) for cl in cells] for nm in names},
                                            velU=[float(x) for x in su], velV=[float(x) for x in sv]))
                except (Exception, SystemExit) as e:
                    R["err"] = e

            def finish_run(R):
                """close the run and judge everything it served against the file contents"""
                spec = R["spec"]; f = R["f"]; cs = R["cs"]; lbl = R["lbl"]; cells = R["cells"]
                dt = spec["dt"]; ft = spec["frame_times"]; sched = spec["sched"]; names = spec["names"]
                uvals = R["uvals"]; vvals = R["vvals"]; svals = R["svals"]; served = R["served"]; err = R["err"]
                try:
                    f.close()
                except Exception:
                    pass
                aligned_frames = all(x % dt == 0 for x in ft)
                steps_h = [int(x / dt) for x in ft]                   # the step table of the class: offsets truncated to whole steps
                strict_h = all(x < y for x, y in zip(steps_h[:-1], steps_h[1:]))
                if not aligned_frames:
                    ctx.branch("unaligned.strict_steps" if strict_h else "unaligned.duplicate_steps")
                if err is not None:
                    # F-C06e-R (exception) is caused by two frames truncated to the same step; with distinct steps no exception is known
                    ctx.oracle(False, "C06.update.raises" if (aligned_frames or strict_h) else "C06.update.raises_unaligned_dt", SITE,
                               lbl + "update raised %r at schedule %r" % (err, sched), cs)
                    return
                # oracle in *time*
                ft_arr = np.array(ft, dtype=float)
                st_arr = np.array(steps_h, dtype=float)
                if storage == "f8":
                    vrel, vabs, sabs = 1e-9, 1e-12, 1e-9
                else:
                    # the class keeps float32 / int16-scaled fields in float32 (eps 6e-8): |u| <= 0.5, <= 42 accumulated increments;
                    # decoded scalars |s| <= 10 with float32 scale/offset arithmetic
                    vrel, vabs, sabs = 1e-5, 5e-6, 2e-6
                    if spec["role"] != "primary":
                        # further runs may use a smaller time step than the primary: up to 600 accumulated float32 increments of
                        # one frame interval, each rounded with <= 0.5 ulp(1) = 6e-8 for |u| <= 1: <= 3.6e-5 absolute
                        vabs = max(vabs, 6e-8 * max(y - x for x, y in zip(steps_h[:-1], steps_h[1:])))

                def judge_velocity(val, vals, t, what, site, aligned_pred):
                    tm = t * dt
                    want, _ = _lerp(tm, ft_arr, vals)
                    okv = close(val, want, vrel, vabs)
                    if aligned_frames:
                        pred = aligned_pred
                    elif not strict_h:
                        pred = "C06.velocity.unaligned_dt"
                    else:
                        # known finding F-C06e-U narrowed: the design limitation predicts interpolation between the frames placed at
                        # their truncated steps; any other value is not the known finding
                        want_s, _ = _lerp(float(t), st_arr, vals)
                        pred = "C06.velocity.unaligned_dt" if close(val, want_s, vrel, vabs) else "C06.velocity.unaligned_dt.other"
                    # the unaligned-dt deviation is that of the stored field (known finding at Forcing.update), whichever way it is observed
                    ctx.oracle(okv, pred, site if aligned_frames else SITE, lbl + "step %d (%d s): served %s=%r, time-interpolated frames give %r (schedule %r)"
                               % (t, tm, what, val, want, sched[:8]), dict(cs, step=t, field=what))

                def judge_scalar(s, vals, t, what):
                    tm = t * dt
                    _, b = _lerp(tm, ft_arr, vals)
                    lo, hi = min(vals[b], vals[b + 1]), max(vals[b], vals[b + 1])
                    eq = (lambda a, b_: same_bits(a, b_)) if storage != "int16" else (lambda a, b_: close(a, b_, 1e-6, sabs))
                    # step-indexed expectation (what the design limitation F-C06e predicts), used only to narrow the known finding
                    step_ok = True
                    if not aligned_frames and strict_h:
                        if t in steps_h:
                            q = steps_h.index(t)
                            step_ok = eq(s, vals[q]) or (t == 0 and q == 0 and q + 1 < len(vals) and eq(s, vals[q + 1]))   # F-C06a in step space
                        else:
                            _, bs = _lerp(float(t), st_arr, vals)
                            step_ok = min(vals[bs], vals[bs + 1]) - sabs <= s <= max(vals[bs], vals[bs + 1]) + sabs
                    una = "C06.scalar.unaligned_dt" if step_ok else "C06.scalar.unaligned_dt.other"
                    if tm in ft:
                        fr_i = ft.index(tm)
                        # known finding F-C06a: starting ON THE FIRST FRAME (start-on-frame branch of the initialisation), at the start step
                        # the scalar holds exactly the NEXT frame
                        nxt = fr_i + 1 < len(vals) and eq(s, vals[fr_i + 1])      # bit-equal (float32 tolerance for int16-scaled files)
                        pred = "C06.scalar.on_frame" if (t > 0 or not aligned_frames or not nxt or ft[0] != 0) else "C06.scalar.t0_next_frame"
                        if not aligned_frames: pred = una
                        ctx.oracle(eq(s, vals[fr_i]), pred, SITE,
                                   lbl + "step %d coincides with frame %d: served %s %r, frame holds %r" % (t, fr_i, what, s, vals[fr_i]), dict(cs, step=t, field=what))
                    else:
                        pred = "C06.scalar.outside_bracket" if aligned_frames else una
                        ctx.oracle(lo - sabs <= s <= hi + sabs, pred, SITE,
                                   lbl + "step %d: served %s %r outside the two enclosing frames [%r, %r]" % (t, what, s, lo, hi), dict(cs, step=t, field=what))

                for t, sv in zip(sched, served):
                    tm = t * dt
                    if tm < ft_arr[0] or tm > ft_arr[-1]:
                        continue
                    for ci, cl in enumerate(cells):
                        judge_velocity(sv["U"][ci], uvals[ci], t, "U%r" % (cl,), SITE, "C06.velocity.not_interpolated")
                        judge_velocity(sv["V"][ci], vvals[ci], t, "V%r" % (cl,), SITE, "C06.velocity.not_interpolated")
                        judge_velocity(sv["velU"][ci], uvals[ci], t, "velocity(X,Y,Z)[0] at the U-node %r" % (cl,), SITE_VEL,
                                       "C06.velocity.sampled_not_interpolated")
                        judge_velocity(sv["velV"][ci], vvals[ci], t, "velocity(X,Y,Z)[1] at the V-node %r" % (cl,), SITE_VEL,
                                       "C06.velocity.sampled_not_interpolated")
                        for nm in names:
                            judge_scalar(sv["S"][nm][ci], svals[nm][ci], t, "%s%r" % (nm, cl))
                strictly = all(x < y for x, y in zip(f.steps[:-1], f.steps[1:]))
                if not strictly:
                    ctx.branch("duplicate_steps_outside_model_domain")     # unaligned dt: covered by the known findings F-C06e-*
                if drv.available and strictly and storage == "f8":
                    a = drv.ask("roms.steps", I(dt), L(ft, I))
                    zeros = np.zeros(len(ft))
                    # (velocity component, scalar) pairs at the first cell: U with the first scalar, V with the last scalar
                    pairs = [("U", uvals[0], [x["U"][0] for x in served], names[0] if names else None),
                             ("V", vvals[0], [x["V"][0] for x in served], names[-1] if names else None)]
                    for p_i, (comp, cv, cserved, nm) in enumerate(pairs):
                        sv_f = svals[nm][0] if nm else zeros
                        sserved = [x["S"][nm][0] for x in served] if nm else [0.0] * len(served)
                        fr_toks = " ".join("%d %s %s" % (st_, F(uv), F(sv_)) for st_, uv, sv_ in zip(f.steps, cv, sv_f))
                        b0 = drv.ask("roms.run", "1 1 0", I(len(f.steps)), fr_toks, L(sched, I))
                        b1 = drv.ask("roms.run", "1 1 1", I(len(f.steps)), fr_toks, L(sched, I))
                        pend.append((a if p_i == 0 else None, b0, b1, list(f.steps), list(zip(cserved, sserved)), dict(cs, component=comp, scalar=nm), comp))

            if not concurrent:
                for idx, spec in enumerate(specs):
                    R = open_run(spec, idx)
                    if R is None:
                        continue
                    for i in range(len(spec["sched"])):
                        step_run(R, i)
                    finish_run(R)
            else:
                Rs = [R for R in (open_run(spec, idx) for idx, spec in enumerate(specs)) if R is not None]
                for i in range(max(len(s_["sched"]) for s_ in specs)):
                    for R in Rs:
                        step_run(R, i)
                for R in Rs:
                    finish_run(R)
    finally:
        shutil.rmtree(tmp, ignore_errors=True)
    if drv.available:
        rep = drv.run()
        for a, b0, b1, steps, served, cs, comp in pend:
            if a is not None:
                ms = [int(x) for x in rep[a][1][1:]]
                ctx.eq("forcing_steps", [int(s) for s in steps], ms, cs)
            best = None
            for b in (b0, b1):
                st, t = rep[b]
                if st != "ok" or t[0] != "init":
                    continue
                vals = [(unF(t[1 + 2 * i]), unF(t[2 + 2 * i])) for i in range(len(served))]
                okU = all(same_bits(x[0], y[0]) for x, y in zip(served, vals))
                okS = all(same_bits(x[1], y[1]) for x, y in zip(served, vals))
                if best is None or (okU and okS):
                    best = (okU, okS, vals, b is b1)
            if best is None:
                ctx.disagreement("roms.run", "model could not initialise", cs); continue
            ctx.bit_exact += 2 * len(served)
            if not best[0]:
                ctx.disagreement("forcing." + comp, "impl=%r model=%r" % ([x[0] for x in served][:6], [x[0] for x in best[2]][:6]), cs)
            if not best[1]:
                ctx.disagreement("forcing.scalar", "impl=%r model=%r" % ([x[1] for x in served][:6], [x[1] for x in best[2]][:6]), cs)
            if cs.get("scalar"):
                ctx.branch("scalar_init_current" if best[3] else "scalar_init_next")


def replay(payload):
    print("predicate:", payload.get("predicate"), "|", payload.get("detail"))
    return False
