"""C06 — forcing fields follow the forcing files in time for every run schedule.

Correspondence: the real chemicals `Forcing` (synthetic float64 ROMS files, 1..3 files) driven through
`update(t)` on consecutive / late / gapped schedules against the Lean state machine (`Roms.init`,
`Roms.update`), bit-exact at sample cells, together with the frame-step table (`forcing_steps`).
Oracle: served velocity = linear interpolation in *time* of the two enclosing file frames; scalars between
the two frames and equal to the frame at coinciding steps."""
import importlib, os, tempfile, shutil
import numpy as np
from .common import Driver, F, I, L, unF, same_bits, close
from . import romsfile

RULE = ("3..8 frames with random spacing (multiples of dt, or not), 1..3 files, start on a frame / between frames / any fraction, "
        "dt in {60, 300, 600, 900}, schedules consecutive from 0, starting late (as LADiM does when the first release is later), with "
        "gaps (no particles alive), up to the last frame. Non-trivial: every (file set, schedule) pair.")
ASSUMPTIONS = ["float32 forcing files (the shipped int16-scaled file) are not compared bit-exactly; synthetic files are float64",
               "interpolation oracle tolerance 1e-9 relative (accumulated increments vs closed-form lerp)"]
SITE = "ladim_plugins/chemicals/gridforce.py::Forcing.update"


def gen_case(rng):
    dt = rng.choice([60, 300, 600, 900])
    nfr = rng.randrange(3, 9)
    aligned = rng.random() < 0.8
    gaps = [rng.choice([1, 2, 3, 6]) * dt if aligned else rng.choice([dt, 2 * dt, 700, 1000, 1800]) for _ in range(nfr - 1)]
    rel = np.concatenate([[0], np.cumsum(gaps)]).astype(int)     # frame times relative to the first frame
    mode = rng.choice(["on_frame", "on_frame", "between", "on_later_frame"])
    if mode == "on_frame":
        start_off = 0
    elif mode == "on_later_frame":
        start_off = int(rel[rng.randrange(0, nfr - 1)])
    else:
        k = rng.randrange(0, nfr - 1)
        span = rel[k + 1] - rel[k]
        start_off = int(rel[k] + (rng.choice([dt, 2 * dt]) if aligned and span > dt else rng.randrange(1, max(2, span))))
        start_off = min(start_off, int(rel[k + 1]) - 1)
    frame_times = (rel - start_off).tolist()             # seconds since simulation start
    last = frame_times[-1]
    tmax = last // dt
    kind = rng.choice(["consecutive", "late", "gaps", "late_gaps"])
    sched = []
    t = 0 if kind in ("consecutive", "gaps") else rng.randrange(0, max(1, tmax // 2 + 1))
    while t <= tmax and len(sched) < 60:
        sched.append(int(t))
        t += 1 if kind in ("consecutive", "late") or rng.random() < 0.6 else rng.randrange(2, 6)
    nfiles = rng.randrange(1, 4)
    return dict(dt=dt, frame_times=frame_times, sched=sched, kind=kind, mode=mode, aligned=aligned, nfiles=min(nfiles, nfr - 1) or 1)


def run(ctx):
    G = importlib.import_module("ladim_plugins.chemicals.gridforce")
    drv = Driver()
    if getattr(ctx, "widened", False):
        drv.available = False
    pend = []
    tmp = tempfile.mkdtemp(prefix="verif_c06_")
    try:
        for c in range(ctx.n(60, 800)):
            case = gen_case(ctx.rng)
            dt = case["dt"]; ft = case["frame_times"]; sched = case["sched"]
            if not sched:
                continue
            # split the frames over files
            nf = case["nfiles"]
            cuts = sorted(ctx.rng.sample(range(1, len(ft)), nf - 1)) if nf > 1 else []
            parts = [ft[a:b] for a, b in zip([0] + cuts, cuts + [len(ft)])]
            t0 = np.datetime64("2015-09-07T01:00:00")
            files = []; frames_u = []; frames_s = []
            cell = (1, 2, 2)            # (k, j, i) within the subgrid arrays U[k, j, i+?]
            for p_i, part in enumerate(parts):
                path = os.path.join(tmp, "c%d_f%d.nc" % (c, p_i))
                out = romsfile.write_roms(path, ctx.rng, nx=7, ny=6, N=3, frame_times=[int(x) for x in part],
                                          t0=str(t0).replace("T", " "), fields=("temp",))
                files.append(path)
                frames_u.append(out["u"]); frames_s.append(out["temp"])
            U_all = np.concatenate(frames_u); S_all = np.concatenate(frames_s)
            conf = dict(gridforce=dict(input_file=files), start_time=t0, stop_time=t0 + np.timedelta64(int(ft[-1]), "s"),
                        dt=dt, ibm_forcing=["temp"])
            cs = dict(case=case, files=len(files))
            ctx.case(key=repr(case), nontrivial=True, sample=case if c < 3 else None)
            ctx.branch("schedule." + case["kind"]); ctx.branch("start." + case["mode"]); ctx.branch("aligned" if case["aligned"] else "unaligned_dt")
            try:
                grid = G.Grid(conf); f = G.Forcing(conf, grid)
            except SystemExit as e:
                ctx.branch("rejected_by_forcing_init"); continue
            # frame values at the sample cell, as the class reads them: U[frame, k, Ju, Iu] with Iu = slice(i0-1, i1)
            k, j, i = cell
            uvals = U_all[:, k, grid.j0 + j, grid.i0 - 1 + i]
            svals = S_all[:, k, grid.j0 + j, grid.i0 + i]
            served = []
            try:
                for t in sched:
                    f.update(t)
                    served.append((float(f.U[k, j, i]), float(f.temp[k, j, i])))
                err = None
            except Exception as e:
                err = e
            try:
                f.close()
            except Exception:
                pass
            if err is not None:
                ctx.oracle(False, "C06.update.raises" if all(x % dt == 0 for x in ft) else "C06.update.raises_unaligned_dt", SITE,
                           "update raised %r at schedule %r" % (err, sched), cs)
                continue
            # oracle in *time*
            ft_arr = np.array(ft, dtype=float)
            aligned_frames = all(x % dt == 0 for x in ft)
            for t, (u, s) in zip(sched, served):
                tm = t * dt
                if tm < ft_arr[0] or tm > ft_arr[-1]:
                    continue
                b = int(np.searchsorted(ft_arr, tm, side="right") - 1)
                b = min(b, len(ft) - 2)
                w = (tm - ft_arr[b]) / (ft_arr[b + 1] - ft_arr[b])
                want = uvals[b] + w * (uvals[b + 1] - uvals[b])
                okv = close(u, want, 1e-9, 1e-12)
                pred = "C06.velocity.not_interpolated" if aligned_frames else "C06.velocity.unaligned_dt"
                ctx.oracle(okv, pred, SITE, "step %d (%d s): served U=%r, time-interpolated frames give %r (schedule %r)" % (t, tm, u, want, sched[:8]),
                           dict(cs, step=t))
                lo, hi = min(svals[b], svals[b + 1]), max(svals[b], svals[b + 1])
                on_frame = tm in ft
                if on_frame:
                    fr_i = ft.index(tm)
                    # known finding F-C06a: at the start step the scalar holds exactly the NEXT frame
                    nxt = fr_i + 1 < len(svals) and same_bits(s, svals[fr_i + 1])
                    pred = "C06.scalar.on_frame" if (t > 0 or not aligned_frames or not nxt) else "C06.scalar.t0_next_frame"
                    if not aligned_frames: pred = "C06.scalar.unaligned_dt"
                    ctx.oracle(same_bits(s, svals[fr_i]), pred, SITE,
                               "step %d coincides with frame %d: served scalar %r, frame holds %r" % (t, fr_i, s, svals[fr_i]), dict(cs, step=t))
                else:
                    pred = "C06.scalar.outside_bracket" if aligned_frames else "C06.scalar.unaligned_dt"
                    ctx.oracle(lo - 1e-9 <= s <= hi + 1e-9, pred, SITE,
                               "step %d: served scalar %r outside the two enclosing frames [%r, %r]" % (t, s, lo, hi), dict(cs, step=t))
            strictly = all(x < y for x, y in zip(f.steps[:-1], f.steps[1:]))
            if not strictly:
                ctx.branch("duplicate_steps_outside_model_domain")     # unaligned dt: covered by the known findings F-C06e-*
            if drv.available and strictly:
                a = drv.ask("roms.steps", I(dt), L(ft, I))
                fr_toks = " ".join("%d %s %s" % (st_, F(uv), F(sv)) for st_, uv, sv in zip(f.steps, uvals, svals))
                b0 = drv.ask("roms.run", "1 1 0", I(len(f.steps)), fr_toks, L(sched, I))
                b1 = drv.ask("roms.run", "1 1 1", I(len(f.steps)), fr_toks, L(sched, I))
                pend.append((a, b0, b1, list(f.steps), served, cs))
    finally:
        shutil.rmtree(tmp, ignore_errors=True)
    if drv.available:
        rep = drv.run()
        for a, b0, b1, steps, served, cs in pend:
            ms = [int(x) for x in rep[a][1][1:]]
            ctx.eq("forcing_steps", [int(s) for s in steps], ms, cs)
            best = None
            for b in (b0, b1):
                st, t = rep[b]
                if st != "ok" or t[0] != "init":
                    continue
                vals = [(unF(t[1 + 2 * i]), unF(t[2 + 2 * i])) for i in range(len(served))]
                okU = all(same_bits(x[0], y[0]) for x, y in zip(served, vals))
                okS = all(same_bits(x[1], y[1]) for x, y in zip(served, vals))
                if best is None or (okU and okS):
                    best = (okU, okS, vals, b is b1)
            if best is None:
                ctx.disagreement("roms.run", "model could not initialise", cs); continue
            ctx.bit_exact += 2 * len(served)
            if not best[0]:
                ctx.disagreement("forcing.U", "impl=%r model=%r" % ([x[0] for x in served][:6], [x[0] for x in best[2]][:6]), cs)
            if not best[1]:
                ctx.disagreement("forcing.scalar", "impl=%r model=%r" % ([x[1] for x in served][:6], [x[1] for x in best[2]][:6]), cs)
            ctx.branch("scalar_init_current" if best[3] else "scalar_init_next")


def replay(payload):
    print("predicate:", payload.get("predicate"), "|", payload.get("detail"))
    return False
