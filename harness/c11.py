"""C11 — land-collision handling moves only stuck or coastal particles, within their cell.

Correspondence: reposition decisions of chemicals / mine over multi-step histories under the REAL LADiM
State (tracker writes positions in place; append / remove reallocate) and under fresh-array stubs against
the Lean memory model (`Memory.decides`, alias vs snapshot); `is_close_to_land` / `nearest_unmasked`
(free functions and the `Grid` methods with sub-grid offsets) against the Lean neighbourhood model;
re-seeded positions (x and y, with the draw that was served for the particle) bit-exact; eel / saithe
directed swimming over one or three steps.  Oracle: a particle is moved by the
handler only if it existed in the previous step and has exactly the same horizontal position as then
(reposition, also when the option is absent), only if coastal (coastal diffusion; judged by an exhaustive
search around the particle's mask cell), never (freeze; chemicals and mine); a moved particle stays in its
(half-open) cell; helper queries agree with an exhaustive search; directed swimming never ends on land or outside."""
import importlib
import numpy as np
from .common import Driver, F, I, B, unF, same_bits, RngRecorder
from .stubs import LinEnv, Obj, NumState, real_state

RULE = ("random land masks 5..12 x 5..12, particle positions anywhere in the grid incl. cell borders and corners; histories of "
        "3..8 steps with tracker moves / stuck particles / releases / removals, under the real ladim.state.State and under "
        "fresh-array stubs, for the three strategies; half of the histories release from a point source and remove/release in the same step (constant count, changed pid set); eel and saithe directed swimming next to land and to the grid edge. "
        "Histories: chemicals and mine, each with land_collision reposition / freeze / coastal_diffusion / key absent; sub-grid offsets i0 in {0,1,3}, j0 in {0,1,2} "
        "(global particle coordinates, coastal query through the real Grid.is_close_to_land); start and release positions continuous, exactly on rho points and exactly on cell borders; "
        "tracker displacements along both axes, along x only and along y only, 1e-12..0.4 cells; mine particles made inactive (the tracker skips them); "
        "the particle set may become empty and be refilled; the stub's particle set changes too (new pids, dropped entries) and is handed out in permuted order; "
        "served uniform draws per call or per element from {0, 2^-60, 0.5, nextafter(0.5), 1-2^-53, random}. "
        "Helpers: query arrays of length 0, 1 and 6; free functions and Grid.is_close_to_land / Grid.nearest_sea on sub-grids with offsets. "
        "Swimming: one or three consecutive steps (kept directions, retired larvae removed), starts within a step of the grid edge, eel on grids with cell-wise different angle / dx / dy. "
        "Non-trivial: every history step / query.")
ASSUMPTIONS = ["LADiM 2.3.3 State/tracker semantics (in-place position writes for the active particles only, reallocation on append/remove) are reproduced by the harness loop",
               "the cell of a coordinate is round(coordinate) (LADiM: `X.round().astype(int) - i0`); exactly on a cell border with an odd sub-grid offset the helper's round(X - i0) names the other adjacent cell, and either cell is accepted there",
               "the Lean memory model does not know mine's `active` flag: inactive particles are judged by the oracle only"]


UMAX = 1.0 - 2.0 ** -53          # the largest value `np.random.rand` can return (random_sample yields k / 2**53)
U_EDGE = [UMAX]


def _land_around(M, ic, jc):
    """exhaustive search: is one of the eight (clamped) neighbours of cell (ic, jc) a land cell of the sea mask M"""
    r, cc = M.shape
    for di in (-1, 0, 1):
        for dj in (-1, 0, 1):
            if di == 0 and dj == 0: continue
            a = min(max(ic + di, 0), cc - 1); b = min(max(jc + dj, 0), r - 1)
            if M[b, a] == 0:
                return True
    return False


def _sea_among_nine(M, ic, jc, x, y):
    """exhaustive search: (dist2 to (x, y), a, b) of every sea cell among the nine (clamped) cells around (ic, jc)"""
    r, cc = M.shape
    cand = []
    for di in (-1, 0, 1):
        for dj in (-1, 0, 1):
            a = min(max(ic + di, 0), cc - 1); b = min(max(jc + dj, 0), r - 1)
            if M[b, a] == 1:
                cand.append(((a - x) ** 2 + (b - y) ** 2, a, b))
    return cand


def _cells(v, off):
    """mask index of the cell that contains the global coordinate v of a sub-grid with offset `off`.  LADiM's cell
    of a coordinate is round(v) (`Grid.atsea`: `X.round().astype(int) - i0`); the collision helpers round after
    subtracting the offset.  The two agree except when v lies exactly on a cell border and the offset is odd
    (half-to-even rounding); there the particle is on the border of both cells and either is accepted."""
    return sorted({int(np.round(v)) - off, int(np.round(v - off))})


def helpers(ctx, drv, pend, G):
    site = "ladim_plugins/chemicals/gridforce.py"
    for c in range(ctx.n(150, 3000)):
        r = ctx.rng.randrange(3, 10); cc = ctx.rng.randrange(3, 10)
        M = np.array([[1 if ctx.rng.random() < ctx.rng.choice([0.3, 0.7, 0.95]) else 0 for _ in range(cc)] for _ in range(r)])
        n = ctx.rng.choice([6, 6, 6, 6, 6, 1, 0])          # query arrays of length 0 and 1 as well
        i = np.array([ctx.rng.choice([0.0, cc - 1.0, ctx.rng.uniform(-0.49, cc - 0.51), float(ctx.rng.randrange(cc)) + 0.5]) for _ in range(n)], dtype=float)
        j = np.array([ctx.rng.choice([0.0, r - 1.0, ctx.rng.uniform(-0.49, r - 0.51), float(ctx.rng.randrange(r)) + 0.5]) for _ in range(n)], dtype=float)
        close = G.is_close_to_land(M, i, j)
        ni, nj = G.nearest_unmasked(np.logical_not(M), i, j)
        bits = " ".join(str(int(not bool(x))) for x in M.ravel())        # land mask
        if n != 6:
            ctx.case(key=("helper.len", c, n), nontrivial=True); ctx.branch("helpers.len%d" % n)
            ctx.oracle(np.shape(close) == (n,) and np.shape(ni) == (n,) and np.shape(nj) == (n,), "C11.helpers.result_length", site,
                       "%d positions queried, results of shape %r / %r / %r" % (n, np.shape(close), np.shape(ni), np.shape(nj)), dict(M=M.tolist(), i=i.tolist(), j=j.tolist()))
        # --- the same queries through the Grid methods that the IBM really calls, on a sub-grid with offsets (i0, j0)
        i0 = ctx.rng.choice([0, 1, 3]); j0 = ctx.rng.choice([0, 1, 2])
        sub = Obj(M=M.astype(float), i0=i0, j0=j0)
        X = i + i0; Y = j + j0
        closeW = G.Grid.is_close_to_land(sub, X, Y)
        niW, njW = G.Grid.nearest_sea(sub, X, Y)
        for k in range(n):
            csw = dict(M=M.tolist(), i0=i0, j0=j0, X=X[k], Y=Y[k])
            ctx.case(key=("helper.grid", M.tobytes(), i0, j0, float(X[k]), float(Y[k])), nontrivial=True); ctx.branch("helpers.Grid.offset_%d_%d" % (i0, j0))
            centres = [(a, b) for a in _cells(X[k], i0) for b in _cells(Y[k], j0)]
            if len(centres) > 1:
                ctx.branch("helpers.Grid.on_border_odd_offset")
            ctx.oracle(any(bool(closeW[k]) == _land_around(M, a, b) for a, b in centres), "C11.Grid.is_close_to_land.wrong", site + "::Grid.is_close_to_land",
                       "sub-grid offset (%d,%d), position (%r,%r): returned %r, exhaustive eight-neighbourhood search around mask cell %r says %r"
                       % (i0, j0, X[k], Y[k], bool(closeW[k]), centres, [_land_around(M, a, b) for a, b in centres]), csw)
            xl = X[k] - i0; yl = Y[k] - j0
            cands = [(a, b, _sea_among_nine(M, a, b, xl, yl)) for a, b in centres]
            if all(cd for _, _, cd in cands):          # (no sea cell among the nine: nothing is stated)
                okn = False
                if 0 <= njW[k] < r and 0 <= niW[k] < cc and M[njW[k], niW[k]] == 1:
                    got_d = (niW[k] - xl) ** 2 + (njW[k] - yl) ** 2
                    # same tolerance as for nearest_unmasked below: ties between equidistant cells may be broken either way
                    okn = any(got_d <= min(q[0] for q in cd) * (1 + 1e-12) + 1e-15 for _, _, cd in cands)
                ctx.oracle(okn, "C11.Grid.nearest_sea.wrong", site + "::Grid.nearest_sea",
                           "sub-grid offset (%d,%d), position (%r,%r): returned mask cell (%d,%d), which is not the nearest sea cell among the nine" % (i0, j0, X[k], Y[k], niW[k], njW[k]), csw)
            if drv.available:
                icw = int(np.round(xl)); jcw = int(np.round(yl))
                pend.append(("close", drv.ask("nb.close", I(r), I(cc), bits, I(icw), I(jcw)), bool(closeW[k]), csw))
                if _sea_among_nine(M, icw, jcw, xl, yl):
                    pend.append(("nearest", drv.ask("nb.nearest", I(r), I(cc), bits, F(xl), F(yl), I(icw), I(jcw)), (int(niW[k]), int(njW[k])), csw))
        for k in range(n):
            ic = int(np.round(i[k])); jc = int(np.round(j[k]))
            cs = dict(M=M.tolist(), i=i[k], j=j[k])
            ctx.case(key=("helper", M.tobytes(), float(i[k]), float(j[k])), nontrivial=True, sample=cs if c == 0 and k == 0 else None)
            ctx.branch("helpers")
            want = False
            for di in (-1, 0, 1):
                for dj in (-1, 0, 1):
                    if di == 0 and dj == 0: continue
                    a = min(max(ic + di, 0), cc - 1); b = min(max(jc + dj, 0), r - 1)
                    want |= (M[b, a] == 0)
            ctx.oracle(bool(close[k]) == want, "C11.is_close_to_land.wrong", site + "::is_close_to_land",
                       "cell (%d,%d): returned %r, exhaustive eight-neighbourhood search %r" % (ic, jc, bool(close[k]), want), cs)
            cand = []
            for di in (-1, 0, 1):
                for dj in (-1, 0, 1):
                    a = min(max(ic + di, 0), cc - 1); b = min(max(jc + dj, 0), r - 1)
                    if M[b, a] == 1:
                        cand.append(((a - i[k]) ** 2 + (b - j[k]) ** 2, a, b))
            if cand:
                dmin = min(x[0] for x in cand)
                got_d = (ni[k] - i[k]) ** 2 + (nj[k] - j[k]) ** 2
                ctx.oracle(M[nj[k], ni[k]] == 1 and got_d <= dmin * (1 + 1e-12) + 1e-15, "C11.nearest_unmasked.wrong", site + "::nearest_unmasked",
                           "returned cell (%d,%d) dist2 %r; nearest sea cell among the nine has dist2 %r" % (ni[k], nj[k], got_d, dmin), cs)
            if drv.available:
                pend.append(("close", drv.ask("nb.close", I(r), I(cc), bits, I(ic), I(jc)), bool(close[k]), cs))
                mbits = " ".join(str(int(not bool(x))) for x in M.ravel())   # masked = not sea
                if cand:
                    pend.append(("nearest", drv.ask("nb.nearest", I(r), I(cc), mbits, F(i[k]), F(j[k]), I(ic), I(jc)), (int(ni[k]), int(nj[k])), cs))


def make_ibm(modname, strategy):
    """`strategy` None: the `land_collision` key is absent (documented default: reposition)"""
    import logging
    from . import ibmrun
    M = ibmrun.mod(modname)
    lc = {} if strategy is None else dict(land_collision=strategy)
    if modname == "chemicals":
        return M.IBM(dict(dt=60.0, ibm=dict(vertical_advection=False, **lc)))
    return M.IBM(dict(dt=60.0, ibm=dict(lifespan=1e12, vertical_mixing=0.0, taucrit=1000, **lc),
                      output_instance=[], nc_attributes={}))


STUB_FIELDS = ("pid", "alive", "active", "X", "Y", "Z", "age", "sink_vel")


def _stub_take(state, idx):
    """fresh arrays holding the entries `idx` (drops / reorders particles of the stub state)"""
    idx = np.asarray(idx, dtype=int)
    for f in STUB_FIELDS:
        state[f] = np.array(state[f])[idx]


def _stub_append(state, new, pids):
    k = len(pids)
    extra = dict(new, pid=np.asarray(pids, dtype=int), alive=np.ones(k, bool), active=np.ones(k))
    for f in STUB_FIELDS:
        state[f] = np.concatenate([np.array(state[f]), np.asarray(extra[f])])


def histories(ctx, drv, pend, G):
    N1 = ctx.n(40, 400); N2 = ctx.n(15, 150)
    rows = [("chemicals", "reposition", "real", N1), ("chemicals", "reposition", "stub", N1),
            ("mine", "reposition", "real", N1), ("mine", "reposition", "stub", N1),
            ("chemicals", "coastal_diffusion", "real", N1), ("chemicals", "freeze", "real", N1),
            # mine reads the same option; the key may be absent (default: reposition) in both modules
            ("mine", "freeze", "real", N2), ("mine", "freeze", "stub", N2), ("mine", "coastal_diffusion", "real", N2),
            ("mine", None, "real", N2), ("chemicals", None, "stub", N2), ("chemicals", "coastal_diffusion", "stub", N2)]
    for modname, cfg, container, count in rows:
        strategy = cfg or "reposition"
        if modname == "chemicals":
            site = "ladim_plugins/chemicals/ibm.py::" + strategy
        else:
            site = "ladim_plugins/mine/ibm.py::reposition"
        ptag = strategy if modname == "chemicals" else "mine." + strategy       # predicate infix of the non-reposition oracles
        for h in range(count):
            r = ctx.rng.randrange(6, 12); cc = ctx.rng.randrange(6, 12)
            # sub-grid offsets: particle coordinates are global, the mask of the grid object starts at (ox, oy)
            ox = ctx.rng.choice([0, 0, 1, 3]); oy = ctx.rng.choice([0, 0, 1, 2])
            Msea = np.array([[1 if ctx.rng.random() < 0.75 else 0 for _ in range(cc)] for _ in range(r)])
            xlo, xhi, ylo, yhi = float(ox), ox + cc - 1.0, float(oy), oy + r - 1.0
            env = LinEnv(h0=50.0, xmin=xlo, xmax=xhi, ymin=ylo, ymax=yhi)
            g = env.grid()
            sub = Obj(M=Msea.astype(float), i0=ox, j0=oy)
            # the real Grid method (subtracts the sub-grid offset, then the eight-neighbourhood query)
            g.grid = Obj(is_close_to_land=lambda x, y, _s=sub: G.Grid.is_close_to_land(_s, x, y))
            ibm = make_ibm(modname, cfg)
            n0 = ctx.rng.randrange(1, 6)

            def coord(m, off):
                # anywhere in the interior: continuous, exactly on a rho point, exactly on a cell border
                t = ctx.rng.random()
                if t < 0.7:
                    return off + ctx.rng.uniform(0.6, m - 1.6)
                k = ctx.rng.randrange(1, m - 1)
                return off + (float(k) if t < 0.85 else k - 0.5)
            # half of the histories release from a point source (every new particle at exactly the same position,
            # as a `location: [lon, lat]` release does), so that a new particle can sit exactly where another one was
            source = (coord(cc, ox), coord(r, oy)) if ctx.rng.random() < 0.5 else None
            newp = lambda n: dict(X=np.array([source[0] if source else coord(cc, ox) for _ in range(n)], dtype=float),
                                  Y=np.array([source[1] if source else coord(r, oy) for _ in range(n)], dtype=float),
                                  Z=np.full(n, 5.0), age=np.zeros(n), sink_vel=np.full(n, 1e-9))
            if container == "real":
                state = real_state(dt=60.0, **newp(n0))
            else:
                p0 = newp(n0)
                state = NumState(pid=np.arange(n0), alive=np.ones(n0, bool), active=np.ones(n0), dt=60.0, timestep=0, **p0)
            next_pid = n0
            prev = None          # dict pid -> (x, y) after the previous IBM update
            realloc = True
            allow_empty = ctx.rng.random() < 0.3       # the particle set may become empty (before a later release)
            pchange = 0.6 if source else 0.3
            for step in range(ctx.rng.randrange(3, 9)):
                # --- release
                if ctx.rng.random() < pchange:
                    k = ctx.rng.randrange(1, 3)
                    if container == "real":
                        state.append(newp(k)); realloc = True
                    elif ctx.rng.random() < 0.7:
                        # the stub's particle set changes as well (new pids; fresh arrays)
                        _stub_append(state, newp(k), range(next_pid, next_pid + k)); realloc = True
                        ctx.branch("stub.release")
                    next_pid += k
                if container == "stub" and len(state.X) > 1 and ctx.rng.random() < 0.3:
                    # the stub hands out its particles in another order (pids not ascending)
                    perm = list(range(len(state.X))); ctx.rng.shuffle(perm)
                    _stub_take(state, perm); ctx.branch("stub.permuted")
                n = len(state.X)
                # --- mine: a buried (inactive) particle; LADiM's tracker leaves inactive particles where they are
                if modname == "mine" and n > 0 and ctx.rng.random() < 0.25:
                    q = ctx.rng.randrange(n)
                    if container == "real":
                        state["active"][q] = False
                    else:
                        a_ = np.array(state.active).copy(); a_[q] = 0; state.active = a_
                act = np.array(state["active"], dtype=bool).reshape(n)
                # --- tracker: in-place writes for the real State; fresh arrays for the stub
                move = np.array([ctx.rng.random() < 0.6 for _ in range(n)], dtype=bool) & act
                # displacements of every size: a particle that moved by a billionth of a cell has moved
                disp = lambda: ctx.rng.choice([ctx.rng.uniform(-0.4, 0.4), ctx.rng.uniform(-0.4, 0.4), 1e-3, -1e-6, 1e-9, -1e-12])
                # ... and in every direction: along both axes, along x only, along y only
                modes = [ctx.rng.choice(["xy", "xy", "x", "y"]) for _ in range(n)]
                dx = np.array([disp() if m != "y" else 0.0 for m in modes], dtype=float) * move
                dy = np.array([ctx.rng.choice([disp(), 0.0]) if m == "xy" else (disp() if m == "y" else 0.0) for m in modes], dtype=float) * move
                if container == "real":
                    state["X"][act] = np.clip(state["X"][act] + dx[act], xlo, xhi)
                    state["Y"][act] = np.clip(state["Y"][act] + dy[act], ylo, yhi)
                else:
                    state.X = np.where(act, np.clip(state.X + dx, xlo, xhi), state.X); state.Y = np.where(act, np.clip(state.Y + dy, ylo, yhi), state.Y)
                    state.timestep = step
                state.timestep = step
                xb = np.array(state.X).copy(); yb = np.array(state.Y).copy(); pids = np.array(state.pid).copy()
                # served draws: either one value for the whole call (as before) or a different value per element, incl.
                # the ends of [0, 1) and the middle (a re-seed onto the rho point itself)
                elem = ctx.rng.random() < 0.5
                udraw = lambda: ctx.rng.choice([0.0, ctx.rng.random(), ctx.rng.random(), ctx.rng.random(), ctx.rng.random(), 0.5,
                                                float(np.nextafter(0.5, 1.0)), 2.0 ** -60] + U_EDGE)
                def inject(kind, p, v, _elem=elem, _udraw=udraw):
                    if _elem:
                        return np.array([_udraw() for _ in range(v.size)], dtype=float).reshape(v.shape)
                    return np.full(v.shape, ctx.rng.choice([0.0, ctx.rng.random(), ctx.rng.random()]))
                with RngRecorder(ctx.sub_seed(), inject) as rec:
                    ibm.update_ibm(g, state, env.forcing())
                xa = np.array(state.X); ya = np.array(state.Y)
                moved = (xa != xb) | (ya != yb)
                rands = [e for e in rec.log if e[0] == "rand"]
                rx = rands[0][3].ravel() if len(rands) > 0 else np.zeros(0)        # draws of the x re-seed
                ry = rands[1][3].ravel() if len(rands) > 1 else np.zeros(0)        # draws of the y re-seed
                nn = min(len(rx), len(ry))
                cs_base = dict(module=modname, strategy=cfg, container=container, history=h, step=step, mask=Msea.tolist(), offset=[ox, oy])
                ctx.case(key=(modname, cfg, container, h, step), nontrivial=True, sample=cs_base if h == 0 and step == 0 else None)
                ctx.branch("%s.%s.%s" % (modname, cfg or "default", container))
                if ox or oy: ctx.branch("histories.subgrid_offset")
                if n == 0: ctx.branch("histories.empty_state")
                if elem and nn > 1: ctx.branch("histories.distinct_draws")
                for k in range(len(pids)):
                    cs = dict(cs_base, pid=int(pids[k]), before=[xb[k], yb[k]], after=[xa[k], ya[k]], previous=(prev or {}).get(int(pids[k])),
                              active=bool(act[k]))
                    cxk = np.round(xb[k]); cyk = np.round(yb[k])
                    if xb[k] - np.floor(xb[k]) == 0.5 or yb[k] - np.floor(yb[k]) == 0.5: ctx.branch("histories.on_cell_border")
                    if moved[k]:
                        ctx.oracle(cxk - 0.5 <= xa[k] <= cxk + 0.5 and cyk - 0.5 <= ya[k] <= cyk + 0.5,
                                   "C11.%s.left_cell" % strategy, site, "moved from (%r,%r) to (%r,%r): outside its cell" % (xb[k], yb[k], xa[k], ya[k]), cs)
                        # the cell is half open, [c - 1/2, c + 1/2) (Lean: C11.reseed_in_cell): c + 1/2 is the border of /
                        # belongs to the next cell
                        # judged with the cell convention of the code itself (`np.round`, ties to even): a particle put
                        # exactly on c + 1/2 is still in cell c when c is even, and in cell c + 1 when c is odd
                        ctx.oracle(np.round(xa[k]) == cxk and np.round(ya[k]) == cyk,
                                   "C11.%s.left_cell.upper_border" % strategy, site,
                                   "moved from (%r,%r) to (%r,%r): on the upper border of its cell [c-1/2, c+1/2), i.e. in the next cell" % (xb[k], yb[k], xa[k], ya[k]),
                                   dict(cs, draws_x=rx.tolist(), draws_y=ry.tolist()))
                    if strategy == "freeze":
                        ctx.oracle(not moved[k], "C11.%s.moved" % ptag, site, "particle moved under freeze", cs)
                    elif strategy == "coastal_diffusion":
                        coastal = bool(G.is_close_to_land(Msea, np.array([xb[k] - ox]), np.array([yb[k] - oy]))[0])
                        ctx.oracle((not moved[k]) or coastal, "C11.%s.moved_non_coastal" % ptag, site, "non-coastal particle moved", cs)
                        # independent of the helper: exhaustive search around the mask cell the particle occupies
                        centres = [(a, b) for a in _cells(xb[k], ox) for b in _cells(yb[k], oy)]
                        coastal_x = any(_land_around(Msea, min(max(a, 0), cc - 1), min(max(b, 0), r - 1)) for a, b in centres)
                        ctx.oracle((not moved[k]) or coastal_x, "C11.%s.moved_non_coastal" % ptag, site,
                                   "particle moved although none of the eight neighbours of its cell %r (sub-grid offset (%d,%d)) is land" % (centres, ox, oy), cs)
                    else:
                        was = prev is not None and int(pids[k]) in prev
                        same = was and prev[int(pids[k])] == (xb[k], yb[k])
                        if was and not same:
                            px, py = prev[int(pids[k])]
                            if px == xb[k]: ctx.branch("tracker.moved_along_y_only")
                            elif py == yb[k]: ctx.branch("tracker.moved_along_x_only")
                        if not act[k]: ctx.branch("mine.inactive_particle")
                        if moved[k]:
                            # the known finding F-C11a (remembered positions alias the State arrays) only explains a
                            # re-seeded free particle under the real State when no reallocation happened since the
                            # positions were stored, and only for a particle whose position was stored; everywhere
                            # else the same symptom is a different defect
                            aliased = (container == "real" and not realloc and was)
                            pred = "C11.%s.reposition.moved_free_particle" % modname + ("" if aliased else ".no_alias")
                            ctx.oracle(same, pred, "ladim_plugins/%s/ibm.py::reposition" % modname,
                                       "pid %d moved by the collision handler although %s" % (int(pids[k]), "the tracker had moved it from %r to %r" % (prev[int(pids[k])], (xb[k], yb[k])) if was else "it did not exist in the previous step"), cs)
                        elif same:
                            # reseeding with the served draw moves the particle unless the new position coincides
                            pass
                        # which served draw re-seeds this particle onto (xa, ya) / onto itself (same index for x and y)
                        sx = cxk - 0.5 + rx[:nn]; sy = cyk - 0.5 + ry[:nn]
                        noop = bool(np.any((sx == xb[k]) & (sy == yb[k])))
                        hit = np.nonzero((sx == xa[k]) & (sy == ya[k]))[0]
                        # the model of the memory does not know mine's `active` flag: an inactive particle is not asked
                        if drv.available and prev is not None and act[k]:
                            kind = 1 if (modname == "chemicals" and container == "real") else 0
                            mem = " ".join("%d %s %s" % (p, F(x), F(y)) for p, (x, y) in prev.items())
                            pend.append(("decides", drv.ask("mem.decides", I(kind), B(realloc), I(len(prev)), mem, I(int(pids[k])), F(xb[k]), F(yb[k])),
                                         (bool(moved[k]), bool(noop)), dict(cs, realloc=realloc)))
                        if drv.available and moved[k] and rec.log:
                            m = int(hit[0]) if len(hit) else 0
                            u = float(rx[m]) if len(rx) > m else 0.0
                            pend.append(("reseed", drv.ask("chem.reseed", F(xb[k]), F(u)), xa[k], cs))
                            if len(ry) > m:
                                pend.append(("reseed_y", drv.ask("chem.reseed", F(yb[k]), F(float(ry[m]))), ya[k], cs))
                prev = {int(p): (float(x), float(y)) for p, x, y in zip(pids, xa, ya)}
                realloc = False
                # --- removal of dead particles (LADiM removes after the IBM update)
                if ctx.rng.random() < pchange and len(state.X) > (0 if allow_empty else 1):
                    q = ctx.rng.randrange(len(state.X))
                    if container == "real":
                        kill = np.zeros(len(state.X), bool); kill[q] = True
                        state.remove(kill); realloc = True
                    elif ctx.rng.random() < 0.7:
                        _stub_take(state, [t for t in range(len(state.X)) if t != q]); realloc = True
                        ctx.branch("stub.removal")
                    alive_pids = set(int(q_) for q_ in state.pid)
                    prev = {p: v for p, v in prev.items() if p in alive_pids}


def swimming(ctx, drv=None, pend=None):
    from . import ibmrun

    def start(m):
        # anywhere in the grid, more often within one step of the grid edge
        return ctx.rng.choice([ctx.rng.uniform(0, m - 1), ctx.rng.uniform(0, m - 1), ctx.rng.uniform(0, m - 1),
                               ctx.rng.uniform(0, 0.4), ctx.rng.uniform(m - 1.4, m - 1)])
    # lunar eel: horizontal_advect with the moon function forced on
    Me = ibmrun.mod("lunar_eel")
    for c in range(ctx.n(40, 600)):
        r = ctx.rng.randrange(5, 10); cc = ctx.rng.randrange(5, 10)
        M = np.array([[1 if ctx.rng.random() < 0.7 else 0 for _ in range(cc)] for _ in range(r)])
        saved = Me.get_moon_function
        Me.get_moon_function = lambda lat, lon: (lambda t: True)
        try:
            ibm = Me.IBM(dict(dt=600.0, ibm=dict(speed=ctx.rng.choice([0.1, 1.0, 3.0]), lunar_latlon=[60, 5], vertical_mixing=0.0, vertical_limits=[0.0, 50.0])))
        finally:
            Me.get_moon_function = saved
        ang = ctx.rng.uniform(0, 6.28)
        if ctx.rng.random() < 0.5:
            angle = np.full((r, cc), ang); dxa = np.full((r, cc), 800.0); dya = np.full((r, cc), 800.0)
        else:
            # curvilinear grid: the orientation and the cell sizes differ from cell to cell
            angle = ang + np.array([[ctx.rng.uniform(-0.6, 0.6) for _ in range(cc)] for _ in range(r)])
            dxa = np.array([[ctx.rng.uniform(500.0, 1300.0) for _ in range(cc)] for _ in range(r)])
            dya = np.array([[ctx.rng.uniform(500.0, 1300.0) for _ in range(cc)] for _ in range(r)])
            ctx.branch("eel.curvilinear_grid")
        grid = Obj(grid=Obj(angle=angle, dx=dxa, dy=dya),
                   ingrid=lambda x, y: (x > -0.5) & (x < cc - 0.5) & (y > -0.5) & (y < r - 0.5),
                   atsea=lambda x, y: M[np.clip(np.round(y).astype(int), 0, r - 1), np.clip(np.round(x).astype(int), 0, cc - 1)] > 0)
        # the swimming direction of every cell, from the grid as given to the IBM (same array expressions as the IBM's)
        azim = ibm.direction * np.pi / 180.0
        xs_dx = np.sin(azim + angle) / dxa; ys_dy = np.cos(azim + angle) / dya
        n = 6
        X = np.array([start(cc) for _ in range(n)]); Y = np.array([start(r) for _ in range(n)])
        state = real_state(dt=600.0, timestamp=np.datetime64("2020-01-01T00:00:00"), X=X.copy(), Y=Y.copy(), Z=np.full(n, 5.0))
        bits = " ".join(str(int(v)) for v in M.ravel())
        for st in range(ctx.rng.choice([1, 3])):
            X = np.array(state.X).copy(); Y = np.array(state.Y).copy()
            with RngRecorder(ctx.sub_seed()):
                ibm.update_ibm(grid, state, None)
            for k in range(n):
                stayed = state.X[k] == X[k] and state.Y[k] == Y[k]
                xs, ys = np.array([state.X[k]]), np.array([state.Y[k]])
                ok = stayed or (bool(grid.ingrid(xs, ys)[0]) and bool(grid.atsea(xs, ys)[0]))
                ctx.case(key=("eel", c, k) if st == 0 else ("eel", c, k, st), nontrivial=True); ctx.branch("eel.directed_swim")
                if st: ctx.branch("eel.later_step")
                csk = dict(mask=M.tolist(), k=k, module="lunar_eel", step=st, start=[X[k], Y[k]])
                if drv is not None and drv.available:
                    i_ = int(np.round(X[k])); j_ = int(np.round(Y[k]))
                    cx = X[k] + ibm.speed * ibm.dt * xs_dx[j_, i_]; cy = Y[k] + ibm.speed * ibm.dt * ys_dy[j_, i_]
                    pend.append(("swim", drv.ask("swim.eel", F(-0.0 + 0.0), F(cc - 1.0), F(0.0), F(r - 1.0), I(r), I(cc), I(r * cc), bits, F(X[k]), F(Y[k]), F(cx), F(cy)),
                                 (float(state.X[k]), float(state.Y[k]), None), csk))
                ctx.oracle(ok, "C11.lunar_eel.swam_onto_land_or_out", "ladim_plugins/lunar_eel/ibm.py::horizontal_advect",
                           "from (%r,%r) to (%r,%r)" % (X[k], Y[k], state.X[k], state.Y[k]), csk)
    # saithe: spread
    Ms = ibmrun.mod("saithe")
    for c in range(ctx.n(40, 600)):
        r = ctx.rng.randrange(5, 10); cc = ctx.rng.randrange(5, 10)
        M = np.array([[1 if ctx.rng.random() < 0.7 else 0 for _ in range(cc)] for _ in range(r)])
        ibm = Ms.IBM(dict(dt=ctx.rng.choice([600.0, 86400.0]), ibm=dict(extra_spreading=True)))
        env = LinEnv(h0=100.0, dx=800.0, xmin=0.0, xmax=cc - 1.0, ymin=0.0, ymax=r - 1.0)
        g = env.grid()
        g.atsea = lambda x, y: M[np.clip(np.round(y).astype(int), 0, r - 1), np.clip(np.round(x).astype(int), 0, cc - 1)] > 0
        n = 6
        X = np.array([start(cc) for _ in range(n)]); Y = np.array([start(r) for _ in range(n)])
        state = real_state(dt=ibm.dt, timestamp=np.datetime64("2020-06-01T12:00:00"), X=X.copy(), Y=Y.copy(), Z=np.full(n, 40.0),
                           age=np.array([ctx.rng.choice([10.0, 70.0, 100.0]) for _ in range(n)]), weight=np.full(n, 1.0),
                           egg_buoy=np.full(n, 33.0), temp=np.zeros(n), salt=np.zeros(n), direction=np.zeros(n))
        bits = " ".join(str(int(v)) for v in M.ravel())
        # later steps: the directions drawn in the first step are kept; a larva that was held back at the coast tries again
        for st in range(ctx.rng.choice([1, 3])):
            n = len(state.X)
            if n == 0:
                break
            X = np.array(state.X).copy(); Y = np.array(state.Y).copy()
            with RngRecorder(ctx.sub_seed()):
                ibm.update_ibm(g, state, env.forcing())
            d_after = np.array(state["direction"])
            for k in range(n):
                stayed = state.X[k] == X[k] and state.Y[k] == Y[k]
                xs, ys = np.array([state.X[k]]), np.array([state.Y[k]])
                ok = stayed or (bool(g.ingrid(xs, ys)[0]) and bool(g.atsea(xs, ys)[0]))
                ctx.case(key=("saithe", c, k) if st == 0 else ("saithe", c, k, st), nontrivial=True); ctx.branch("saithe.directed_swim")
                if st: ctx.branch("saithe.later_step")
                csk = dict(mask=M.tolist(), k=k, module="saithe", step=st, start=[X[k], Y[k]])
                directed = (not np.isnan(d_after[k])) and (state["age"][k] > ibm.hatch_day)
                if drv is not None and drv.available and directed:
                    om = 1 / 800.0
                    cx = X[k] + 1 * 0.01 * om * ibm.dt * np.cos(d_after[k]); cy = Y[k] + 1 * 0.01 * om * ibm.dt * np.sin(d_after[k])
                    pend.append(("swim", drv.ask("swim.saithe", F(0.0), F(cc - 1.0), F(0.0), F(r - 1.0), I(r), I(cc), I(r * cc), bits, F(X[k]), F(Y[k]), F(cx), F(cy)),
                                 (float(state.X[k]), float(state.Y[k]), bool(state.alive[k])), csk))
                elif not directed:
                    ctx.oracle(stayed and bool(state.alive[k]), "C11.saithe.undirected_moved", "ladim_plugins/saithe/ibm.py::spread",
                               "an egg / non-directed larva was moved or retired by the directed swimming", csk)
                ctx.oracle(ok, "C11.saithe.swam_onto_land_or_out", "ladim_plugins/saithe/ibm.py::spread",
                           "from (%r,%r) to (%r,%r)" % (X[k], Y[k], state.X[k], state.Y[k]), csk)
            dead = ~np.array(state.alive, dtype=bool)          # LADiM removes retired particles after the IBM update
            if dead.any():
                state.remove(dead)


def run(ctx):
    G = importlib.import_module("ladim_plugins.chemicals.gridforce")
    drv = Driver()
    if getattr(ctx, "widened", False):
        drv.available = False
    pend = []
    helpers(ctx, drv, pend, G)
    histories(ctx, drv, pend, G)
    swimming(ctx, drv, pend)
    if drv.available:
        rep = drv.run()
        for kind, j, impl, cs in pend:
            st, t = rep[j]
            if st != "ok":
                ctx.disagreement("c11." + kind, "driver error %r" % (t,), cs); continue
            if kind == "close":
                ctx.eq("is_close_to_land", impl, t[0] == "1", cs)
            elif kind == "nearest":
                ctx.eq("nearest_unmasked", impl, (int(t[0]), int(t[1])) if t[0] != "none" else None, cs)
            elif kind == "decides":
                model = t[0] == "1"
                if model and not impl[0] and impl[1]:
                    ctx.branch("reseed_landed_on_same_position")     # re-seeded onto exactly the same coordinates
                    continue
                ctx.eq("reposition.decision", impl[0], model, cs)
            elif kind == "swim":
                got = (unF(t[0]), unF(t[1])) + ((t[2] == "1",) if impl[2] is not None else (None,))
                ctx.eq("directed_swim.%s" % cs["module"], (impl[0], impl[1], impl[2]), got, cs)
            elif kind == "reseed":
                ctx.eq_bits("reposition.reseed_x", impl, unF(t[0]), cs)
            elif kind == "reseed_y":
                ctx.eq_bits("reposition.reseed_y", impl, unF(t[0]), cs)


def replay(payload):
    print("predicate:", payload.get("predicate"), "|", payload.get("detail"))
    return False
