"""C11 — land-collision handling moves only stuck or coastal particles, within their cell.

Correspondence: reposition decisions of chemicals / mine over multi-step histories under the REAL LADiM
State (tracker writes positions in place; append / remove reallocate) and under fresh-array stubs against
the Lean memory model (`Memory.decides`, alias vs snapshot); `is_close_to_land` / `nearest_unmasked`
against the Lean neighbourhood model; re-seeded positions bit-exact.  Oracle: a particle is moved by the
handler only if it existed in the previous step and has exactly the same horizontal position as then
(reposition), only if coastal (coastal diffusion), never (freeze); a moved particle stays in its cell;
helper queries agree with an exhaustive search; directed swimming never ends on land or outside."""
import importlib
import numpy as np
from .common import Driver, F, I, B, unF, same_bits, RngRecorder
from .stubs import LinEnv, Obj, NumState, real_state

RULE = ("random land masks 5..12 x 5..12, particle positions anywhere in the grid incl. cell borders and corners; histories of "
        "3..8 steps with tracker moves / stuck particles / releases / removals, under the real ladim.state.State and under "
        "fresh-array stubs, for the three strategies; half of the histories release from a point source and remove/release in the same step (constant count, changed pid set); eel and saithe directed swimming next to land and to the grid edge. "
        "Non-trivial: every history step / query.")
ASSUMPTIONS = ["LADiM 2.3.3 State/tracker semantics (in-place position writes, reallocation on append/remove) are reproduced by the harness loop"]


def helpers(ctx, drv, pend, G):
    site = "ladim_plugins/chemicals/gridforce.py"
    for c in range(ctx.n(150, 3000)):
        r = ctx.rng.randrange(3, 10); cc = ctx.rng.randrange(3, 10)
        M = np.array([[1 if ctx.rng.random() < ctx.rng.choice([0.3, 0.7, 0.95]) else 0 for _ in range(cc)] for _ in range(r)])
        n = 6
        i = np.array([ctx.rng.choice([0.0, cc - 1.0, ctx.rng.uniform(-0.49, cc - 0.51), float(ctx.rng.randrange(cc)) + 0.5]) for _ in range(n)])
        j = np.array([ctx.rng.choice([0.0, r - 1.0, ctx.rng.uniform(-0.49, r - 0.51), float(ctx.rng.randrange(r)) + 0.5]) for _ in range(n)])
        close = G.is_close_to_land(M, i, j)
        ni, nj = G.nearest_unmasked(np.logical_not(M), i, j)
        bits = " ".join(str(int(not bool(x))) for x in M.ravel())        # land mask
        for k in range(n):
            ic = int(np.round(i[k])); jc = int(np.round(j[k]))
            cs = dict(M=M.tolist(), i=i[k], j=j[k])
            ctx.case(key=("helper", M.tobytes(), float(i[k]), float(j[k])), nontrivial=True, sample=cs if c == 0 and k == 0 else None)
            ctx.branch("helpers")
            want = False
            for di in (-1, 0, 1):
                for dj in (-1, 0, 1):
                    if di == 0 and dj == 0: continue
                    a = min(max(ic + di, 0), cc - 1); b = min(max(jc + dj, 0), r - 1)
                    want |= (M[b, a] == 0)
            ctx.oracle(bool(close[k]) == want, "C11.is_close_to_land.wrong", site + "::is_close_to_land",
                       "cell (%d,%d): returned %r, exhaustive eight-neighbourhood search %r" % (ic, jc, bool(close[k]), want), cs)
            cand = []
            for di in (-1, 0, 1):
                for dj in (-1, 0, 1):
                    a = min(max(ic + di, 0), cc - 1); b = min(max(jc + dj, 0), r - 1)
                    if M[b, a] == 1:
                        cand.append(((a - i[k]) ** 2 + (b - j[k]) ** 2, a, b))
            if cand:
                dmin = min(x[0] for x in cand)
                got_d = (ni[k] - i[k]) ** 2 + (nj[k] - j[k]) ** 2
                ctx.oracle(M[nj[k], ni[k]] == 1 and got_d <= dmin * (1 + 1e-12) + 1e-15, "C11.nearest_unmasked.wrong", site + "::nearest_unmasked",
                           "returned cell (%d,%d) dist2 %r; nearest sea cell among the nine has dist2 %r" % (ni[k], nj[k], got_d, dmin), cs)
            if drv.available:
                pend.append(("close", drv.ask("nb.close", I(r), I(cc), bits, I(ic), I(jc)), bool(close[k]), cs))
                mbits = " ".join(str(int(not bool(x))) for x in M.ravel())   # masked = not sea
                if cand:
                    pend.append(("nearest", drv.ask("nb.nearest", I(r), I(cc), mbits, F(i[k]), F(j[k]), I(ic), I(jc)), (int(ni[k]), int(nj[k])), cs))


def make_ibm(modname, strategy):
    import logging
    from . import ibmrun
    M = ibmrun.mod(modname)
    if modname == "chemicals":
        return M.IBM(dict(dt=60.0, ibm=dict(land_collision=strategy, vertical_advection=False)))
    return M.IBM(dict(dt=60.0, ibm=dict(lifespan=1e12, vertical_mixing=0.0, taucrit=1000, land_collision=strategy),
                      output_instance=[], nc_attributes={}))


def histories(ctx, drv, pend, G):
    for modname, strategy, container in [("chemicals", "reposition", "real"), ("chemicals", "reposition", "stub"),
                                         ("mine", "reposition", "real"), ("mine", "reposition", "stub"),
                                         ("chemicals", "coastal_diffusion", "real"), ("chemicals", "freeze", "real")]:
        site = "ladim_plugins/%s/ibm.py::reposition" % modname if strategy == "reposition" else "ladim_plugins/chemicals/ibm.py::" + strategy
        for h in range(ctx.n(40, 400)):
            r = ctx.rng.randrange(6, 12); cc = ctx.rng.randrange(6, 12)
            Msea = np.array([[1 if ctx.rng.random() < 0.75 else 0 for _ in range(cc)] for _ in range(r)])
            env = LinEnv(h0=50.0, xmin=0.0, xmax=cc - 1.0, ymin=0.0, ymax=r - 1.0)
            g = env.grid()
            g.grid = Obj(is_close_to_land=lambda x, y, _M=Msea: G.is_close_to_land(_M, x, y))
            ibm = make_ibm(modname, strategy)
            n0 = ctx.rng.randrange(1, 6)
            # half of the histories release from a point source (every new particle at exactly the same position,
            # as a `location: [lon, lat]` release does), so that a new particle can sit exactly where another one was
            source = (ctx.rng.uniform(0.6, cc - 1.6), ctx.rng.uniform(0.6, r - 1.6)) if ctx.rng.random() < 0.5 else None
            newp = lambda n: dict(X=np.array([source[0] if source else ctx.rng.uniform(0.6, cc - 1.6) for _ in range(n)]),
                                  Y=np.array([source[1] if source else ctx.rng.uniform(0.6, r - 1.6) for _ in range(n)]),
                                  Z=np.full(n, 5.0), age=np.zeros(n), sink_vel=np.full(n, 1e-9))
            if container == "real":
                state = real_state(dt=60.0, **newp(n0))
            else:
                p0 = newp(n0)
                state = NumState(pid=np.arange(n0), alive=np.ones(n0, bool), active=np.ones(n0), dt=60.0, timestep=0, **p0)
            next_pid = n0
            prev = None          # dict pid -> (x, y) after the previous IBM update
            realloc = True
            for step in range(ctx.rng.randrange(3, 9)):
                # --- release
                if container == "real" and ctx.rng.random() < (0.6 if source else 0.3):
                    k = ctx.rng.randrange(1, 3)
                    state.append(newp(k)); realloc = True
                # --- tracker: in-place writes for the real State; fresh arrays for the stub
                n = len(state.X)
                move = np.array([ctx.rng.random() < 0.6 for _ in range(n)])
                # displacements of every size: a particle that moved by a billionth of a cell has moved
                disp = lambda: ctx.rng.choice([ctx.rng.uniform(-0.4, 0.4), ctx.rng.uniform(-0.4, 0.4), 1e-3, -1e-6, 1e-9, -1e-12])
                dx = np.array([disp() for _ in range(n)]) * move
                dy = np.array([ctx.rng.choice([disp(), 0.0]) for _ in range(n)]) * move
                if container == "real":
                    act = np.ones(n, bool)
                    state["X"][act] = np.clip(state["X"][act] + dx, 0.0, cc - 1.0)
                    state["Y"][act] = np.clip(state["Y"][act] + dy, 0.0, r - 1.0)
                else:
                    state.X = np.clip(state.X + dx, 0.0, cc - 1.0); state.Y = np.clip(state.Y + dy, 0.0, r - 1.0)
                    state.timestep = step
                state.timestep = step
                xb = np.array(state.X).copy(); yb = np.array(state.Y).copy(); pids = np.array(state.pid).copy()
                with RngRecorder(ctx.sub_seed(), lambda kind, p, v: np.full(v.shape, ctx.rng.choice([0.0, ctx.rng.random(), ctx.rng.random()]))) as rec:
                    ibm.update_ibm(g, state, env.forcing())
                xa = np.array(state.X); ya = np.array(state.Y)
                moved = (xa != xb) | (ya != yb)
                cs_base = dict(module=modname, strategy=strategy, container=container, history=h, step=step, mask=Msea.tolist())
                ctx.case(key=(modname, strategy, container, h, step), nontrivial=True, sample=cs_base if h == 0 and step == 0 else None)
                ctx.branch("%s.%s.%s" % (modname, strategy, container))
                for k in range(len(pids)):
                    cs = dict(cs_base, pid=int(pids[k]), before=[xb[k], yb[k]], after=[xa[k], ya[k]], previous=(prev or {}).get(int(pids[k])))
                    if moved[k]:
                        ctx.oracle(np.round(xb[k]) - 0.5 <= xa[k] <= np.round(xb[k]) + 0.5 and np.round(yb[k]) - 0.5 <= ya[k] <= np.round(yb[k]) + 0.5,
                                   "C11.%s.left_cell" % strategy, site, "moved from (%r,%r) to (%r,%r): outside its cell" % (xb[k], yb[k], xa[k], ya[k]), cs)
                    if strategy == "freeze":
                        ctx.oracle(not moved[k], "C11.freeze.moved", site, "particle moved under freeze", cs)
                    elif strategy == "coastal_diffusion":
                        coastal = bool(G.is_close_to_land(Msea, np.array([xb[k]]), np.array([yb[k]]))[0])
                        ctx.oracle((not moved[k]) or coastal, "C11.coastal_diffusion.moved_non_coastal", site, "non-coastal particle moved", cs)
                    else:
                        was = prev is not None and int(pids[k]) in prev
                        same = was and prev[int(pids[k])] == (xb[k], yb[k])
                        if moved[k]:
                            # the known finding F-C11a (remembered positions alias the State arrays) only explains a
                            # re-seeded free particle under the real State when no reallocation happened since the
                            # positions were stored; everywhere else the same symptom is a different defect
                            aliased = (container == "real" and not realloc)
                            pred = "C11.%s.reposition.moved_free_particle" % modname + ("" if aliased else ".no_alias")
                            ctx.oracle(same, pred, site,
                                       "pid %d moved by the collision handler although %s" % (int(pids[k]), "the tracker had moved it from %r to %r" % (prev[int(pids[k])], (xb[k], yb[k])) if was else "it did not exist in the previous step"), cs)
                        elif same:
                            # reseeding with the served draw moves the particle unless the new position coincides
                            pass
                        if drv.available and prev is not None:
                            kind = 1 if (modname == "chemicals" and container == "real") else 0
                            mem = " ".join("%d %s %s" % (p, F(x), F(y)) for p, (x, y) in prev.items())
                            u_ = float(rec.log[0][3].ravel()[0]) if (rec.log and rec.log[0][3].size) else None
                            noop = u_ is not None and (np.round(xb[k]) - 0.5 + u_ == xb[k]) and (np.round(yb[k]) - 0.5 + u_ == yb[k])
                            pend.append(("decides", drv.ask("mem.decides", I(kind), B(realloc), I(len(prev)), mem, I(int(pids[k])), F(xb[k]), F(yb[k])),
                                         (bool(moved[k]), bool(noop)), dict(cs, realloc=realloc)))
                        if drv.available and moved[k] and rec.log:
                            u = float(rec.log[0][3].ravel()[0]) if rec.log[0][3].size else 0.0
                            pend.append(("reseed", drv.ask("chem.reseed", F(xb[k]), F(u)), xa[k], cs))
                prev = {int(p): (float(x), float(y)) for p, x, y in zip(pids, xa, ya)}
                realloc = False
                # --- removal of dead particles (LADiM removes after the IBM update)
                if container == "real" and ctx.rng.random() < (0.6 if source else 0.3) and len(state.X) > 1:
                    kill = np.zeros(len(state.X), bool); kill[ctx.rng.randrange(len(state.X))] = True
                    state.remove(kill); realloc = True
                    prev = {p: v for p, v in prev.items() if p in set(int(q) for q in state.pid)}


def swimming(ctx, drv=None, pend=None):
    from . import ibmrun
    # lunar eel: horizontal_advect with the moon function forced on
    Me = ibmrun.mod("lunar_eel")
    for c in range(ctx.n(40, 600)):
        r = ctx.rng.randrange(5, 10); cc = ctx.rng.randrange(5, 10)
        M = np.array([[1 if ctx.rng.random() < 0.7 else 0 for _ in range(cc)] for _ in range(r)])
        saved = Me.get_moon_function
        Me.get_moon_function = lambda lat, lon: (lambda t: True)
        try:
            ibm = Me.IBM(dict(dt=600.0, ibm=dict(speed=ctx.rng.choice([0.1, 1.0, 3.0]), lunar_latlon=[60, 5], vertical_mixing=0.0, vertical_limits=[0.0, 50.0])))
        finally:
            Me.get_moon_function = saved
        ang = ctx.rng.uniform(0, 6.28)
        grid = Obj(grid=Obj(angle=np.full((r, cc), ang), dx=np.full((r, cc), 800.0), dy=np.full((r, cc), 800.0)),
                   ingrid=lambda x, y: (x > -0.5) & (x < cc - 0.5) & (y > -0.5) & (y < r - 0.5),
                   atsea=lambda x, y: M[np.clip(np.round(y).astype(int), 0, r - 1), np.clip(np.round(x).astype(int), 0, cc - 1)] > 0)
        n = 6
        X = np.array([ctx.rng.uniform(0, cc - 1) for _ in range(n)]); Y = np.array([ctx.rng.uniform(0, r - 1) for _ in range(n)])
        state = real_state(dt=600.0, timestamp=np.datetime64("2020-01-01T00:00:00"), X=X.copy(), Y=Y.copy(), Z=np.full(n, 5.0))
        with RngRecorder(ctx.sub_seed()):
            ibm.update_ibm(grid, state, None)
        bits = " ".join(str(int(v)) for v in M.ravel())
        for k in range(n):
            stayed = state.X[k] == X[k] and state.Y[k] == Y[k]
            xs, ys = np.array([state.X[k]]), np.array([state.Y[k]])
            ok = stayed or (bool(grid.ingrid(xs, ys)[0]) and bool(grid.atsea(xs, ys)[0]))
            ctx.case(key=("eel", c, k), nontrivial=True); ctx.branch("eel.directed_swim")
            if drv is not None and drv.available:
                i_ = int(np.round(X[k])); j_ = int(np.round(Y[k]))
                cx = X[k] + ibm.speed * ibm.dt * ibm.xs_dx[j_, i_]; cy = Y[k] + ibm.speed * ibm.dt * ibm.ys_dy[j_, i_]
                pend.append(("swim", drv.ask("swim.eel", F(-0.0 + 0.0), F(cc - 1.0), F(0.0), F(r - 1.0), I(r), I(cc), I(r * cc), bits, F(X[k]), F(Y[k]), F(cx), F(cy)),
                             (float(state.X[k]), float(state.Y[k]), None), dict(mask=M.tolist(), k=k, module="lunar_eel")))
            ctx.oracle(ok, "C11.lunar_eel.swam_onto_land_or_out", "ladim_plugins/lunar_eel/ibm.py::horizontal_advect",
                       "from (%r,%r) to (%r,%r)" % (X[k], Y[k], state.X[k], state.Y[k]), dict(mask=M.tolist(), k=k))
    # saithe: spread
    Ms = ibmrun.mod("saithe")
    for c in range(ctx.n(40, 600)):
        r = ctx.rng.randrange(5, 10); cc = ctx.rng.randrange(5, 10)
        M = np.array([[1 if ctx.rng.random() < 0.7 else 0 for _ in range(cc)] for _ in range(r)])
        ibm = Ms.IBM(dict(dt=ctx.rng.choice([600.0, 86400.0]), ibm=dict(extra_spreading=True)))
        env = LinEnv(h0=100.0, dx=800.0, xmin=0.0, xmax=cc - 1.0, ymin=0.0, ymax=r - 1.0)
        g = env.grid()
        g.atsea = lambda x, y: M[np.clip(np.round(y).astype(int), 0, r - 1), np.clip(np.round(x).astype(int), 0, cc - 1)] > 0
        n = 6
        X = np.array([ctx.rng.uniform(0, cc - 1) for _ in range(n)]); Y = np.array([ctx.rng.uniform(0, r - 1) for _ in range(n)])
        state = real_state(dt=ibm.dt, timestamp=np.datetime64("2020-06-01T12:00:00"), X=X.copy(), Y=Y.copy(), Z=np.full(n, 40.0),
                           age=np.array([ctx.rng.choice([10.0, 70.0, 100.0]) for _ in range(n)]), weight=np.full(n, 1.0),
                           egg_buoy=np.full(n, 33.0), temp=np.zeros(n), salt=np.zeros(n), direction=np.zeros(n))
        with RngRecorder(ctx.sub_seed()):
            ibm.update_ibm(g, state, env.forcing())
        bits = " ".join(str(int(v)) for v in M.ravel())
        d_after = np.array(state["direction"])
        for k in range(n):
            stayed = state.X[k] == X[k] and state.Y[k] == Y[k]
            xs, ys = np.array([state.X[k]]), np.array([state.Y[k]])
            ok = stayed or (bool(g.ingrid(xs, ys)[0]) and bool(g.atsea(xs, ys)[0]))
            ctx.case(key=("saithe", c, k), nontrivial=True); ctx.branch("saithe.directed_swim")
            directed = (not np.isnan(d_after[k])) and (state["age"][k] > ibm.hatch_day)
            if drv is not None and drv.available and directed:
                om = 1 / 800.0
                cx = X[k] + 1 * 0.01 * om * ibm.dt * np.cos(d_after[k]); cy = Y[k] + 1 * 0.01 * om * ibm.dt * np.sin(d_after[k])
                pend.append(("swim", drv.ask("swim.saithe", F(0.0), F(cc - 1.0), F(0.0), F(r - 1.0), I(r), I(cc), I(r * cc), bits, F(X[k]), F(Y[k]), F(cx), F(cy)),
                             (float(state.X[k]), float(state.Y[k]), bool(state.alive[k])), dict(mask=M.tolist(), k=k, module="saithe")))
            elif not directed:
                ctx.oracle(stayed and bool(state.alive[k]), "C11.saithe.undirected_moved", "ladim_plugins/saithe/ibm.py::spread",
                           "an egg / non-directed larva was moved or retired by the directed swimming", dict(mask=M.tolist(), k=k))
            ctx.oracle(ok, "C11.saithe.swam_onto_land_or_out", "ladim_plugins/saithe/ibm.py::spread",
                       "from (%r,%r) to (%r,%r)" % (X[k], Y[k], state.X[k], state.Y[k]), dict(mask=M.tolist(), k=k))


def run(ctx):
    G = importlib.import_module("ladim_plugins.chemicals.gridforce")
    drv = Driver()
    if getattr(ctx, "widened", False):
        drv.available = False
    pend = []
    helpers(ctx, drv, pend, G)
    histories(ctx, drv, pend, G)
    swimming(ctx, drv, pend)
    if drv.available:
        rep = drv.run()
        for kind, j, impl, cs in pend:
            st, t = rep[j]
            if st != "ok":
                ctx.disagreement("c11." + kind, "driver error %r" % (t,), cs); continue
            if kind == "close":
                ctx.eq("is_close_to_land", impl, t[0] == "1", cs)
            elif kind == "nearest":
                ctx.eq("nearest_unmasked", impl, (int(t[0]), int(t[1])) if t[0] != "none" else None, cs)
            elif kind == "decides":
                model = t[0] == "1"
                if model and not impl[0] and impl[1]:
                    ctx.branch("reseed_landed_on_same_position")     # re-seeded onto exactly the same coordinates
                    continue
                ctx.eq("reposition.decision", impl[0], model, cs)
            elif kind == "swim":
                got = (unF(t[0]), unF(t[1])) + ((t[2] == "1",) if impl[2] is not None else (None,))
                ctx.eq("directed_swim.%s" % cs["module"], (impl[0], impl[1], impl[2]), got, cs)
            elif kind == "reseed":
                ctx.eq_bits("reposition.reseed_x", impl, unF(t[0]), cs)


def replay(payload):
    print("predicate:", payload.get("predicate"), "|", payload.get("detail"))
    return False
