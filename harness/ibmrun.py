"""
Runs one `update_ibm` of each IBM module of /repo on a generated case (real code, in-process, draws
recorded) and asks the Lean model driver for the same particles.  Shared by C05, C07, C08, C09, C10, C20.

Each runner returns a dict
   before : per-particle arrays before the update
   after  : per-particle arrays after the update (implementation)
   model  : per-particle arrays from the model (filled by `finish(replies)`), or None without driver
   sched  : (expected draw schedule of the model, schedule the implementation requested)
   meta   : anything the oracles need (depth H at the new position, preconditions, ...)
"""
import importlib, math
import numpy as np
from .common import F, I, B, L, OPT, unF, RngRecorder
from .stubs import LinEnv, NumState, real_state, Obj

TS = np.datetime64("2020-06-15T12:00:00")
EPS1 = 1.0 - 2.0 ** -53


def mod(name):
    return importlib.import_module("ladim_plugins.%s.ibm" % name)


def lice_surface_light():
    """the surface-light function the salmon lice module calls *now*: its own name `surface_light` (the package's copy,
    since fix 2a83b24) or `light.surface_light` of whatever module it imports as `light` (LADiM's copy before)"""
    m = mod("salmon_lice")
    f = getattr(m, "surface_light", None)
    return f if f is not None else m.light.surface_light


def cfg_dt(case):
    """the time step as the configuration carries it: an int when the case asks for it (and it is integral)"""
    dt = case["dt"]
    if case.get("int_dt") and float(dt) == int(dt):
        return int(dt)
    return dt


def alive0(case):
    """optional case key `alive0`: liveness flags of the particles when `update_ibm` is called (default: all alive)"""
    a = case.get("alive0")
    return None if a is None else np.asarray(a, dtype=bool).copy()


def state_dt(case):
    """`state.dt` for the modules whose cases have no `sdt` key: optional case key `state_dt`, default the configured dt"""
    return case.get("state_dt", case["dt"])


def tail_injector(rng, p=0.15):
    """post-processes recorded draws: places tails and exact boundary values on a share of entries"""
    def inj(kind, params, v):
        flat = v.reshape(-1)
        for i in range(flat.size):
            if rng.random() < p:
                if kind in ("rand", "uniform"):
                    flat[i] = rng.choice([0.0, EPS1, 0.5, 2.0 ** -60, 0.25, 0.75])
                elif kind in ("randn", "normal"):
                    flat[i] = rng.choice([-8.0, 8.0, -5.5, 5.5, 0.0, -1e-12, 3.0, -3.0])
                elif kind == "exponential":
                    flat[i] = rng.choice([0.0, 40.0, 1e-12, 7.0])
        return flat.reshape(v.shape)
    return inj


def place_z(rng, H, n):
    """depths inside [0, H] with emphasis on the boundaries"""
    H = np.broadcast_to(np.asarray(H, dtype=float), (n,))
    z = np.empty(n)
    for i in range(n):
        r = rng.random()
        if r < 0.15:
            z[i] = 0.0
        elif r < 0.30:
            z[i] = H[i]
        elif r < 0.40:
            z[i] = H[i] * (1 - 2.0 ** -40)
        elif r < 0.50:
            z[i] = H[i] * 2.0 ** -40
        else:
            z[i] = rng.random() * H[i]
    return z


# ======================================================================================= chemicals
def chem_case(rng, n=None, horz=None, mix=None, land=None):
    n = rng.randrange(0, 9) if n is None else n
    h0 = rng.choice([5.0, 12.5, 50.0, 300.0])
    slope = rng.choice([0.0, 0.0, h0 / 64, -h0 / 128])
    env = LinEnv(h0=h0, hx=slope, hy=rng.choice([0.0, slope / 2]),
                 w0=rng.choice([0.0, 1e-4, -1e-4, 1e-3]), wz=rng.choice([0.0, 1e-6]),
                 kkind=rng.randrange(3), k0=rng.choice([1e-4, 1e-3, 1e-2]), k1=rng.choice([1e-5, 1e-3, 2e-2]),
                 zs=rng.choice([2.0, 5.0, 20.0]),
                 a0=rng.choice([0.0, 5.0, 50.0]), ax=rng.choice([0.0, 1.0]), ay=rng.choice([0.0, -0.5]),
                 dx=rng.choice([160.0, 800.0]))
    env.dy = env.dx * rng.choice([1.0, 1.0, 0.8, 1.25])     # anisotropic cells: sample_metric returns (dx, dy)
    dt = rng.choice([1.0, 60.0, 600.0, 3600.0])
    mixk = rng.randrange(3) if mix is None else mix
    if mixk == 0:
        mixing = ("none",)
    elif mixk == 1:
        mixing = ("const", rng.choice([1e-5, 1e-3, 1e-2]))
    else:
        mixing = ("labolle", rng.choice([dt, dt / 2, dt / 3, 7.0, 2 * dt]), rng.choice([0.0, 0.5, 1.0, 2.0]),
                  rng.choice([float("inf"), 0.05, 0.005]))
    horz = (rng.random() < 0.4) if horz is None else horz
    hz = (rng.choice([0.0, 1.0]), rng.choice([float("inf"), 20.0])) if horz else None
    lifespan = rng.choice([None, 100.0, 3600.0, 86400.0])
    x = np.array([rng.uniform(2, 19) for _ in range(n)])
    y = np.array([rng.uniform(2, 19) for _ in range(n)])
    H = env.depth(x, y)
    z = place_z(rng, H, n)
    age = np.array([rng.choice([0.0, 50.0, (lifespan or 100.0) - dt, (lifespan or 100.0), 1e5]) for _ in range(n)])
    case = dict(kind="chemicals", env=env, dt=dt, vertadv=rng.random() < 0.6, mixing=mixing, horz=hz,
                lifespan=lifespan, x=x, y=y, z=z, age=age, land=rng.choice(["freeze", "reposition"]))
    if land is not None:
        case["land"] = land
        if land == "coastal_diffusion":
            env.coastx = rng.choice([4.5, 10.5, 25.0])       # some / about half / all particles are coastal
    # configuration keys left to their defaults, integer time step (as written in a ladim.yaml)
    case["omit_defaults"] = rng.random() < 0.3
    case["int_dt"] = rng.random() < 0.3
    return case


def chem_ibm(case):
    ibmconf = dict(vertical_advection=case["vertadv"], land_collision=case["land"])
    m = case["mixing"]
    if m[0] == "const":
        ibmconf["vertical_mixing"] = m[1]
    elif m[0] == "labolle":
        ibmconf["vertical_mixing"] = "AKs"
        ibmconf["vertdiff_dt"] = m[1]
        ibmconf["vertdiff_dz"] = m[2]
        ibmconf["vertdiff_max"] = m[3]
    if case["horz"] is not None:
        ibmconf["horzdiff_type"] = "smagorinsky"
        ibmconf["horzdiff_min"] = case["horz"][0]
        ibmconf["horzdiff_max"] = case["horz"][1]
    if case["lifespan"] is not None:
        ibmconf["lifespan"] = case["lifespan"]
    if case.get("omit_defaults"):
        # every key whose configured value IS the documented default is left out
        for k, dflt in (("vertical_advection", True), ("land_collision", "reposition"), ("vertdiff_dt", case["dt"]),
                        ("vertdiff_dz", 0.0), ("vertdiff_max", float("inf")), ("horzdiff_min", 0.0),
                        ("horzdiff_max", float("inf"))):
            if k in ibmconf and type(ibmconf[k]) is type(dflt) and ibmconf[k] == dflt:
                del ibmconf[k]
    import logging
    logging.disable(logging.WARNING)
    try:
        return mod("chemicals").IBM(dict(dt=cfg_dt(case), ibm=ibmconf))
    finally:
        logging.disable(logging.NOTSET)


def chem_cfg_toks(case):
    m = case["mixing"]
    t = [F(case["dt"]), B(case["vertadv"])]
    if m[0] == "none":
        t.append("0")
    elif m[0] == "const":
        t += ["1", F(m[1])]
    else:
        t += ["2", F(m[1]), F(m[2]), F(m[3])]
    if case["horz"] is None:
        t.append("0")
    else:
        t += ["1", F(case["horz"][0]), F(case["horz"][1])]
    t.append(OPT(case["lifespan"]))
    # the collision handler (and the clamp to the sea bed that follows it) runs for reposition / coastal_diffusion
    t.append(B(case.get("land", "freeze") in ("reposition", "coastal_diffusion")))
    return " ".join(t)


def py_substeps(dt, vdt):
    out = []
    cur = 0.0
    while cur < dt and len(out) < 10000:
        nxt = min(dt, cur + vdt)
        out.append(nxt - cur)
        cur = nxt
    return out


def chem_run(case, seed, drv=None, inject=None, ibm=None, state=None):
    env = case["env"]
    n = len(case["x"])
    ibm = ibm or chem_ibm(case)
    state = state or real_state(dt=state_dt(case), alive=alive0(case), X=case["x"].copy(), Y=case["y"].copy(),
                                Z=case["z"].copy(), age=case["age"].copy())
    before = dict(x=state.X.copy(), y=state.Y.copy(), z=state.Z.copy(), age=state["age"].copy(),
                  alive=state.alive.copy())
    # who is re-seeded inside its cell by the collision handler (decided as the handler decides: remembered
    # position == current position for `reposition`, the grid's coastal mask for `coastal_diffusion`;
    # whether that decision is right is C11's subject, here it only fixes the draw schedule and the model's flag)
    order = np.zeros(0, dtype=int)
    if case["land"] == "reposition" and len(np.atleast_1d(ibm.pid)):
        _, io, inw = np.intersect1d(ibm.pid, state.pid, return_indices=True)
        on = (np.asarray(ibm.x)[io] == state.X[inw]) & (np.asarray(ibm.y)[io] == state.Y[inw])
        order = inw[on]
    elif case["land"] == "coastal_diffusion":
        order = np.nonzero(env.close_to_land(state.X, state.Y))[0]
    stuck = np.zeros(n, bool)
    stuck[order] = True
    with RngRecorder(seed, inject) as rec:
        ibm.update_ibm(env.grid(), state, env.forcing())
    after = dict(x=state.X.copy(), y=state.Y.copy(), z=state.Z.copy(), age=state["age"].copy(),
                 alive=state.alive.copy())
    # draw schedule declared by the model
    m = case["mixing"]
    nsub = 0 if m[0] == "none" else 1 if m[0] == "const" else len(py_substeps(case["dt"], m[1]))
    off = 2 if case["land"] in ("reposition", "coastal_diffusion") else 0
    nstuck = int(case.get("nstuck", len(order)))
    expected = [("rand", (nstuck,))] * off + [("rand", (n,))] * (nsub + (2 if case["horz"] is not None else 0))
    got = rec.schedule()
    res = dict(before=before, after=after, model=None, sched=(expected, got), meta={}, n=n)
    draws = [l[3] for l in rec.log][off:]
    res["draws"] = draws
    repx = np.zeros(n); repy = np.zeros(n)
    if off and expected == got and len(order):
        repx[order] = rec.log[0][3]
        repy[order] = rec.log[1][3]
    res["meta"]["stuck"] = stuck
    res["meta"]["rep_draws"] = (repx, repy)
    if drv is not None and expected == got:
        idx = []
        for i in range(n):
            vert = [draws[k][i] for k in range(nsub)]
            hx = draws[nsub][i] if case["horz"] is not None else 0.0
            hy = draws[nsub + 1][i] if case["horz"] is not None else 0.0
            idx.append(drv.ask("chem.update", chem_cfg_toks(case), env.toks(), B(stuck[i]), F(repx[i]), F(repy[i]),
                               L(vert), F(hx), F(hy),
                               F(before["x"][i]), F(before["y"][i]), F(before["z"][i]), F(before["age"][i]),
                               B(before["alive"][i])))

        def finish(replies):
            mm = dict(x=[], y=[], z=[], age=[], alive=[])
            for j in idx:
                st, t = replies[j]
                if st != "ok":
                    raise RuntimeError("driver error: %s" % (t,))
                mm["x"].append(unF(t[0])); mm["y"].append(unF(t[1])); mm["z"].append(unF(t[2]))
                mm["age"].append(unF(t[3])); mm["alive"].append(t[4] == "1")
            res["model"] = {k: np.array(v) for k, v in mm.items()}
        res["finish"] = finish
    # preconditions of the property (single vertical step smaller than the local depth)
    Hb = env.depth(before["x"], before["y"])
    if stuck.any():
        # a re-seeded particle takes its vertical steps at the new position: the step must be smaller than the
        # water depth there as well (np.round(x) - 0.5 + u, as `reposition` / `coastal_diffusion` compute it)
        xr = np.where(stuck, np.round(before["x"]) - 0.5 + repx, before["x"])
        yr = np.where(stuck, np.round(before["y"]) - 0.5 + repy, before["y"])
        Hb = np.minimum(Hb, env.depth(xr, yr))
    # largest diffusivity the scheme can sample: with `vertdiff_dz` > 0 the profile is read at the coarse depth
    # ((z - dz/2) // dz) * dz + dz <= z + dz/2, i.e. up to half a sampling distance below the deepest particle
    # (audit finding: without the dz/2 the precondition "step <= water depth" was claimed for steps slightly larger)
    dzc = float(m[2]) if (m[0] == "labolle" and len(m) > 2 and m[2]) else 0.0
    kmax = max(env.k0, env.k1 if env.kkind else env.k0,
               env.k0 + env.k1 * (float(np.max(Hb)) + 0.5 * dzc) if (env.kkind == 1 and n) else 0.0)
    if m[0] == "const":
        amp = math.sqrt(2 * m[1]) * math.sqrt(3 * case["dt"])
    elif m[0] == "labolle":
        amp = math.sqrt(2 * min(kmax, m[3])) * math.sqrt(3 * max(py_substeps(case["dt"], m[1]) or [0.0]))
    else:
        amp = 0.0
    wmax = abs(env.w0) + abs(env.wz) * (float(np.max(Hb)) if n else 0.0) * 2
    res["meta"]["precond"] = (amp <= Hb) & (case["dt"] * wmax <= Hb) if n else np.zeros(0, bool)
    if m[0] == "const" and n and expected == got:
        # the same precondition on the step actually drawn, sqrt(2D)*(2u-1)*sqrt(3dt), instead of its largest
        # possible value: after `advect`+`reflect` Z is in [0,H], so |step| <= H keeps Z+step in [-H,2H]
        step = math.sqrt(2 * m[1]) * ((np.asarray(draws[0]) * 2 - 1) * math.sqrt(3 * case["dt"]))
        res["meta"]["precond_actual"] = (np.abs(step) <= Hb) & (case["dt"] * wmax <= Hb)
    res["meta"]["H_after"] = env.depth(after["x"], after["y"])
    res["state"] = state
    res["ibm"] = ibm
    return res


# ======================================================================================= sedimentation
def sed_case(rng, n=None, carrier=None):
    n = rng.randrange(0, 9) if n is None else n
    h0 = rng.choice([5.0, 40.0, 250.0])
    dt = rng.choice([1.0, 60.0, 600.0])
    mixk = rng.randrange(3)
    mixing = [None, rng.choice([1e-4, 1e-2]), dict(method="bounded_linear", max_diff=rng.choice([1e-3, 1e-2]))][mixk]
    if mixk == 1 and rng.random() < 0.15:
        mixing = 0                      # `vertical_mixing: 0` as a ladim.yaml carries it (constant method, no spread)
    if mixk == 1 and rng.random() < 0.5:
        mixing = dict(method="constant", value=mixing)
    tk = rng.randrange(3)
    taucrit = [None, 0.12, 0.0][tk] if rng.random() < 0.8 else rng.choice([0.06, 0.32, 1.0])
    # bottom speed making tau = 1000*0.003*s^2 below / at / above the threshold
    tc = taucrit if taucrit is not None else 0.12
    s_at = math.sqrt(tc / 3.0) if tc > 0 else 0.0
    ub = np.array([rng.choice([0.0, s_at, s_at * (1 - 1e-9), s_at * (1 + 1e-9), 2 * s_at + 0.01, 0.3 * s_at]) for _ in range(n)])
    vb = np.array([rng.choice([0.0, 0.0, 0.01]) for _ in range(n)])
    carrier = rng.choice(["numeric", "bool"]) if carrier is None else carrier
    if carrier == "numeric":
        active = np.array([float(rng.choice([0, 1, 2])) for _ in range(n)])
    else:
        active = np.array([rng.choice([False, True]) for _ in range(n)])
    x = np.array([rng.uniform(2, 19) for _ in range(n)])
    y = np.array([rng.uniform(2, 19) for _ in range(n)])
    env = LinEnv(h0=h0, hx=rng.choice([0.0, h0 / 100]), hy=0.0)
    H = env.depth(x, y)
    z = place_z(rng, H, n)
    z[active == 0] = H[active == 0] if n else z[active == 0]
    lifespan = rng.choice([100.0, 3600.0, 1e6])
    age = np.array([rng.choice([0.0, lifespan - dt, lifespan, lifespan + 1]) for _ in range(n)])
    sink = np.array([rng.choice([0.0, 1e-3, 0.01, 0.1, 1e-7]) for _ in range(n)])
    if n and mixk == 0:
        for i in range(n):
            if active[i] != 0 and sink[i] > 0 and rng.random() < 0.3:
                cand = H[i] - dt * sink[i]
                for c_ in (cand, np.nextafter(cand, 0.0), np.nextafter(cand, 1e9)):
                    if c_ >= 0 and c_ + dt * sink[i] == H[i]:
                        z[i] = c_
                        break
    sdt = dt if rng.random() < 0.8 else rng.choice([dt, 2 * dt])
    return dict(kind="sedimentation", env=env, dt=dt, sdt=sdt, mixing=mixing, taucrit=taucrit, carrier=carrier,
                active=active, x=x, y=y, z=z, age=age, sink=sink, lifespan=lifespan, ub=ub, vb=vb,
                taucrit_dict=rng.random() < 0.3,      # sedimentation: taucrit given as {method: constant, value: v}
                int_dt=rng.random() < 0.3)


def _sed_state(case, timestep=0):
    arr = dict(X=case["x"].copy(), Y=case["y"].copy(), Z=case["z"].copy(), age=case["age"].copy(),
               sink_vel=case["sink"].copy())
    n = len(case["x"])
    al = alive0(case)
    al1 = np.ones(n, bool) if al is None else al
    if case.get("no_active"):
        # a state without an `active` variable (mine: `has_active()` is False); only the stub state can do that,
        # the real State always adds one
        return NumState(alive=al1, pid=np.arange(n), dt=case["sdt"], timestep=timestep, **arr)
    if case["carrier"] == "numeric":
        return NumState(active=case["active"].copy(), alive=al1, pid=np.arange(n), dt=case["sdt"],
                        timestep=timestep, **arr)
    st = real_state(dt=case["sdt"], timestep=timestep, alive=al, active=case["active"].copy(), **arr)
    return st


OFF_BED_SPEED = 7.0


def _sed_env_objs(case):
    """grid / forcing stubs of a sedimentation / mine case.  `velocity` is the *bottom* current: it returns the case's
    (ub, vb) for a particle when asked at that particle's position and at the bed there (z == depth(x, y), which is
    what `shear_velocity_btm` asks for); asked anywhere else it returns a current that is OFF_BED_SPEED m/s stronger,
    so that sampling the current at another depth / position changes the resuspension decisions.
    `wvel` = w + wz*z (optional case key `wz`, default 0: constant)."""
    env = case["env"]
    grid = env.grid()
    ub, vb = case["ub"], case["vb"]

    def velocity(x, y, z, tstep=0):
        u, v = ub.copy(), vb.copy()
        xx = np.asarray(x, dtype=float); zz = np.asarray(z, dtype=float)
        if xx.shape == u.shape and zz.shape == u.shape:
            off = zz != env.depth(xx, np.asarray(y, dtype=float))
            u[off] = u[off] + OFF_BED_SPEED
        return u, v

    def wvel(x, y, z, *a, **k):
        z = np.asarray(z, float)
        wz = case.get("wz", 0.0)
        if wz == 0.0:
            return np.zeros_like(z) + case.get("w", 0.0)
        return case.get("w", 0.0) + wz * z
    forcing = Obj(velocity=velocity, forcing=Obj(wvel=wvel))
    return grid, forcing


def grain_taucrit_candidates(method, grain, clon, clat, lon, lat):
    """critical stresses of the raster cells nearest to (lon, lat) by exhaustive search over the cell centres
    (clamped outside the raster); more than one value only when the point is (to 1e-9 relative) equally near to cells
    with different stresses.  `method`: grain_size_bin | grain_size_poly; `grain`: [lat, lon] array"""
    di = np.abs(lon - clon); dj = np.abs(lat - clat)
    near_i = np.flatnonzero(di <= di.min() * (1 + 1e-9) + 1e-12)
    near_j = np.flatnonzero(dj <= dj.min() * (1 + 1e-9) + 1e-12)
    cand = set()
    for i in near_i:
        for j in near_j:
            sed = float(grain[j, i])
            sed = 0.0 if sed != sed else sed
            if method == "grain_size_bin":
                t = 0.12
                if 0 < sed < 70:
                    t = 0.06
                if sed > 180:
                    t = 0.32
                t = float(np.float32(t))          # the bin table is kept in single precision
            else:
                t = 0.12 if sed == 0 else 6e-6 * sed ** 2 + 3e-5 * sed + 0.0591
            cand.add(t)
    return cand


def sed_taucrit_per_particle(case, x, y):
    """(critical stress per particle, ambiguous flags): the configured constant, or for a case with the optional key
    `taucrit_map` = dict(method, source, varname, grain[lat, lon], clon, clat) the stress of the raster cell nearest
    to the particle's (lon, lat) = env.lonlat(x, y)"""
    n = len(x)
    tm = case.get("taucrit_map")
    if not tm:
        return [case["taucrit"]] * n, np.zeros(n, bool)
    lon, lat = case["env"].lonlat(x, y)
    tcs = []; amb = np.zeros(n, bool)
    for i in range(n):
        c = sorted(grain_taucrit_candidates(tm["method"], tm["grain"], tm["clon"], tm["clat"], lon[i], lat[i]))
        tcs.append(c[0]); amb[i] = len(c) > 1
    return tcs, amb


def _mix_toks(mixing):
    if mixing is None:
        return "0"
    if isinstance(mixing, dict):
        if mixing["method"] == "constant":
            return "1 " + F(mixing["value"])
        return "2 " + F(mixing["max_diff"])
    return "1 " + F(mixing)


def sed_run(case, seed, drv=None, inject=None, ibm=None, state=None):
    n = len(case["x"])
    M = mod("sedimentation")
    ibmconf = dict(lifespan=case["lifespan"])
    if case["mixing"] is not None:
        ibmconf["vertical_mixing"] = case["mixing"]
    if case["taucrit"] is not None:
        ibmconf["taucrit"] = case["taucrit"]
        if case.get("taucrit_dict"):
            ibmconf["taucrit"] = dict(method="constant", value=case["taucrit"])
    if case.get("taucrit_map"):
        # optional: critical stress from a grain-size raster (the IBM reads the file when it is constructed)
        tm = case["taucrit_map"]
        ibmconf["taucrit"] = dict(method=tm["method"], source=tm["source"], varname=tm["varname"])
    ibm = ibm or M.IBM(dict(dt=cfg_dt(case), ibm=ibmconf))
    state = state or _sed_state(case)
    grid, forcing = _sed_env_objs(case)
    before = dict(z=state.Z.copy(), active=np.asarray(state.active).astype(int).copy(), alive=state.alive.copy(),
                  age=state["age"].copy(), sink=state["sink_vel"].copy())
    masks = {}
    orig_diffuse = ibm.diffuse

    def wrapped():
        masks["a"] = (np.asarray(state.active) != 0).copy()
        orig_diffuse()
    ibm.diffuse = wrapped
    with RngRecorder(seed, inject) as rec:
        ibm.update_ibm(grid, state, forcing)
    ibm.diffuse = orig_diffuse
    after = dict(z=state.Z.copy(), active=np.asarray(state.active).astype(int).copy(), alive=state.alive.copy(),
                 age=state["age"].copy(), sink=state["sink_vel"].copy())
    a = masks.get("a", np.zeros(n, bool))
    na = int(a.sum())
    new_sink = int((before["sink"] == 0).sum())
    expected = []
    if new_sink:
        expected.append(("rand", (new_sink,)))
    mixing = case["mixing"]
    if mixing is not None:
        if isinstance(mixing, dict) and mixing["method"] == "bounded_linear":
            expected.append(("normal", (na,)))
        else:
            expected.append(("randn", (na,)))
    got = rec.schedule()
    res = dict(before=before, after=after, model=None, sched=(expected, got), meta={}, n=n, state=state, ibm=ibm)
    H = case["env"].depth(case["x"], case["y"])
    res["meta"]["H"] = H
    xi = np.zeros(n)
    if mixing is not None and expected == got:
        xi[a] = rec.log[-1][3]
    res["xi"] = xi
    res["mask_active"] = a
    tcs, amb = sed_taucrit_per_particle(case, case["x"], case["y"])
    res["meta"]["tc"] = tcs
    res["meta"]["tc_ambiguous"] = amb
    if drv is not None and expected == got and not amb.any():
        idx = []
        for i in range(n):
            idx.append(drv.ask("sed.update", F(case["dt"]), F(case["sdt"]), F(case["lifespan"]), _mix_toks(mixing),
                               B(case["carrier"] == "numeric"), F(H[i]), F(case["ub"][i]), F(case["vb"][i]),
                               OPT(tcs[i]), F(after["sink"][i]), F(xi[i]),
                               F(before["z"][i]), I(before["active"][i]), B(before["alive"][i]), F(before["age"][i]),
                               F(before["sink"][i])))

        def finish(replies):
            mm = dict(z=[], active=[], alive=[], age=[], sink=[])
            for j in idx:
                st, t = replies[j]
                if st != "ok":
                    raise RuntimeError("driver error: %s" % (t,))
                mm["z"].append(unF(t[0])); mm["active"].append(int(t[1])); mm["alive"].append(t[2] == "1")
                mm["age"].append(unF(t[3])); mm["sink"].append(unF(t[4]))
            res["model"] = {k: np.array(v) for k, v in mm.items()}
        res["finish"] = finish
    return res


# ======================================================================================= mine
def mine_case(rng, n=None, no_active=False):
    c = sed_case(rng, n)
    c["kind"] = "mine"
    c["vdiff"] = rng.choice([0.0, 1e-4, 1e-2])
    c["taucrit"] = rng.choice([1000, 0.12, 0.0, 0.06, 2000.0])
    c["vadv"] = rng.random() < 0.3
    c["w"] = rng.choice([0.0, 1e-3, -1e-4])
    c["land"] = rng.choice(["freeze", "reposition"])
    c["omit_defaults"] = rng.random() < 0.3
    if no_active:
        # state without an `active` variable: every particle counts as suspended; `resuspend` needs the variable,
        # so this is a valid set-up only without resuspension (taucrit >= 1000)
        c["no_active"] = True
        c["carrier"] = "numeric"
        c["taucrit"] = rng.choice([1000, 2000.0])
        c["active"] = np.ones(len(c["x"]))
        c["z"] = place_z(rng, c["env"].depth(c["x"], c["y"]), len(c["x"]))
    return c


def mine_run(case, seed, drv=None, inject=None, ibm=None, state=None):
    n = len(case["x"])
    M = mod("mine")
    ibmconf = dict(lifespan=case["lifespan"], vertical_mixing=case["vdiff"], taucrit=case["taucrit"],
                   vertical_advection=case["vadv"], land_collision=case["land"])
    if case.get("omit_defaults"):
        # keys whose value is the documented default are left out of the configuration
        for k, dflt in (("vertical_mixing", 0.0), ("taucrit", 1000), ("vertical_advection", False),
                        ("land_collision", "reposition")):
            if type(ibmconf[k]) is type(dflt) and ibmconf[k] == dflt:
                del ibmconf[k]
    if case.get("output_file"):
        # optional: the separate file recording the dead particles (`store`), with the variables of `output_instance`
        ibmconf["output_file"] = case["output_file"]
    ibm = ibm or M.IBM(dict(dt=cfg_dt(case), ibm=ibmconf, output_instance=list(case.get("output_instance", [])),
                            nc_attributes=dict(case.get("nc_attributes", {}))))
    state = state or _sed_state(case)
    grid, forcing = _sed_env_objs(case)
    has_active = "active" in state

    def act():
        # without the variable every particle counts as suspended (flag 1), as `IBM.active()` has it
        return np.asarray(state.active).astype(int).copy() if has_active else np.ones(n, dtype=int)
    before = dict(z=state.Z.copy(), active=act(), alive=state.alive.copy(),
                  age=state["age"].copy(), sink=state["sink_vel"].copy(), x=state.X.copy(), y=state.Y.copy())
    # `land_collision: reposition` over a history (the same `ibm` object called again): which particles the handler
    # re-seeds inside their cell, by the rule it documents - a particle (matched by pid) that is where it was when
    # the handler last ran and is suspended now (LADiM's tracker does not move settled particles, so "has not moved"
    # says nothing about them).  Kept by the harness itself (`_harness_mem` = pid, X, Y after the previous call; mine
    # changes X, Y nowhere else), not read from the module's own memory.
    pid_now = np.asarray(state.pid).copy()
    stuck = np.zeros(n, bool); remembered = np.zeros(n, bool)
    mem = getattr(ibm, "_harness_mem", None)
    if case["land"] == "reposition" and mem is not None:
        where = {int(p): j for j, p in enumerate(mem[0])}
        for i in range(n):
            j = where.get(int(pid_now[i]))
            if j is not None:
                remembered[i] = True
                stuck[i] = bool(mem[1][j] == before["x"][i] and mem[2][j] == before["y"][i] and before["active"][i] != 0)
    masks = {}
    orig_diffuse = ibm.diffuse

    def wrapped():
        masks["a"] = (act() != 0)
        orig_diffuse()
    ibm.diffuse = wrapped
    with RngRecorder(seed, inject) as rec:
        ibm.update_ibm(grid, state, forcing)
    ibm.diffuse = orig_diffuse
    after = dict(z=state.Z.copy(), active=act(), alive=state.alive.copy(),
                 age=state["age"].copy(), sink=state["sink_vel"].copy(), x=state.X.copy(), y=state.Y.copy())
    a = masks.get("a", np.zeros(n, bool))
    na = int(a.sum())
    expected = []
    if case["land"] == "reposition":
        k = int(stuck.sum())        # 0 on the first call of an `ibm` object (nothing remembered yet)
        expected += [("rand", (k,)), ("rand", (k,))]
        ibm._harness_mem = (np.asarray(state.pid).copy(), after["x"].copy(), after["y"].copy())
    expected.append(("randn", (na,)))
    got = rec.schedule()
    res = dict(before=before, after=after, model=None, sched=(expected, got), meta={}, n=n, state=state, ibm=ibm)
    H = case["env"].depth(after["x"], after["y"])
    res["meta"]["H"] = H
    # optional extras for histories with `reposition`: local depth where the particle was when the update began, who
    # should have been re-seeded by the documented rule, who was known from the previous call
    res["meta"]["H_before"] = case["env"].depth(before["x"], before["y"])
    res["meta"]["stuck"] = stuck
    res["meta"]["remembered"] = remembered
    xi = np.zeros(n)
    if expected == got:
        xi[a] = rec.log[-1][3]
    res["xi"] = xi
    res["mask_active"] = a
    tc = None if case["taucrit"] >= 1000 else float(case["taucrit"])
    # vertical current met by each particle: w + wz*z at its depth after the random walk (reflected at the surface),
    # which is where `sink` samples it; with the default wz = 0 it is the constant `w`
    wz = case.get("wz", 0.0)
    wpart = np.zeros(n) + case["w"]
    if wz != 0.0:
        for i in range(n):
            z1 = before["z"][i] + math.sqrt(2 * case["vdiff"]) * (xi[i] * math.sqrt(case["dt"]))
            z1 = -z1 if z1 < 0 else z1
            wpart[i] = case["w"] + wz * z1
    res["meta"]["w"] = wpart
    if drv is not None and expected == got:
        idx = []
        for i in range(n):
            idx.append(drv.ask("mine.update", F(case["dt"]), F(case["sdt"]), F(case["lifespan"]), F(case["vdiff"]),
                               OPT(tc), B(case["vadv"]), B(has_active), B(case["carrier"] == "numeric"),
                               F(H[i]), F(case["ub"][i]), F(case["vb"][i]), F(wpart[i]), F(xi[i]),
                               F(before["z"][i]), I(before["active"][i]), B(before["alive"][i]), F(before["age"][i]),
                               F(before["sink"][i])))

        def finish(replies):
            mm = dict(z=[], active=[], alive=[], age=[], sink=[])
            for j in idx:
                st, t = replies[j]
                if st != "ok":
                    raise RuntimeError("driver error: %s" % (t,))
                mm["z"].append(unF(t[0])); mm["active"].append(int(t[1])); mm["alive"].append(t[2] == "1")
                mm["age"].append(unF(t[3])); mm["sink"].append(unF(t[4]))
            res["model"] = {k: np.array(v) for k, v in mm.items()}
        res["finish"] = finish
    return res


# ======================================================================================= egg
def ts_env(rng):
    return LinEnv(h0=500.0, t0=rng.choice([-1.5, 0.0, 4.0, 8.0, 15.0, 25.0]), tz=rng.choice([0.0, -0.01]),
                  s0=rng.choice([5.0, 20.0, 30.0, 34.5, 36.0]), sz=rng.choice([0.0, 0.01]),
                  lon0=rng.choice([-30.0, 5.0, 20.0]), lat0=rng.choice([45.0, 60.0, 70.0, 80.0]))


def egg_case(rng, n=None, exact_cap=False):
    n = rng.randrange(0, 9) if n is None else n
    env = ts_env(rng)
    dt = rng.choice([60.0, 600.0, 3600.0, 1000.0, 7000.0])
    z = np.array([rng.choice([0.0, 1e-9, 0.5, 10.0, 150.0, 199.0, 199.999, rng.uniform(0, 199.9)]) for _ in range(n)])
    case = dict(kind="egg", env=env, dt=dt, D=rng.choice([0.0, 1e-4, 1e-2, 1.0]),
                diam=rng.choice([0.0011, 0.0014, 0.003, 0.0005]),
                x=np.full(n, 5.0), y=np.full(n, 5.0), z=z,
                buoy=np.array([rng.choice([20.0, 30.0, 33.0, 34.5, 35.0, 40.0]) for _ in range(n)]),
                age=np.array([rng.uniform(0, 100) for _ in range(n)]))
    if n and exact_cap:
        # exact-boundary case (opt-in: it fixes the normal draw, which callers measuring the spread must not get
        # unasked): neutrally buoyant eggs (egg_buoy == salinity, uniform water: the buoyant velocity is
        # exactly 0) and one fixed normal draw for all, so that Z + W*dt lands exactly on the 200 m cap (must be
        # put back to 199) or on the last double below it (must stay)
        case["D"] = D = rng.choice([1e-4, 1e-2, 1.0])
        env.tz = 0.0; env.sz = 0.0
        case["buoy"] = np.full(n, env.s0)
        xi = case["force_normal"] = rng.choice([3.0, 0.5, 8.0])
        W = -0.0 + xi * (2 * D / dt) ** 0.5
        below = np.nextafter(200.0, 0.0)
        for i in range(n):
            target = rng.choice([200.0, 200.0, below])
            z0 = target - W * dt
            for cand in (z0, np.nextafter(z0, 0.0), np.nextafter(z0, 300.0), np.nextafter(np.nextafter(z0, 0.0), 0.0),
                         np.nextafter(np.nextafter(z0, 300.0), 300.0)):
                if 0 <= cand < 200.0 and cand + W * dt == target:
                    case["z"][i] = cand
                    break
    case["int_dt"] = rng.random() < 0.3
    return case


def forced(inject, value):
    """injector that serves `value` for every normal draw (after the caller's own injector)"""
    def inj(kind, params, v):
        if inject is not None:
            v = inject(kind, params, v)
        if kind in ("normal", "randn"):
            v = np.full(np.shape(v), float(value))
        return v
    return inj


def egg_run(case, seed, drv=None, inject=None, ibm=None, state=None):
    n = len(case["x"])
    env = case["env"]
    ibm = ibm or mod("egg").IBM(dict(dt=cfg_dt(case), ibm=dict(vertical_mixing=case["D"], egg_diam=case["diam"])))
    if case.get("force_normal") is not None:
        inject = forced(inject, case["force_normal"])
    state = state or real_state(dt=state_dt(case), alive=alive0(case), X=case["x"].copy(), Y=case["y"].copy(),
                                Z=case["z"].copy(), age=case["age"].copy(), egg_buoy=case["buoy"].copy(),
                                temp=np.zeros(n), salt=np.zeros(n))
    before = dict(z=state.Z.copy(), age=state["age"].copy(), alive=state.alive.copy())
    with RngRecorder(seed, inject) as rec:
        ibm.update_ibm(env.grid(), state, env.forcing())
    after = dict(z=state.Z.copy(), age=state["age"].copy(), temp=state["temp"].copy(), salt=state["salt"].copy(),
                 alive=state.alive.copy())
    expected = [("normal", (n,))] if case["D"] > 0 else []
    got = rec.schedule()
    res = dict(before=before, after=after, model=None, sched=(expected, got), meta={}, n=n, state=state, ibm=ibm)
    xi = rec.log[0][3] if (expected == got and expected) else None
    res["xi"] = xi
    if drv is not None and expected == got:
        idx = []
        for i in range(n):
            idx.append(drv.ask("egg.update", F(case["D"]), F(case["dt"]), F(case["diam"]), F(after["temp"][i]),
                               F(after["salt"][i]), F(case["buoy"][i]), OPT(None if xi is None else xi[i]),
                               F(before["z"][i]), F(before["age"][i])))

        def finish(replies):
            mm = dict(z=[], age=[], W=[])
            for j in idx:
                st, t = replies[j]
                if st != "ok":
                    raise RuntimeError("driver error: %s" % (t,))
                mm["z"].append(unF(t[0])); mm["age"].append(unF(t[1])); mm["W"].append(unF(t[2]))
            res["model"] = {k: np.array(v) for k, v in mm.items()}
        res["finish"] = finish
    return res


# ======================================================================================= salmon lice
def lice_case(rng, n=None):
    n = rng.randrange(0, 9) if n is None else n
    env = ts_env(rng)
    dt = rng.choice([60.0, 600.0, 3600.0, 1000.0, 7000.0, 100000.0])
    hour = rng.choice([0, 3, 6, 9, 12, 15, 18, 21])
    ts = np.datetime64("2020-%02d-15T%02d:00:00" % (rng.choice([1, 3, 6, 9, 12]), hour))
    z = np.array([rng.choice([0.0, 1e-9, 0.5, 5.0, 19.0, 19.999, rng.uniform(0, 19.9)]) for _ in range(n)])
    age = np.array([rng.choice([0.0, 39.99, 40.0, 100.0, 169.99, 170.0, 171.0, rng.uniform(0, 180)]) for _ in range(n)])
    D = rng.choice([0.0, 1e-3, 1e-2])
    omit = rng.random() < 0.3           # `vertical_mixing` left out when it has its default value (1e-3)
    int_dt = rng.random() < 0.3
    if n and rng.random() < 0.25:
        # exact-boundary case: no mixing, fresh water (every louse swims down with +5e-4 m/s) so that
        # Z + W*dt lands exactly on the 20 m cap; ages that land exactly on 40 and 170 degree-days
        D = 0.0
        env = LinEnv(h0=500.0, t0=rng.choice([4.0, 8.0, 16.0]), tz=0.0, s0=5.0, sz=0.0)
        step = 5e-4 * dt
        for i in range(n):
            for cand in (20.0 - step, np.nextafter(20.0 - step, 0.0), np.nextafter(20.0 - step, 30.0)):
                if cand + 5e-4 * dt == 20.0:
                    z[i] = cand
                    break
        inc = env.t0 * dt / 86400
        for i in range(n):
            target = rng.choice([40.0, 170.0])
            for cand in (target - inc, np.nextafter(target - inc, 0.0), np.nextafter(target - inc, 1e3)):
                if cand + inc == target:
                    age[i] = cand
                    break
    return dict(kind="salmon_lice", env=env, dt=dt, sdt=dt, D=D, ts=ts,
                x=np.full(n, 5.0), y=np.full(n, 5.0), z=z, age=age,
                days=np.array([rng.uniform(0, 20) for _ in range(n)]),
                super=np.array([rng.choice([1.0, 100.0, 0.5]) for _ in range(n)]),
                omit_defaults=omit, int_dt=int_dt)


def lice_run(case, seed, drv=None, inject=None, ibm=None, state=None):
    n = len(case["x"])
    env = case["env"]
    conf = dict(vertical_mixing=case["D"])
    if case.get("omit_defaults") and case["D"] == 1e-3:
        conf = {}
    ibm = ibm or mod("salmon_lice").IBM(dict(dt=cfg_dt(case), ibm=conf))
    state = state or real_state(dt=case["sdt"], timestamp=case["ts"], alive=alive0(case), X=case["x"].copy(),
                                Y=case["y"].copy(),
                                Z=case["z"].copy(), age=case["age"].copy(), days=case["days"].copy(),
                                super=case["super"].copy(), temp=np.zeros(n), salt=np.zeros(n))
    before = dict(z=state.Z.copy(), age=state["age"].copy(), days=state["days"].copy(), super=state["super"].copy(),
                  alive=state.alive.copy())
    with RngRecorder(seed, inject) as rec:
        ibm.update_ibm(env.grid(), state, env.forcing())
    after = dict(z=state.Z.copy(), age=state["age"].copy(), days=state["days"].copy(), super=state["super"].copy(),
                 alive=state.alive.copy(), temp=state["temp"].copy(), salt=state["salt"].copy())
    expected = [("rand", (n,))] + ([("normal", (n,))] if case["D"] > 0 else [])
    got = rec.schedule()
    res = dict(before=before, after=after, model=None, sched=(expected, got), meta={}, n=n, state=state, ibm=ibm)
    lon, lat = env.lonlat(case["x"], case["y"])
    light0 = lice_surface_light()(case["ts"], lon, lat) if n else np.zeros(0)
    res["meta"]["light0"] = light0
    # recorded draws for the oracles: `r` the uniform draw of the salinity tolerance, `xi` the normal draw (None: no mixing)
    res["r"] = rec.log[0][3] if expected == got else None
    res["xi"] = rec.log[1][3] if (expected == got and case["D"] > 0) else None
    if drv is not None and expected == got:
        r = rec.log[0][3]
        xi = rec.log[1][3] if case["D"] > 0 else None
        idx = []
        for i in range(n):
            idx.append(drv.ask("lice.update", F(case["D"]), F(case["dt"]), F(case["sdt"]), F(0.2), F(5e-4),
                               F(after["temp"][i]), F(after["salt"][i]), F(light0[i]), F(r[i]),
                               OPT(None if xi is None else xi[i]), F(before["z"][i]), F(before["age"][i]),
                               F(before["days"][i]), F(before["super"][i]), B(before["alive"][i])))

        def finish(replies):
            mm = dict(z=[], age=[], days=[], super=[], alive=[])
            for j in idx:
                st, t = replies[j]
                if st != "ok":
                    raise RuntimeError("driver error: %s" % (t,))
                mm["z"].append(unF(t[0])); mm["age"].append(unF(t[1])); mm["days"].append(unF(t[2]))
                mm["super"].append(unF(t[3])); mm["alive"].append(t[4] == "1")
            res["model"] = {k: np.array(v) for k, v in mm.items()}
        res["finish"] = finish
    return res


# ======================================================================================= larvae / saithe
SPECIES = dict(
    cod=dict(egg_diam=0.0014, hatch_day=93.7, swim_speed=0.1, light=1, min_depth=0, max_depth=1000, init_larvae_weight=9.3e-2),
    saithe=dict(egg_diam=0.0011, hatch_day=60, swim_speed=0.2, light=1, init_larvae_weight=9.3e-2, min_depth=30, max_depth=60),
)


def larvae_case(rng, n=None, module=None):
    n = rng.randrange(0, 9) if n is None else n
    env = ts_env(rng)
    module = module or rng.choice(["larvae", "saithe"])
    dt = rng.choice([60.0, 600.0, 3600.0, 1000.0, 7000.0])
    hour = rng.choice([0, 3, 6, 9, 12, 15, 18, 21])
    ts = np.datetime64("2020-%02d-15T%02d:00:00" % (rng.choice([1, 3, 6, 9, 12]), hour))
    if module == "saithe":
        sp = dict(SPECIES["saithe"]); species = "saithe"; over = {}
        k = 0.2; D = 1e-4
    else:
        species = rng.choice(["cod", "saithe"])
        sp = dict(SPECIES[species])
        over = {}
        if rng.random() < 0.5:
            over = dict(min_depth=rng.choice([0, 5, 30, 2.5, 30.0]), max_depth=rng.choice([40, 60, 200, 30, 57.5, 30]),
                        light=rng.choice([0.01, 1, 50]), swim_speed=rng.choice([0.05, 0.5]))   # min <= max, 30/30: one depth
            if rng.random() < 0.5:
                over["hatch_day"] = rng.choice([50.0, 93.7])
        sp.update(over)
        k = rng.choice([0.0, 0.05, 0.2, 1.0]); D = rng.choice([0.0, 1e-4, 1e-2])
    lo, hi = float(sp["min_depth"]), float(sp["max_depth"])
    z = np.array([rng.choice([lo, hi, (lo + hi) / 2, rng.uniform(lo, hi), lo + 1e-9]) for _ in range(n)])
    hd = float(sp["hatch_day"])
    age = np.array([rng.choice([0.0, hd - 1e-9, hd, hd + 1e-9, hd + 20, rng.uniform(0, 2 * hd)]) for _ in range(n)])
    weight = np.array([rng.choice([0.0, 0.05, 0.093, 0.5, 5.0, 200.0]) for _ in range(n)])
    case = dict(kind=module, species=species, over=over, sp=sp, env=env, dt=dt, sdt=dt, ts=ts, k=k, D=D,
                x=np.full(n, 5.0), y=np.full(n, 5.0), z=z, age=age, weight=weight,
                buoy=np.array([rng.choice([25.0, 31.0, 34.0, 36.0]) for _ in range(n)]))
    if module == "saithe":
        # saithe eggs are not confined to [30, 60]: they are anywhere in the water column, also right under the
        # surface; a larva that hatched during the previous update (age just past the hatch day) is still where
        # the egg was.  Older larvae have been clipped before and stay inside the band.
        for i in range(n):
            if age[i] <= hd + 1e-9 and rng.random() < 0.6:
                z[i] = rng.choice([0.0, 1e-9, 0.5, 5.0, 29.0, 29.999999, 60.000001, 61.0, 150.0, rng.uniform(0, 200)])
        case["spread"] = rng.random() < 0.3          # `extra_spreading` (the module's default is on)
        x = np.array([rng.choice([5.0, 1.2, 19.8, rng.uniform(2, 19)]) for _ in range(n)])
        case["x"] = x if case["spread"] else case["x"]
        case["direction"] = np.array([rng.choice([0.0, 0.0, 1.0, 3.0, float("nan")]) for _ in range(n)])
    case["omit_defaults"] = rng.random() < 0.3
    case["int_dt"] = rng.random() < 0.3
    return case


def larvae_run(case, seed, drv=None, inject=None, ibm=None, state=None):
    n = len(case["x"])
    env = case["env"]
    spread = bool(case.get("spread")) and case["kind"] == "saithe"
    if case["kind"] == "saithe":
        sconf = dict(extra_spreading=False)
        if spread:
            sconf = {} if case.get("omit_defaults") else dict(extra_spreading=True)
        ibm = ibm or mod("saithe").IBM(dict(dt=cfg_dt(case), ibm=sconf))
    else:
        conf = dict(species=case["species"], extinction_coeff=case["k"], vertical_mixing=case["D"])
        if case.get("omit_defaults"):
            # keys whose value is the documented default are left out
            if case["k"] == 0.2:
                del conf["extinction_coeff"]
            if case["D"] == 0.0:
                del conf["vertical_mixing"]
        conf.update(case["over"])
        ibm = ibm or mod("larvae").IBM(dict(dt=cfg_dt(case), ibm=conf))
    if case.get("force_normal") is not None:
        # optional case key (as in egg_run): every normal draw of the update is `force_normal`; with 0.0 the mixing
        # term vanishes, which is the only way to observe saithe's deterministic velocity (its D is hard-coded)
        inject = forced(inject, case["force_normal"])
    direction = case["direction"].copy() if (spread and "direction" in case) else np.zeros(n)
    state = state or real_state(dt=case["sdt"], timestamp=case["ts"], alive=alive0(case), X=case["x"].copy(),
                                Y=case["y"].copy(),
                                Z=case["z"].copy(), age=case["age"].copy(), weight=case["weight"].copy(),
                                egg_buoy=case["buoy"].copy(), temp=np.zeros(n), salt=np.zeros(n),
                                direction=direction)
    before = dict(z=state.Z.copy(), age=state["age"].copy(), weight=state["weight"].copy(), alive=state.alive.copy())
    nnew = int((np.asarray(state["direction"]) == 0).sum()) if spread else 0
    with RngRecorder(seed, inject) as rec:
        ibm.update_ibm(env.grid(), state, env.forcing())
    after = dict(z=state.Z.copy(), age=state["age"].copy(), weight=state["weight"].copy(),
                 temp=state["temp"].copy(), salt=state["salt"].copy(), alive=state.alive.copy())
    expected = ([("rand", (nnew,))] if spread else []) + ([("normal", (n,))] if case["D"] else [])
    got = rec.schedule()
    res = dict(before=before, after=after, model=None, sched=(expected, got), meta={}, n=n, state=state, ibm=ibm)
    from ladim_plugins.utils import light as L_
    lon, lat = env.lonlat(case["x"], case["y"])
    LM = importlib.import_module("ladim_plugins.utils.light")
    light0 = LM.surface_light(case["ts"], lon, lat) if n else np.zeros(0)
    res["meta"]["light0"] = light0
    sp = case["sp"]
    res["meta"]["is_egg"] = before["age"] <= float(sp["hatch_day"])
    res["xi"] = rec.log[-1][3] if (case["D"] and expected == got) else None
    # with `extra_spreading` the driver's larva.update cannot express the horizontal part: no model request
    if drv is not None and expected == got and not spread:
        xi = rec.log[0][3] if case["D"] else None
        idx = []
        for i in range(n):
            idx.append(drv.ask("larva.update", F(sp["hatch_day"]), F(sp["init_larvae_weight"]), F(sp["swim_speed"]),
                               F(sp["light"]), F(sp["min_depth"]), F(sp["max_depth"]), F(case["k"]), F(case["D"]),
                               F(case["dt"]), F(case["sdt"]), F(sp["egg_diam"]), B(case["kind"] != "saithe"),
                               F(after["temp"][i]), F(after["salt"][i]), F(case["buoy"][i]), F(light0[i]),
                               OPT(None if xi is None else xi[i]), F(before["z"][i]), F(before["age"][i]),
                               F(before["weight"][i])))

        def finish(replies):
            mm = dict(z=[], age=[], weight=[])
            for j in idx:
                st, t = replies[j]
                if st != "ok":
                    raise RuntimeError("driver error: %s" % (t,))
                mm["z"].append(unF(t[0])); mm["age"].append(unF(t[1])); mm["weight"].append(unF(t[2]))
            res["model"] = {k: np.array(v) for k, v in mm.items()}
        res["finish"] = finish
    return res


# ======================================================================================= sand eel (vertical)
def sandeel_case(rng, n=None):
    n = rng.randrange(0, 9) if n is None else n
    h0 = rng.choice([5.0, 40.0, 250.0])
    env = LinEnv(h0=h0, hx=rng.choice([0.0, h0 / 100]))
    dt = rng.choice([60.0, 600.0, 3600.0, 1000.0, 7000.0])
    maxd = rng.choice([3.0, 30.0, 1000.0])
    x = np.array([rng.uniform(2, 19) for _ in range(n)])
    y = np.array([rng.uniform(2, 19) for _ in range(n)])
    lim = np.minimum(maxd, env.depth(x, y))
    z = place_z(rng, lim, n)
    stage = np.array([rng.choice([2.5, 3.0]) for _ in range(n)])   # past development: only vertical_diffuse acts
    active = np.array([rng.random() < 0.8 for _ in range(n)])
    if rng.random() < 0.5:
        # all life stages: eggs (stage < 1, resting, some hatching during this update), drifting larvae
        # (1 <= stage < 2, some reaching metamorphosis during this update) and settled juveniles; the flag is what
        # the development functions left behind at the end of the previous update
        stage = np.array([rng.choice([0.0, 0.5, 0.999, 0.999999, 1.0, 1.5, 1.999, 1.999999, 2.0, 2.5]) for _ in range(n)])
        active = (stage >= 1) & (stage < 2)
    return dict(kind="sandeel", env=env, dt=dt, D=rng.choice([1e-5, 1e-3, 1e-1]), maxd=maxd, x=x, y=y, z=z,
                stage=stage, active=active,
                hatch=np.array([rng.uniform(0.01, 1) for _ in range(n)]), int_dt=rng.random() < 0.3)


def sandeel_run(case, seed, drv=None, inject=None, ibm=None, state=None):
    n = len(case["x"])
    env = case["env"]
    ibm = ibm or mod("sandeel").IBM(dict(dt=cfg_dt(case), ibm=dict(vertical_mixing=case["D"], max_depth=case["maxd"])))
    state = state or real_state(dt=case["dt"], X=case["x"].copy(), Y=case["y"].copy(), Z=case["z"].copy(),
                                stage=case["stage"].copy(), hatch_rate=case["hatch"].copy(),
                                active=case["active"].copy())
    g = env.grid()
    g.grid = Obj(i0=0, j0=0)
    f = env.forcing()
    f.forcing = Obj(temp=np.full((1, 32, 32), 7.0))
    if case.get("btemp_lin") is not None:
        # optional: bottom temperature a + bx*i + cy*j in cell (i, j) instead of 7 degrees everywhere
        a_, bx_, cy_ = case["btemp_lin"]
        jj, ii = np.meshgrid(np.arange(32), np.arange(32), indexing="ij")
        f.forcing = Obj(temp=(a_ + bx_ * ii + cy_ * jj)[None, :, :].astype(float))
    before = dict(z=state.Z.copy(), active=state.active.copy(), stage=state["stage"].copy(),
                  hatch=state["hatch_rate"].copy())
    masks = {}
    orig_vd = ibm.vertical_diffuse

    def wrapped():
        # who takes part in the vertical random walk: the flag as the development functions of THIS update leave it
        masks["a"] = (np.asarray(state["active"]) != 0).copy()
        orig_vd()
    ibm.vertical_diffuse = wrapped
    try:
        with RngRecorder(seed, inject) as rec:
            ibm.update_ibm(g, state, f)
    finally:
        ibm.vertical_diffuse = orig_vd
    after = dict(z=state.Z.copy(), active=state.active.copy(), stage=state["stage"].copy(),
                 hatch=state["hatch_rate"].copy())
    a = masks.get("a", before["active"] != 0)
    nh = int((before["hatch"] == 0).sum())           # particles whose hatch rate is drawn in this update
    expected = ([("rand", (nh,))] if nh else []) + [("normal", (int(a.sum()),))]
    got = rec.schedule()
    res = dict(before=before, after=after, model=None, sched=(expected, got), meta={}, n=n, state=state, ibm=ibm)
    H = env.depth(case["x"], case["y"])
    res["meta"]["H"] = H
    xi = np.zeros(n)
    if expected == got:
        xi[a] = rec.log[-1][3]
    res["xi"] = xi
    res["mask_active"] = a
    if drv is not None and expected == got:
        idx = []
        for i in range(n):
            if a[i]:
                idx.append((i, drv.ask("sandeel.z", F(case["D"]), F(case["dt"]), F(case["maxd"]), F(H[i]), F(xi[i]),
                                       F(before["z"][i]))))

        def finish(replies):
            z = before["z"].copy()
            for i, j in idx:
                st, t = replies[j]
                if st != "ok":
                    raise RuntimeError("driver error: %s" % (t,))
                z[i] = unF(t[0])
            res["model"] = dict(z=z)
        res["finish"] = finish
    return res


# ======================================================================================= lunar eel (vertical)
def eel_case(rng, n=None):
    n = rng.randrange(0, 9) if n is None else n
    lo = rng.choice([0.0, 5.0, 50.0]); hi = lo + rng.choice([1.0, 20.0, 300.0, 0.0])     # hi == lo: a single depth
    z = place_z(rng, hi - lo, n) + lo
    return dict(kind="lunar_eel", dt=rng.choice([60.0, 600.0, 3600.0]), D=rng.choice([1e-5, 1e-3, 1e-1]), lo=lo, hi=hi,
                x=np.array([rng.choice([5.0, rng.uniform(2, 19)]) for _ in range(n)]), y=np.full(n, 5.0), z=z,
                moon=rng.random() < 0.4,            # the moon is up in the right phase: the eels also swim horizontally
                int_limits=rng.random() < 0.3, int_dt=rng.random() < 0.3)


def eel_run(case, seed, drv=None, inject=None, ibm=None, state=None):
    n = len(case["x"])
    M = mod("lunar_eel")
    saved = M.get_moon_function
    moon = bool(case.get("moon"))
    M.get_moon_function = lambda lat, lon: (lambda t: moon)
    lims = [case["lo"], case["hi"]]
    if case.get("int_limits"):
        lims = [int(v) for v in lims]               # the limits are whole metres: as ints, as a ladim.yaml has them
    try:
        ibm = ibm or M.IBM(dict(dt=cfg_dt(case), ibm=dict(speed=0.1, lunar_latlon=[60, 5], vertical_mixing=case["D"],
                                                          vertical_limits=lims)))
    finally:
        M.get_moon_function = saved
    if moon:
        # southward swimming on an unrotated 100 m grid (what `init_grid` computes for angle 0, dx = dy = 100)
        ibm.xs_dx = np.full((32, 32), np.sin(np.pi) / 100.0); ibm.ys_dy = np.full((32, 32), np.cos(np.pi) / 100.0)
    else:
        ibm.xs_dx = np.zeros((32, 32)); ibm.ys_dy = np.zeros((32, 32))
    state = state or real_state(dt=case["dt"], timestamp=TS, X=case["x"].copy(), Y=case["y"].copy(), Z=case["z"].copy())
    before = dict(z=state.Z.copy())
    with RngRecorder(seed, inject) as rec:
        ibm.update_ibm(LinEnv().grid() if moon else Obj(), state, None)
    after = dict(z=state.Z.copy())
    expected = [("normal", (n,))]
    got = rec.schedule()
    res = dict(before=before, after=after, model=None, sched=(expected, got), meta={}, n=n, state=state, ibm=ibm)
    xi = rec.log[0][3] if expected == got else np.zeros(n)
    res["xi"] = xi
    if drv is not None and expected == got:
        idx = [drv.ask("eel.z", F(case["D"]), F(case["dt"]), F(case["lo"]), F(case["hi"]), F(xi[i]), F(before["z"][i]))
               for i in range(n)]

        def finish(replies):
            z = []
            for j in idx:
                st, t = replies[j]
                if st != "ok":
                    raise RuntimeError("driver error: %s" % (t,))
                z.append(unF(t[0]))
            res["model"] = dict(z=np.array(z))
        res["finish"] = finish
    return res


# ======================================================================================= shrimp
def shrimp_case(rng, n=None):
    n = rng.randrange(0, 9) if n is None else n
    env = ts_env(rng)
    dt = rng.choice([60.0, 600.0, 3600.0, 1000.0, 7000.0, 100000.0])
    hour = rng.choice([0, 3, 6, 9, 12, 15, 18, 21])
    ts = np.datetime64("2020-%02d-15T%02d:00:00" % (rng.choice([1, 3, 6, 9, 12]), hour))
    vm = [rng.choice([0.0, 1e-4, 1e-2]) for _ in range(5)]
    vs = [rng.choice([0.0, 1e-3, 1e-2, 0.05]) for _ in range(5)]
    mind_d = [rng.choice([0.0, 5.0, 20.0]) for _ in range(5)]
    maxd_d = [m + rng.choice([0.0, 10.0, 50.0]) for m in mind_d]
    mind_n = [rng.choice([0.0, 1.0, 10.0]) for _ in range(5)]
    maxd_n = [m + rng.choice([0.0, 5.0, 30.0]) for m in mind_n]
    stage = np.array([rng.choice([0.0, 1.0, 1.5, 2.0, 3.999, 5.0, 5.9999, 6.0, rng.uniform(1, 6)]) for _ in range(n)])
    z = np.array([rng.choice([0.0, 0.1, 5.45, 30.0, rng.uniform(0, 80)]) for _ in range(n)])
    q = np.array([rng.choice([0.0, rng.uniform(0.001, 1), 0.5]) for _ in range(n)])
    return dict(kind="shrimp", env=env, dt=dt, ts=ts, vm=vm, vs=vs, mind_d=mind_d, maxd_d=maxd_d, mind_n=mind_n,
                maxd_n=maxd_n, x=np.full(n, 5.0), y=np.full(n, 5.0), z=z, stage=stage, q=q,
                age=np.array([rng.uniform(0, 50) for _ in range(n)]), int_dt=rng.random() < 0.3)


def shrimp_run(case, seed, drv=None, inject=None, ibm=None, state=None):
    n = len(case["x"])
    env = case["env"]
    M = mod("shrimp")
    ibm = ibm or M.IBM(dict(dt=cfg_dt(case), ibm=dict(
        vertical_mixing=case["vm"], vertical_speed=case["vs"], maxdepth_day=case["maxd_d"], maxdepth_night=case["maxd_n"],
        mindepth_day=case["mind_d"], mindepth_night=case["mind_n"], variables=["active", "stage"])))
    state = state or real_state(dt=state_dt(case), timestamp=case["ts"], alive=alive0(case), X=case["x"].copy(),
                                Y=case["y"].copy(),
                                Z=case["z"].copy(), stage=case["stage"].copy(), depth_quantile=case["q"].copy(),
                                age=case["age"].copy(), temp=np.zeros(n), salt=np.zeros(n), length=np.zeros(n))
    before = dict(z=state.Z.copy(), stage=state["stage"].copy(), q=state["depth_quantile"].copy(), age=state["age"].copy(),
                  alive=state.alive.copy())
    with RngRecorder(seed, inject) as rec:
        ibm.update_ibm(env.grid(), state, env.forcing())
    after = dict(z=state.Z.copy(), stage=state["stage"].copy(), q=state["depth_quantile"].copy(), age=state["age"].copy(),
                 active=state.active.copy(), temp=state["temp"].copy(), length=state["length"].copy(),
                 alive=state.alive.copy())
    nq = int((before["q"] == 0).sum())
    expected = [("rand", (nq,)), ("normal", (n,))]
    got = rec.schedule()
    res = dict(before=before, after=after, model=None, sched=(expected, got), meta={}, n=n, state=state, ibm=ibm)
    lon, lat = env.lonlat(case["x"], case["y"])
    is_day = (M.sunheight(case["ts"], lon, lat) > 0) if n else np.zeros(0, bool)
    st0 = np.where(before["stage"] == 0, 1.0, before["stage"])
    res["meta"]["stage0"] = st0
    if expected == got:
        xi = rec.log[1][3]
        res["xi"] = xi
        int_stage = np.minimum(5, np.int32(after["stage"])) - 1
        res["meta"]["int_stage"] = int_stage
        res["meta"]["is_day"] = is_day
        mind = np.where(is_day, np.array(case["mind_d"])[int_stage], np.array(case["mind_n"])[int_stage]) if n else np.zeros(0)
        maxd = np.where(is_day, np.array(case["maxd_d"])[int_stage], np.array(case["maxd_n"])[int_stage]) if n else np.zeros(0)
        res["meta"]["pref"] = mind + (maxd - mind) * after["q"]
        if drv is not None:
            idx = []
            for i in range(n):
                k = int(int_stage[i])
                a = drv.ask("shrimp.vert", F(case["vm"][k]), F(case["dt"]), F(xi[i]), F(case["vs"][k]), F(mind[i]),
                            F(maxd[i]), F(after["q"][i]), F(before["z"][i]))
                b = drv.ask("shrimp.growth", F(after["temp"][i]), F(case["dt"]), F(st0[i]), F(before["age"][i]))
                idx.append((a, b))

            def finish(replies):
                mm = dict(z=[], stage=[], age=[], pref=[])
                for a, b in idx:
                    sa, ta = replies[a]; sb, tb = replies[b]
                    if sa != "ok" or sb != "ok":
                        raise RuntimeError("driver error: %s %s" % (ta, tb))
                    mm["z"].append(unF(ta[2])); mm["pref"].append(unF(ta[1]))
                    mm["stage"].append(unF(tb[0])); mm["age"].append(unF(tb[1]))
                res["model"] = {k: np.array(v) for k, v in mm.items()}
            res["finish"] = finish
    return res


# ======================================================================================= vps
def vps_case(rng, n=None):
    n = rng.randrange(0, 9) if n is None else n
    return dict(kind="vps", dt=rng.choice([60.0, 600.0]), maxd=rng.choice([2.0, 0.5, 10.0, 2.0]),
                omit_defaults=rng.random() < 0.5, int_dt=rng.random() < 0.3,
                x=np.full(n, 5.0), y=np.full(n, 5.0), z=np.array([rng.uniform(0, 2) for _ in range(n)]),
                age=np.array([rng.choice([0.0, 2.0 ** 30 - 60, 2.0 ** 30, 100.0]) for _ in range(n)]),
                u=np.array([rng.choice([0.0, 0.14, -0.14]) for _ in range(n)]),
                v=np.array([rng.choice([0.0, 0.0, 0.14]) for _ in range(n)]))


def vps_run(case, seed, drv=None, inject=None, ibm=None, state=None):
    n = len(case["x"])
    conf = dict(max_depth=case["maxd"])
    if case.get("omit_defaults") and case["maxd"] == 2.0:
        conf = {}                                   # `max_depth` left to its default (2 m)
    ibm = ibm or mod("vps").IBM(dict(dt=cfg_dt(case), ibm=conf))
    state = state or real_state(dt=state_dt(case), alive=alive0(case), X=case["x"].copy(), Y=case["y"].copy(),
                                Z=case["z"].copy(), age=case["age"].copy())
    forcing = Obj(forcing=Obj(fish_velocity=lambda x, y: (case["u"].copy(), case["v"].copy())))
    before = dict(z=state.Z.copy(), age=state["age"].copy(), alive=state.alive.copy())
    with RngRecorder(seed, inject) as rec:
        ibm.update_ibm(Obj(), state, forcing)
    after = dict(z=state.Z.copy(), age=state["age"].copy(), alive=state.alive.copy())
    expected = [("uniform", (n,))]
    got = rec.schedule()
    res = dict(before=before, after=after, model=None, sched=(expected, got), meta={}, n=n, state=state, ibm=ibm)
    if drv is not None and expected == got:
        u = rec.log[0][3]
        idx = [drv.ask("vps.update", F(case["maxd"]), F(case["dt"]), F(u[i]), F(case["u"][i]), F(case["v"][i]),
                       F(before["z"][i]), F(before["age"][i]), B(before["alive"][i])) for i in range(n)]

        def finish(replies):
            mm = dict(z=[], age=[], alive=[])
            for j in idx:
                st, t = replies[j]
                if st != "ok":
                    raise RuntimeError("driver error: %s" % (t,))
                mm["z"].append(unF(t[0])); mm["age"].append(unF(t[1])); mm["alive"].append(t[2] == "1")
            res["model"] = {k: np.array(v) for k, v in mm.items()}
        res["finish"] = finish
    return res


MODULES = {
    "chemicals": (chem_case, chem_run),
    "sedimentation": (sed_case, sed_run),
    "mine": (mine_case, mine_run),
    "egg": (egg_case, egg_run),
    "salmon_lice": (lice_case, lice_run),
    "larvae": (lambda rng, n=None: larvae_case(rng, n, "larvae"), larvae_run),
    "saithe": (lambda rng, n=None: larvae_case(rng, n, "saithe"), larvae_run),
    "sandeel": (sandeel_case, sandeel_run),
    "lunar_eel": (eel_case, eel_run),
    "shrimp": (shrimp_case, shrimp_run),
    "vps": (vps_case, vps_run),
}


def case_summary(case):
    out = {}
    for k, v in case.items():
        if isinstance(v, LinEnv):
            out[k] = v.asdict()
        elif isinstance(v, np.ndarray):
            out[k] = v.tolist()
        elif isinstance(v, np.datetime64):
            out[k] = str(v)
        else:
            out[k] = v
    return out
