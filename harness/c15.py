"""C15 — grid sampling: exact at nodes, bounded by neighbours, total at the domain edge.

Correspondence: cell index, `z2s`, trilinear / bilinear sampling and the vertdiff level of the real
chemicals `Grid` / `Forcing` (synthetic ROMS files and the shipped forcing file) against the Lean model.
Oracle: every query at a position inside the grid or up to one cell outside any edge returns the
value of the nearest edge cell (no exception, no wrap-around); bracket / weight / convexity / sign claims."""
import importlib, os, tempfile, shutil
import numpy as np
from .common import Driver, F, I, L, unF, same_bits
from . import romsfile

RULE = ("synthetic ROMS files (6..10 x 5..9 x 3..5, random bathymetry, land patches) and the shipped chemicals forcing file; "
        "positions on nodes, cell borders, interior, and 0..1 cell outside each of the four edges; depths from above the surface "
        "to below the bed. Non-trivial: every query point.")
ASSUMPTIONS = ["LADiM's bilin_inv / sample2D (xy2ll, ll2xy) are exercised, not modelled"]
SITE = "ladim_plugins/chemicals/gridforce.py"


def positions(rng, g, n):
    xs = []; ys = []
    for _ in range(n):
        r = rng.random()
        if r < 0.25:
            x = float(rng.randrange(int(g.xmin), int(g.xmax) + 1)); y = float(rng.randrange(int(g.ymin), int(g.ymax) + 1))
        elif r < 0.5:
            x = rng.uniform(g.xmin - 0.49, g.xmax + 0.49); y = rng.uniform(g.ymin - 0.49, g.ymax + 0.49)
        else:
            # up to one cell outside one edge
            x = rng.uniform(g.xmin, g.xmax); y = rng.uniform(g.ymin, g.ymax)
            side = rng.choice("WESN")
            d = rng.choice([0.5, 0.51, 0.9, 1.0, 1.49])
            if side == "W": x = g.xmin - d
            if side == "E": x = g.xmax + d
            if side == "S": y = g.ymin - d
            if side == "N": y = g.ymax + d
        xs.append(x); ys.append(y)
    return np.array(xs), np.array(ys)


def try_call(ctx, pred, site, fn, cs):
    try:
        return fn()
    except Exception as e:
        ctx.oracle(False, pred, site, "query raised %r" % (e,), cs)
        return None


def check_grid(ctx, drv, pend, G, conf, label):
    g = G.Grid(conf); f = G.Forcing(conf, g)
    f.update(0)
    ny, nx = g.H.shape
    X, Y = positions(ctx.rng, g, ctx.n(40, 300))
    Z = np.array([ctx.rng.choice([-1.0, 0.0, 0.5, 5.0, 30.0, 1e4, ctx.rng.uniform(0, 120)]) for _ in X])
    Ic = np.clip(np.round(X).astype(int) - g.i0, 0, nx - 1); Jc = np.clip(np.round(Y).astype(int) - g.j0, 0, ny - 1)
    Xc = Ic + float(g.i0); Yc = Jc + float(g.j0)          # centre of the nearest edge cell
    for k in range(len(X)):
        x = X[k:k + 1]; y = Y[k:k + 1]; z = Z[k:k + 1]
        inside = bool(g.ingrid(x, y)[0])
        cs = dict(grid=label, x=x[0], y=y[0], z=z[0], inside=inside, i0=g.i0, j0=g.j0, shape=[ny, nx])
        ctx.case(key=(label, float(x[0]), float(y[0]), float(z[0])), nontrivial=True, sample=cs if k < 2 else None)
        ctx.branch("inside" if inside else "outside_one_cell")
        pre = "C15.inside" if inside else "C15.edge"
        d = try_call(ctx, pre + ".sample_depth", SITE + "::Grid.sample_depth", lambda: g.sample_depth(x, y), cs)
        if d is not None:
            ctx.oracle(d[0] == g.H[Jc[k], Ic[k]], pre + ".sample_depth", SITE + "::Grid.sample_depth",
                       "depth %r, nearest edge cell has %r" % (d[0], g.H[Jc[k], Ic[k]]), cs)
        m = try_call(ctx, pre + ".sample_metric", SITE + "::Grid.sample_metric", lambda: g.sample_metric(x, y), cs)
        if m is not None:
            ctx.oracle(m[0][0] == g.dx[Jc[k], Ic[k]], pre + ".sample_metric", SITE + "::Grid.sample_metric", "metric of another cell", cs)
        a = try_call(ctx, pre + ".atsea", SITE + "::Grid.atsea", lambda: (g.atsea(x, y), g.onland(x, y)), cs)
        if a is not None:
            ctx.oracle(bool(a[0][0]) == (g.M[Jc[k], Ic[k]] > 0) and bool(a[1][0]) == (g.M[Jc[k], Ic[k]] < 1), pre + ".atsea",
                       SITE + "::Grid.atsea", "land mask of another cell", cs)
        ll = try_call(ctx, pre + ".lonlat", SITE + "::Grid.lonlat", lambda: (g.lonlat(x, y, method="nearest"), g.lonlat(x, y)), cs)
        if ll is not None:
            ctx.oracle(ll[0][0][0] == g.lon[Jc[k], Ic[k]], pre + ".lonlat", SITE + "::Grid.lonlat", "lon of another cell", cs)
        # forcing queries
        ref_cs = (np.array([Xc[k]]), np.array([Yc[k]]))
        for name, call, refcall in (
                ("field", lambda: f.field(x, y, z, "temp"), lambda: f.field(ref_cs[0], ref_cs[1], z, "temp")),
                ("vertdiff", lambda: f.vertdiff(x, y, z, "AKs"), lambda: f.vertdiff(ref_cs[0], ref_cs[1], z, "AKs")),
                ("horzdiff", lambda: f.horzdiff(x, y, z), None),
                ("velocity", lambda: f.velocity(x, y, z), None),
                ("wvel", lambda: f.wvel(x, y, z), None)):
            v = try_call(ctx, pre + "." + name, SITE + "::Forcing." + name, call, cs)
            if v is None:
                continue
            if refcall is not None:
                r = refcall()
                ctx.oracle(np.array_equal(np.asarray(v), np.asarray(r)), pre + "." + name, SITE + "::Forcing." + name,
                           "value %r differs from the value at the nearest edge cell %r" % (v, r), cs)
            ctx.oracle(bool(np.all(np.isfinite(np.asarray(v, dtype=float)))), pre + "." + name + "_finite", SITE + "::Forcing." + name, "non-finite", cs)
            if name == "vertdiff":
                ctx.oracle(v[0] >= 0, "C15.vertdiff.negative", SITE + "::Forcing.vertdiff", "negative diffusivity %r" % v[0], cs)
                Kz, Az = G.z2s(g.z_w, np.array([float(Ic[k])]), np.array([float(Jc[k])]), z)
                kn = int(np.clip(np.round(Kz[0] - Az[0]), 1, len(g.Cs_w) - 2))
                ctx.oracle(v[0] == max(0.0, f.AKs[kn, Jc[k], Ic[k]]), "C15.vertdiff.not_nearest_interior_level", SITE + "::Forcing.vertdiff",
                           "value %r, AKs at the nearest interior w-level %d is %r" % (v[0], kn, f.AKs[kn, Jc[k], Ic[k]]), cs)
                if drv.available:
                    pend.append(("vdlevel", drv.ask("gs.vdlevel", I(len(g.Cs_w)), I(int(Kz[0])), F(Az[0])), kn, cs))
            if name == "horzdiff":
                ctx.oracle(v[0] >= 0, "C15.horzdiff.negative", SITE + "::Forcing.horzdiff", "negative %r" % v[0], cs)
                I2 = min(max(int(np.round(x[0])) - g.i0, 0), nx - 2); J2 = min(max(int(np.round(y[0])) - g.j0, 0), ny - 2)
                if g.M[J2, I2] < 1:
                    ctx.oracle(v[0] == 0, "C15.horzdiff.nonzero_on_land", SITE + "::Forcing.horzdiff", "%r on land" % v[0], cs)
            if name == "velocity" and inside:
                # convexity: within the range of the layer values around the particle
                Kz, Az = G.z2s(g.z_w, x - g.i0, y - g.j0, z)
                kk = int(Kz[0]) if Kz[0] < g.z_w.shape[0] - 1 else g.z_w.shape[0] - 2
                lay = kk - 1 if Kz[0] < g.z_w.shape[0] - 1 else kk
                lo = min(f.U[lay].min(), 0); hi = max(f.U[lay].max(), 0)
                ctx.oracle(lo - 1e-12 <= v[0][0] <= hi + 1e-12, "C15.velocity.not_convex", SITE + "::Forcing.velocity",
                           "u=%r outside the range [%r,%r] of its layer" % (v[0][0], lo, hi), cs)
        # model: cell index and z2s
        if drv.available:
            pend.append(("cell", drv.ask("gs.cell", I(nx), I(g.i0), F(x[0])), int(Ic[k]), cs))
            pend.append(("cell", drv.ask("gs.cell", I(ny), I(g.j0), F(y[0])), int(Jc[k]), cs))
            col = g.z_w[:, Jc[k], Ic[k]]
            Kz, Az = G.z2s(g.z_w, np.array([float(Ic[k])]), np.array([float(Jc[k])]), z)
            pend.append(("z2s", drv.ask("gs.z2s", L(col), F(z[0])), (int(Kz[0]), float(Az[0])), cs))
            # bracket / weight oracle
            K_, A_ = int(Kz[0]), float(Az[0])
            ctx.oracle(1 <= K_ <= len(col) - 1 and 0 <= A_ <= 1, "C15.z2s.range", SITE + "::z2s", "K=%d A=%r" % (K_, A_), cs)
            if col[0] < -z[0] < col[-1]:
                ctx.oracle(col[K_ - 1] <= -z[0] <= col[K_] and abs(A_ * col[K_ - 1] + (1 - A_) * col[K_] + z[0]) <= 1e-9 * (1 + abs(z[0])),
                           "C15.z2s.bracket", SITE + "::z2s", "K=%d A=%r do not bracket / reproduce depth %r" % (K_, A_, z[0]), cs)
    # xy2ll / ll2xy: mutual inverses inside the grid (to 1e-6 of a cell: both maps are smooth and well conditioned)
    npt = 60
    Xi = np.array([ctx.rng.uniform(g.xmin, g.xmax) for _ in range(npt)]); Yi = np.array([ctx.rng.uniform(g.ymin, g.ymax) for _ in range(npt)])
    # targets close to the centre of the grid (the solver's initial guess) included
    Xi[:6] = 0.5 * (g.xmin + g.xmax) + np.array([0.0, 0.17, -0.1, 0.3, -0.33, 0.05]); Yi[:6] = 0.5 * (g.ymin + g.ymax) + np.array([0.0, 0.03, 0.2, -0.25, 0.1, -0.02])
    lon, lat = g.xy2ll(Xi, Yi)
    try:
        xb, yb = g.ll2xy(lon, lat)
        dev = np.maximum(np.abs(xb - Xi), np.abs(yb - Yi))
        k = int(np.argmax(dev))
        ctx.oracle(bool(dev.max() <= 1e-6), "C15.ll2xy.not_inverse", SITE + "::Grid.ll2xy",
                   "ll2xy(xy2ll(x, y)) = (%r, %r) for (x, y) = (%r, %r): off by %.3g grid cells" % (xb[k], yb[k], Xi[k], Yi[k], dev.max()),
                   dict(grid=label, x=Xi[k], y=Yi[k]))
    except Exception as e:
        ctx.oracle(False, "C15.ll2xy.raises", SITE + "::Grid.ll2xy", "ll2xy raised %r on %s" % (e, label), dict(grid=label))
    f.close()


def sed_depth(ctx, drv, pend, conf, label):
    S = importlib.import_module("ladim_plugins.sedimentation.gridforce")
    g = S.Grid(conf)
    ny, nx = g.H.shape
    site = "ladim_plugins/sedimentation/gridforce.py::Grid.sample_depth"
    for _ in range(ctx.n(60, 400)):
        r = ctx.rng.random()
        if r < 0.3:
            x = float(ctx.rng.randrange(g.i0, g.i0 + nx)); y = float(ctx.rng.randrange(g.j0, g.j0 + ny))
        elif r < 0.7:
            x = ctx.rng.uniform(g.i0, g.i0 + nx - 1); y = ctx.rng.uniform(g.j0, g.j0 + ny - 1)
        else:
            x = ctx.rng.uniform(g.i0, g.i0 + nx - 1); y = ctx.rng.uniform(g.j0, g.j0 + ny - 1)
            side = ctx.rng.choice("WESN"); d = ctx.rng.choice([0.2, 0.49, 0.9])
            if side == "W": x = g.i0 - d
            if side == "E": x = g.i0 + nx - 1 + d
            if side == "S": y = g.j0 - d
            if side == "N": y = g.j0 + ny - 1 + d
        cs = dict(grid=label, x=x, y=y)
        ctx.case(key=("sed", label, x, y), nontrivial=True); ctx.branch("sed_depth")
        try:
            d = float(g.sample_depth(np.array([x]), np.array([y]))[0])
        except Exception as e:
            ctx.oracle(False, "C15.sed_depth.raises", site, "raised %r" % (e,), cs); continue
        i = min(max(x - g.i0, 0.0), nx - 1.0); j = min(max(y - g.j0, 0.0), ny - 1.0)
        i0 = min(int(np.floor(i)), nx - 2) if nx > 1 else 0; j0 = min(int(np.floor(j)), ny - 2) if ny > 1 else 0
        corners = [g.H[j0, i0], g.H[j0, i0 + 1], g.H[j0 + 1, i0], g.H[j0 + 1, i0 + 1]]
        outside = not (0 <= x - g.i0 <= nx - 1 and 0 <= y - g.j0 <= ny - 1)
        pred = "C15.sed_depth.outside_not_edge_value" if outside else "C15.sed_depth.not_between"
        ctx.oracle(min(corners) - 1e-9 <= d <= max(corners) + 1e-9, pred, site,
                   "depth %r, surrounding node depths %r" % (d, corners), cs)
        if x == np.floor(x) and y == np.floor(y) and not outside:
            ctx.oracle(d == g.H[int(y) - g.j0, int(x) - g.i0], "C15.sed_depth.node", site, "depth at node %r != %r" % (d, g.H[int(y) - g.j0, int(x) - g.i0]), cs)
        if drv.available and not outside:
            p = i - i0; q = j - j0
            pend.append(("bil", drv.ask("gs.bil", F(p), F(q), F(corners[0]), F(corners[1]), F(corners[2]), F(corners[3])), d, cs))


def run(ctx):
    G = importlib.import_module("ladim_plugins.chemicals.gridforce")
    drv = Driver()
    if getattr(ctx, "widened", False):
        drv.available = False
    pend = []
    tmp = tempfile.mkdtemp(prefix="verif_c15_")
    try:
        confs = []
        for r in range(ctx.n(3, 12)):
            nx = ctx.rng.randrange(6, 11); ny = ctx.rng.randrange(5, 10); N = ctx.rng.randrange(3, 6)
            mask = np.ones((ny, nx)); 
            for _ in range(ctx.rng.randrange(0, 4)):
                mask[ctx.rng.randrange(ny), ctx.rng.randrange(nx)] = 0
            path = os.path.join(tmp, "roms%d.nc" % r)
            romsfile.write_roms(path, ctx.rng, nx=nx, ny=ny, N=N, mask=mask)
            conf = dict(gridforce=dict(input_file=path), start_time=np.datetime64("2015-09-07T01:00:00"),
                        stop_time=np.datetime64("2015-09-07T02:00:00"), dt=600, ibm_forcing=["temp", "AKs"])
            if ctx.rng.random() < 0.4:
                conf["gridforce"]["subgrid"] = [2, nx - 2, 1, ny - 2]
            confs.append((conf, "synthetic%d" % r))
        for conf, label in confs:
            check_grid(ctx, drv, pend, G, conf, label)
            sed_depth(ctx, drv, pend, conf, label)
        # the shipped chemicals forcing file (no AKs/temp there: grid queries only through a reduced config)
        chem = os.path.join(os.path.dirname(G.__file__), "forcing.nc")
        try:
            import netCDF4
            with netCDF4.Dataset(chem) as nc:
                have = [v for v in ("temp", "AKs") if v in nc.variables]
            if len(have) == 2:
                conf = dict(gridforce=dict(input_file=chem), start_time=np.datetime64("2015-09-07T01:00:00"),
                            stop_time=np.datetime64("2015-09-07T01:05:00"), dt=60, ibm_forcing=["temp", "AKs"])
                check_grid(ctx, drv, pend, G, conf, "shipped")
            else:
                ctx.note("shipped forcing.nc lacks %r: forcing queries not run on it" % ([v for v in ("temp", "AKs") if v not in have],))
        except Exception as e:
            ctx.note("shipped forcing file: %r" % (e,))
    finally:
        shutil.rmtree(tmp, ignore_errors=True)
    if drv.available:
        rep = drv.run()
        for kind, j, impl, cs in pend:
            st, t = rep[j]
            if st != "ok":
                ctx.disagreement("gs." + kind, "driver error %r" % (t,), cs); continue
            if kind in ("cell", "vdlevel"):
                ctx.eq("gs." + kind, impl, int(t[0]), cs)
            elif kind == "z2s":
                ctx.eq("gs.z2s.K", impl[0], int(t[0]), cs)
                ctx.eq_bits("gs.z2s.A", impl[1], unF(t[1]), cs)
            elif kind == "bil":
                ctx.eq_close("gs.bilinear", impl, unF(t[0]), cs, rel=1e-12, abs_=1e-12)


def replay(payload):
    print("predicate:", payload.get("predicate"), "|", payload.get("detail"))
    return False
