"""C15 — grid sampling: exact at nodes, bounded by neighbours, total at the domain edge.

Correspondence: cell index, `z2s`, trilinear / bilinear sampling and the vertdiff level of the real
chemicals `Grid` / `Forcing` (synthetic ROMS files and the shipped forcing file) against the Lean model.
Oracle: every query at a position inside the grid or up to one cell outside any edge returns the
value of the nearest edge cell (no exception, no wrap-around); bracket / weight / convexity / sign claims.
Velocity, wvel, field and vert_mix are judged against the values of the particle's (nearest edge) cell
(u / v faces of the layer, bracketing levels); u, v, w inside the grid also bit-exactly against the model's
trilinear formula.  The same queries are issued for the `mine` pair and, batched, for all positions at once.
Histories: one Grid / Forcing is asked repeatedly with position arrays that the caller keeps and updates in place (or replaces
on release / removal) while the particles change cell, leave over an edge and the forcing advances in time; every answer is that
of the cell the particle is in now (arithmetic on copies of the fields) and equals the answer of a Grid / Forcing without history.
Full LADiM runs: particles leaving through each boundary are retired and the run completes.
No particle left: LADiM calls the tracker and the IBM at every time step, also when the last particle has been retired through an
open boundary (or before a later release).  Every query of the four modules' Grid / Forcing is issued with zero-length arrays -
directly, as the tail of histories in which the particles leave one by one, through update_ibm of the chemicals / mine /
sedimentation / salmon_lice IBMs on LADiM's State, and in full LADiM runs in which every particle leaves - and must return
one value per particle (none) instead of failing: the run continues to its stop time.  (Implementation side only: the model
driver has no operation on empty batches.)"""
import importlib, os, tempfile, shutil
import numpy as np
from .common import Driver, F, I, L, unF, same_bits
from . import romsfile

RULE = ("synthetic ROMS files (6..10 x 5..9 x 3..5, random bathymetry 20..100 m / shallow 2..30 m / deep 50..500 m, land patches "
        "including the outermost sub-grid row / column; sub-grids: whole, [2,nx-2,1,ny-2], random limits with None entries; vertical "
        "grid from the file (Vtransform 1 or 2, several hc) or from a Vinfo entry with Vstretching 1 / 2 / 4 and Vtransform 1 / 2) and the "
        "shipped chemicals forcing file; the chemicals Grid+Forcing, the `mine` pair (chemicals Forcing on the sedimentation Grid) and "
        "salmon_lice Forcing.vert_mix; positions on nodes, the outer cell borders, interior, 0..1 cell outside one edge and outside two "
        "edges at once (corners); depths from above the surface to below the bed, exactly on w- and rho-levels, on the bed and half way "
        "between two w-levels; velocity at the integrators' sub-steps tstep 0 / 0.5 / 1; every query issued per position and once for "
        "the whole batch; full LADiM runs (chemicals, sedimentation, mine; EF / RK4; 0.3..0.9 cell per step) with particles released "
        "0.05 / 0.3 / 0.6 cell inside each of the four boundaries in an outward current and one in the middle; query histories on one "
        "Grid / Forcing per module (chemicals, mine, salmon_lice vert_mix, sedimentation sample_depth; synthetic files and, for chemicals, the "
        "shipped file): 3..8 particles, 10 (thorough 25) steps, the SAME X / Y / Z array objects passed at every step and updated in place "
        "between the steps (slice / masked assignment / +=) or replaced by new arrays (same length, particles released, a particle removed), "
        "moves inside the cell, to a neighbouring cell, 0.5..1.49 cell out over an edge, anywhere, X only, Y only, depth only, none; depths 0..120 m, "
        "on w-levels and half way between two w-levels; forcing "
        "time step advanced (update(t)) at random steps; every Forcing and Grid query issued at every step, vertdiff twice (second time with "
        "new depths, same X / Y objects, as the LaBolle scheme does). Interior cell borders (x = n + 0.5) are not generated: there two cells are equally near "
        "and the statement does not say which one is meant. "
        "NO PARTICLE LEFT (added after all of the above): (a) every query the tracker, the release step or an IBM can issue - Forcing velocity "
        "(tstep 0 / 0.5 / 1), field, wvel, vertdiff, horzdiff, vert_mix; Grid sample_depth, sample_metric, lonlat (bilinear / nearest / None), xy2ll, "
        "ll2xy, ingrid, atsea, onland, is_close_to_land, nearest_sea - of the chemicals, mine, sedimentation and salmon_lice Grid / Forcing on every "
        "synthetic file, with zero-length float64 arrays made in six ways (literal, np.empty(0), slice / mask selection / index selection of a longer "
        "array, rows of a reshaped stack), on new objects and on objects that advanced in time and answered a query before; (b) per module and file "
        "1 (thorough 3) more histories as above (and 1 / 4 on the shipped file) that go on until no particle is left: one (sometimes two, or all) "
        "of the particles moved 0.5..1.49 cell out over an edge in place, the next step without them (or one taken out without leaving), 2..4 steps "
        "with zero-length arrays (same objects / new ones), forcing time step advanced at random, a later release of 1..3 particles, these leave "
        "too; all queries of (a) except ll2xy at every step (inherited queries of LADiM's ROMS Grid / Forcing only while all positions are within "
        "half a cell of the outermost cell centres); (c) 2 (thorough 10) histories per module of IBM.update_ibm (chemicals: vertical_mixing AKs / "
        "constant / 0, vertdiff_dt 60 / 200 / 600, vertdiff_dz 0 / 2, horzdiff smagorinsky / none, land_collision reposition / coastal_diffusion / "
        "freeze, vertical advection on / off, lifespan none / long / 1500 s; mine: taucrit 1000 / 0.12 / 0, vertical advection, reposition / freeze, "
        "with / without output_file; sedimentation: vertical_mixing none / constant / bounded_linear, taucrit none / constant / grain_size_bin / "
        "grain_size_poly; salmon_lice: vertical_mixing 0.001 / 0) on the real Grid / Forcing in LADiM's RomsGrid / RomsForcing wrappers and "
        "ladim.state.State, 1..4 particles, per step: State.remove of the dead / outside ones, forcing.update only while particles exist, one particle "
        "(sometimes all) put 0..0.99 cell beyond the module's ingrid, update_ibm; 2..4 calls on the empty state, a release of 1..3, 1..2 more empty "
        "calls; (d) full LADiM runs (chemicals with land_collision freeze / reposition, sedimentation, mine, salmon_lice; 2 random boundaries per "
        "module, thorough all four x 6) of 6 steps in which all 2..3 released particles leave within three steps, half of them with a later "
        "release in the middle after 40 min; np.random served from a generator seeded by the check. Non-trivial: every query point.")
ASSUMPTIONS = ["LADiM's bilin_inv / sample2D (xy2ll, ll2xy) are exercised, not modelled",
               "value oracles on the Grid queries apply to the chemicals Grid; on the sedimentation / mine Grid (LADiM's ROMS Grid) only "
               "sample_depth is judged by value, the inherited queries only for 'returns instead of failing'"]
SITE = "ladim_plugins/chemicals/gridforce.py"
EPS = 2.220446049250313e-16


def hull_ok(v, vals):
    """v is a convex combination of vals, up to the rounding of the eight weights and products that
    sample3D adds up (a few ulp of the largest value; 64 ulp allowed - a wrong cell or an extrapolation
    is off by the difference between neighbouring grid values)"""
    vals = [float(t) for t in vals]
    lo = min(vals); hi = max(vals)
    tol = 64 * EPS * max(abs(lo), abs(hi))
    return lo - tol <= float(v) <= hi + tol


def level(col, z):
    """bracketing level K (1..len-1) and weight A of depth z in an increasing column, as the z2s docstring states"""
    K = int(np.sum(col < -z)); K = min(max(K, 1), len(col) - 1)
    A = (col[K] + z) / (col[K] - col[K - 1]); A = min(max(float(A), 0.0), 1.0)
    return K, A


def positions(rng, g, n):
    xs = []; ys = []
    for _ in range(n):
        r = rng.random()
        if r < 0.25:
            x = float(rng.randrange(int(g.xmin), int(g.xmax) + 1)); y = float(rng.randrange(int(g.ymin), int(g.ymax) + 1))
        elif r < 0.5:
            x = rng.uniform(g.xmin - 0.49, g.xmax + 0.49); y = rng.uniform(g.ymin - 0.49, g.ymax + 0.49)
        elif r < 0.88:
            # up to one cell outside one edge
            x = rng.uniform(g.xmin, g.xmax); y = rng.uniform(g.ymin, g.ymax)
            side = rng.choice("WESN")
            d = rng.choice([0.5, 0.51, 0.9, 1.0, 1.49])
            if side == "W": x = g.xmin - d
            if side == "E": x = g.xmax + d
            if side == "S": y = g.ymin - d
            if side == "N": y = g.ymax + d
        else:
            # outside two edges at once (a particle leaving through a corner)
            dx_ = rng.choice([0.5, 0.51, 0.9, 1.0, 1.49]); dy_ = rng.choice([0.5, 0.51, 0.9, 1.0, 1.49])
            x = g.xmin - dx_ if rng.random() < 0.5 else g.xmax + dx_
            y = g.ymin - dy_ if rng.random() < 0.5 else g.ymax + dy_
        xs.append(x); ys.append(y)
    return np.array(xs), np.array(ys)


def try_call(ctx, pred, site, fn, cs):
    try:
        return fn()
    except Exception as e:
        ctx.oracle(False, pred, site, "query raised %r" % (e,), cs)
        return None



def as_cols(v):
    """result of a query -> list of 1-D arrays (one per returned component)"""
    return [np.asarray(c) for c in v] if isinstance(v, tuple) else [np.asarray(v)]


def special_depths(ctx, g, Z, Ic, Jc):
    """depths exactly on a w-level / a rho-level / the bed / half way between two w-levels of the particle's column"""
    for k in range(len(Z)):
        if ctx.rng.random() < 0.3:
            colw = g.z_w[:, Jc[k], Ic[k]]; colr = g.z_r[:, Jc[k], Ic[k]]
            kind = ctx.rng.choice(["w_level", "rho_level", "bed", "mid_w"])
            if kind == "w_level":
                Z[k] = -colw[ctx.rng.randrange(len(colw))]
            elif kind == "rho_level":
                Z[k] = -colr[ctx.rng.randrange(len(colr))]
            elif kind == "bed":
                Z[k] = g.H[Jc[k], Ic[k]]
            else:
                j = ctx.rng.randrange(len(colw) - 1); Z[k] = -0.5 * (colw[j] + colw[j + 1])
            Z[k] = Z[k] + 0.0          # -(-0.0) etc.: keep a plain +0.0
            ctx.branch("z_" + kind)
    return Z


def check_grid(ctx, drv, pend, G, conf, label, pair="chemicals"):
    own = pair == "chemicals"
    if own:
        g = G.Grid(conf); f = G.Forcing(conf, g); tag = "C15"; gsite = SITE
    else:
        # the `mine` module: chemicals Forcing on the sedimentation Grid (LADiM's ROMS Grid with bilinear sample_depth)
        M = importlib.import_module("ladim_plugins.mine")
        g = M.Grid(conf); f = M.Forcing(conf, g); tag = "C15.mine"; gsite = "ladim_plugins/mine/__init__.py"
        label = label + "/mine"
    f.update(0)
    ny, nx = g.H.shape
    # the fields as they are before any query: the value oracles below refer to these copies, so a query that
    # changes a field in place is judged against what the field was
    U0 = f.U.copy(); V0 = f.V.copy(); dU0 = f.dU.copy(); dV0 = f.dV.copy(); W0 = f.W.copy(); T0 = f.temp.copy()
    xmin = float(g.i0); xmax = float(g.i0 + nx - 1); ymin = float(g.j0); ymax = float(g.j0 + ny - 1)
    X, Y = positions(ctx.rng, g, ctx.n(40, 300) if own else ctx.n(20, 120))
    Z = np.array([ctx.rng.choice([-1.0, 0.0, 0.5, 5.0, 30.0, 1e4, ctx.rng.uniform(0, 120)]) for _ in X])
    Ic = np.clip(np.round(X).astype(int) - g.i0, 0, nx - 1); Jc = np.clip(np.round(Y).astype(int) - g.j0, 0, ny - 1)
    Xc = Ic + float(g.i0); Yc = Jc + float(g.j0)          # centre of the nearest edge cell
    Z = special_depths(ctx, g, Z, Ic, Jc)
    TS = [ctx.rng.choice([0.5, 1.0]) for _ in X]          # the sub-steps of LADiM's RK4 integrator
    singles = {}
    for k in range(len(X)):
        x = X[k:k + 1]; y = Y[k:k + 1]; z = Z[k:k + 1]
        inside = bool(g.ingrid(x, y)[0])
        dom = bool(xmin - 0.5 < x[0] < xmax + 0.5 and ymin - 0.5 < y[0] < ymax + 0.5)     # half a cell beyond the outermost cell centres
        cs = dict(grid=label, x=x[0], y=y[0], z=z[0], inside=inside, i0=g.i0, j0=g.j0, shape=[ny, nx])
        ctx.case(key=(label, float(x[0]), float(y[0]), float(z[0])), nontrivial=True, sample=cs if k < 2 else None)
        ctx.branch(("inside" if inside else "outside_one_cell") + ("" if own else "_mine"))
        if not (xmin <= x[0] <= xmax) and not (ymin <= y[0] <= ymax):
            ctx.branch("outside_corner")
        pre = tag + (".inside" if inside else ".edge")
        if own:
            on_border = x[0] in (xmin - 0.5, xmax + 0.5) or y[0] in (ymin - 0.5, ymax + 0.5)
            if not on_border:
                ctx.oracle(inside == dom, "C15.ingrid.wrong", SITE + "::Grid.ingrid",
                           "ingrid = %r for a position %s half a cell of the outermost cell centres" % (inside, "within" if dom else "beyond"), cs)
            d = try_call(ctx, pre + ".sample_depth", SITE + "::Grid.sample_depth", lambda: g.sample_depth(x, y), cs)
            if d is not None:
                ctx.oracle(d[0] == g.H[Jc[k], Ic[k]], pre + ".sample_depth", SITE + "::Grid.sample_depth",
                           "depth %r, nearest edge cell has %r" % (d[0], g.H[Jc[k], Ic[k]]), cs)
            m = try_call(ctx, pre + ".sample_metric", SITE + "::Grid.sample_metric", lambda: g.sample_metric(x, y), cs)
            if m is not None:
                ctx.oracle(m[0][0] == g.dx[Jc[k], Ic[k]], pre + ".sample_metric", SITE + "::Grid.sample_metric", "metric of another cell", cs)
            a = try_call(ctx, pre + ".atsea", SITE + "::Grid.atsea", lambda: (g.atsea(x, y), g.onland(x, y)), cs)
            if a is not None:
                ctx.oracle(bool(a[0][0]) == (g.M[Jc[k], Ic[k]] > 0) and bool(a[1][0]) == (g.M[Jc[k], Ic[k]] < 1), pre + ".atsea",
                           SITE + "::Grid.atsea", "land mask of another cell", cs)
            ll = try_call(ctx, pre + ".lonlat", SITE + "::Grid.lonlat", lambda: (g.lonlat(x, y, method="nearest"), g.lonlat(x, y)), cs)
            if ll is not None:
                ctx.oracle(ll[0][0][0] == g.lon[Jc[k], Ic[k]], pre + ".lonlat", SITE + "::Grid.lonlat", "lon of another cell", cs)
                ctx.oracle(ll[0][1][0] == g.lat[Jc[k], Ic[k]], pre + ".lonlat", SITE + "::Grid.lonlat", "lat of another cell", cs)
                # the form the IBMs issue through LADiM's grid wrapper: method=None
                ln = try_call(ctx, pre + ".lonlat", SITE + "::Grid.lonlat", lambda: g.lonlat(x, y, method=None), cs)
                if ln is not None:
                    ctx.oracle(ln[0][0] == g.lon[Jc[k], Ic[k]] and ln[1][0] == g.lat[Jc[k], Ic[k]], pre + ".lonlat", SITE + "::Grid.lonlat",
                               "lonlat(method=None): lon/lat of another cell", cs)
                # "clamp outside": the bilinear conversion of a position beyond the outermost cell centres is that of the nearest
                # position on the line of the outermost centres (same arithmetic -> same bits)
                r = g.xy2ll(np.clip(x, xmin, xmax), np.clip(y, ymin, ymax))
                ctx.oracle(np.array_equal(ll[1][0], r[0]) and np.array_equal(ll[1][1], r[1]), pre + ".lonlat_not_clamped", SITE + "::Grid.xy2ll",
                           "lon/lat %r differs from lon/lat %r of the clamped position" % (ll[1], r), cs)
            singles.setdefault("sample_depth", []).append(None if d is None else as_cols(d))
            singles.setdefault("sample_metric", []).append(None if m is None else as_cols(m))
            singles.setdefault("atsea", []).append(None if a is None else as_cols(a[0]))
            singles.setdefault("onland", []).append(None if a is None else as_cols(a[1]))
            singles.setdefault("lonlat_nearest", []).append(None if ll is None else as_cols(ll[0]))
            singles.setdefault("lonlat", []).append(None if ll is None else as_cols(ll[1]))
        else:
            # the inherited queries of the sedimentation / mine Grid: "returns instead of failing" for positions inside the grid
            # or up to one cell beyond the half-cell margin (the value of sample_depth is judged in sed_depth)
            if xmin - 0.5 <= x[0] <= xmax + 0.5 and ymin - 0.5 <= y[0] <= ymax + 0.5:
                for qn, q in (("sample_depth", lambda: g.sample_depth(x, y)), ("sample_metric", lambda: g.sample_metric(x, y)),
                              ("atsea", lambda: g.atsea(x, y)), ("onland", lambda: g.onland(x, y)),
                              ("lonlat_nearest", lambda: g.lonlat(x, y, method="nearest")),
                              # as issued through LADiM's grid wrapper by the sedimentation / mine IBM (resuspend) ...
                              ("lonlat_None", lambda: g.lonlat(x, y, method=None)),
                              # ... and by the mine IBM when it stores the particles it takes out (store)
                              ("xy2ll", lambda: g.xy2ll(x, y))):
                    try_call(ctx, pre + "." + qn + "_raises", gsite + "::Grid." + ("lonlat" if qn.startswith("lonlat") else qn), q, cs)
        # forcing queries
        ref_cs = (np.array([Xc[k]]), np.array([Yc[k]]))
        colw = g.z_w[:, Jc[k], Ic[k]]; colr = g.z_r[:, Jc[k], Ic[k]]
        Kw, Aw = level(colw, z[0]); Kr, Ar = level(colr, z[0])
        ts = TS[k]
        for name, call, refcall in (
                ("field", lambda: f.field(x, y, z, "temp"), lambda: f.field(ref_cs[0], ref_cs[1], z, "temp")),
                ("vertdiff", lambda: f.vertdiff(x, y, z, "AKs"), lambda: f.vertdiff(ref_cs[0], ref_cs[1], z, "AKs")),
                ("horzdiff", lambda: f.horzdiff(x, y, z), lambda: f.horzdiff(ref_cs[0], ref_cs[1], z)),
                ("velocity", lambda: f.velocity(x, y, z), None),
                ("velocity_tstep", lambda: f.velocity(x, y, z, tstep=ts), None),
                ("wvel", lambda: f.wvel(x, y, z), None)):
            fname = "velocity" if name == "velocity_tstep" else name
            v = try_call(ctx, pre + "." + name, SITE + "::Forcing." + fname, call, cs)
            singles.setdefault(name, []).append(None if v is None else as_cols(v))
            if v is None:
                continue
            if refcall is not None:
                r = refcall()
                ctx.oracle(np.array_equal(np.asarray(v), np.asarray(r)), pre + "." + name, SITE + "::Forcing." + fname,
                           "value %r differs from the value at the nearest edge cell %r" % (v, r), cs)
            ctx.oracle(bool(np.all(np.isfinite(np.asarray(v, dtype=float)))), pre + "." + name + "_finite", SITE + "::Forcing." + fname, "non-finite", cs)
            if name == "field":
                # a sampled field is a convex combination of the surrounding grid values: here of the two rho-levels of the
                # particle's (nearest edge) cell that bracket its depth
                vals = [T0[Kr - 1, Jc[k], Ic[k]], T0[Kr, Jc[k], Ic[k]]]
                ctx.oracle(hull_ok(v[0], vals), pre + ".field.not_between_bracketing_levels", SITE + "::Forcing.field",
                           "temp %r, values of cell (%d,%d) at the bracketing rho-levels %d, %d are %r" % (v[0], Jc[k], Ic[k], Kr - 1, Kr, vals), cs)
            if name == "vertdiff":
                ctx.oracle(v[0] >= 0, "C15.vertdiff.negative", SITE + "::Forcing.vertdiff", "negative diffusivity %r" % v[0], cs)
                Kz, Az = G.z2s(g.z_w, np.array([float(Ic[k])]), np.array([float(Jc[k])]), z)
                kn = int(np.clip(np.round(Kz[0] - Az[0]), 1, len(g.Cs_w) - 2))
                ctx.oracle(v[0] == max(0.0, f.AKs[kn, Jc[k], Ic[k]]), "C15.vertdiff.not_nearest_interior_level", SITE + "::Forcing.vertdiff",
                           "value %r, AKs at the nearest interior w-level %d is %r" % (v[0], kn, f.AKs[kn, Jc[k], Ic[k]]), cs)
                if drv.available:
                    pend.append(("vdlevel", drv.ask("gs.vdlevel", I(len(g.Cs_w)), I(int(Kz[0])), F(Az[0])), kn, cs))
            if name == "horzdiff":
                ctx.oracle(v[0] >= 0, "C15.horzdiff.negative", SITE + "::Forcing.horzdiff", "negative %r" % v[0], cs)
                # (an earlier version of this oracle read the land mask at the index the implementation clamps for its
                # shear stencil, imax - 2 / jmax - 2, i.e. at the *neighbouring* cell for particles in the last row or
                # column: it mirrored the defect repaired by fix: baf44d8 and demanded zero for sea particles next to
                # land.  "Zero on land" is judged on the particle's own cell below.)
                if g.M[Jc[k], Ic[k]] < 1:
                    # "zero on land": the particle's own (nearest edge) cell is land
                    ctx.branch("horzdiff_on_land_cell")
                    ctx.oracle(v[0] == 0, "C15.horzdiff.nonzero_on_land_cell", SITE + "::Forcing.horzdiff",
                               "%r although cell (%d,%d) of the particle is land" % (v[0], Jc[k], Ic[k]), cs)
            if name == "velocity" and inside:
                # convexity: within the range of the layer values around the particle
                Kz, Az = G.z2s(g.z_w, x - g.i0, y - g.j0, z)
                kk = int(Kz[0]) if Kz[0] < g.z_w.shape[0] - 1 else g.z_w.shape[0] - 2
                lay = kk - 1 if Kz[0] < g.z_w.shape[0] - 1 else kk
                lo = min(f.U[lay].min(), 0); hi = max(f.U[lay].max(), 0)
                ctx.oracle(lo - 1e-12 <= v[0][0] <= hi + 1e-12, "C15.velocity.not_convex", SITE + "::Forcing.velocity",
                           "u=%r outside the range [%r,%r] of its layer" % (v[0][0], lo, hi), cs)
            if fname == "velocity":
                # u is a convex combination of the values on the two u-faces, v of the values on the two v-faces, of the particle's
                # cell - the nearest edge cell for a position outside - in the layer that contains the particle (on a w-level
                # exactly: either adjacent layer).  Fields at the sub-step: U + tstep * dU.
                t = 0.0 if name == "velocity" else ts
                Ut = U0 + t * dU0 if t >= 0.001 else U0
                Vt = V0 + t * dV0 if t >= 0.001 else V0
                lays = [Kw - 1] + ([Kw] if (colw[Kw] == -z[0] and Kw <= Ut.shape[0] - 1) else [])
                uvals = [Ut[l, Jc[k], Ic[k] + e] for l in lays for e in (0, 1)]
                vvals = [Vt[l, Jc[k] + e, Ic[k]] for l in lays for e in (0, 1)]
                ctx.oracle(hull_ok(v[0][0], uvals) and hull_ok(v[1][0], vvals), pre + ".velocity.not_convex_of_cell_faces", SITE + "::Forcing.velocity",
                           "tstep %r: (u, v) = (%r, %r); u on the faces of cell (%d,%d), layer(s) %r: %r; v on its faces: %r"
                           % (t, v[0][0], v[1][0], Jc[k], Ic[k], lays, uvals, vvals), cs)
                if drv.available and dom:
                    # trilinear model on the eight values sample3D reads (velocity sets A = 1: the layer value)
                    Kp, Ap = (Kw, 1.0) if Kw < len(colw) - 1 else (len(colw) - 2, 0.0)
                    Xu = (x[0] - g.i0) + 0.5; Yr = float(np.round(y[0] - g.j0))
                    Iu = min(max(int(Xu), 0), Ut.shape[2] - 2); Ju = min(max(int(Yr), 0), Ut.shape[1] - 2)
                    cu = [Ut[kk_, Ju + b, Iu + a_] for kk_ in (Kp, Kp - 1) for a_, b in ((0, 0), (0, 1), (1, 0), (1, 1))]
                    pend.append(("tri", drv.ask("gs.tri", F(Xu - Iu), F(Yr - Ju), F(Ap), *[F(c) for c in cu]), float(v[0][0]), dict(cs, what="u", tstep=t)))
                    Xr = float(np.round(x[0] - g.i0)); Yv = (y[0] - g.j0) + 0.5
                    Iv = min(max(int(Xr), 0), Vt.shape[2] - 2); Jv = min(max(int(Yv), 0), Vt.shape[1] - 2)
                    cv = [Vt[kk_, Jv + b, Iv + a_] for kk_ in (Kp, Kp - 1) for a_, b in ((0, 0), (0, 1), (1, 0), (1, 1))]
                    pend.append(("tri", drv.ask("gs.tri", F(Xr - Iv), F(Yv - Jv), F(Ap), *[F(c) for c in cv]), float(v[1][0]), dict(cs, what="v", tstep=t)))
            if name == "wvel":
                # w is a convex combination of the values of the particle's (nearest edge) cell at the two bracketing w-levels
                vals = [W0[Kw - 1, Jc[k], Ic[k]], W0[Kw, Jc[k], Ic[k]]]
                ctx.oracle(hull_ok(v[0], vals), pre + ".wvel.not_between_bracketing_levels", SITE + "::Forcing.wvel",
                           "w = %r; values of cell (%d,%d) at the w-levels %d, %d are %r" % (v[0], Jc[k], Ic[k], Kw - 1, Kw, vals), cs)
                if drv.available and dom:
                    Xr = float(np.round(x[0] - g.i0)); Yr = float(np.round(y[0] - g.j0))
                    Iw = min(max(int(Xr), 0), W0.shape[2] - 2); Jw = min(max(int(Yr), 0), W0.shape[1] - 2)
                    cw = [W0[kk_, Jw + b, Iw + a_] for kk_ in (Kw, Kw - 1) for a_, b in ((0, 0), (0, 1), (1, 0), (1, 1))]
                    pend.append(("tri", drv.ask("gs.tri", F(Xr - Iw), F(Yr - Jw), F(Aw), *[F(c) for c in cw]), float(v[0]), dict(cs, what="w")))
        # model: cell index and z2s
        col = g.z_w[:, Jc[k], Ic[k]]
        Kz, Az = G.z2s(g.z_w, np.array([float(Ic[k])]), np.array([float(Jc[k])]), z)
        if drv.available:
            pend.append(("cell", drv.ask("gs.cell", I(nx), I(g.i0), F(x[0])), int(Ic[k]), cs))
            pend.append(("cell", drv.ask("gs.cell", I(ny), I(g.j0), F(y[0])), int(Jc[k]), cs))
            pend.append(("z2s", drv.ask("gs.z2s", L(col), F(z[0])), (int(Kz[0]), float(Az[0])), cs))
        # bracket / weight oracle (also without the model driver)
        K_, A_ = int(Kz[0]), float(Az[0])
        ctx.oracle(1 <= K_ <= len(col) - 1 and 0 <= A_ <= 1, "C15.z2s.range", SITE + "::z2s", "K=%d A=%r" % (K_, A_), cs)
        if col[0] < -z[0] < col[-1]:
            ctx.oracle(col[K_ - 1] <= -z[0] <= col[K_] and abs(A_ * col[K_ - 1] + (1 - A_) * col[K_] + z[0]) <= 1e-9 * (1 + abs(z[0])),
                       "C15.z2s.bracket", SITE + "::z2s", "K=%d A=%r do not bracket / reproduce depth %r" % (K_, A_, z[0]), cs)
    # the same queries issued once for the whole batch of positions, as the tracker and the IBMs issue them: every element
    # is the value the query returns for that position alone
    batch = [("field", lambda: f.field(X, Y, Z, "temp"), None), ("vertdiff", lambda: f.vertdiff(X, Y, Z, "AKs"), None),
             ("horzdiff", lambda: f.horzdiff(X, Y, Z), None), ("velocity", lambda: f.velocity(X, Y, Z), None),
             ("velocity_tstep", lambda: f.velocity(X, Y, Z, tstep=0.5), [t == 0.5 for t in TS]), ("wvel", lambda: f.wvel(X, Y, Z), None)]
    if own:
        batch += [("sample_depth", lambda: g.sample_depth(X, Y), None), ("sample_metric", lambda: g.sample_metric(X, Y), None),
                  ("atsea", lambda: g.atsea(X, Y), None), ("onland", lambda: g.onland(X, Y), None),
                  ("lonlat_nearest", lambda: g.lonlat(X, Y, method="nearest"), None), ("lonlat", lambda: g.lonlat(X, Y), None)]
    for name, call, sel in batch:
        one = singles.get(name, [])
        if not one or any(o is None for o in one):
            continue                     # a single query raised: already reported
        ctx.branch("batch_query")
        bsite = (SITE + "::Forcing." + ("velocity" if name == "velocity_tstep" else name)) if name in ("field", "vertdiff", "horzdiff", "velocity", "velocity_tstep", "wvel") \
            else SITE + "::Grid." + name.split("_nearest")[0]
        cs = dict(grid=label, n=len(X), X=X, Y=Y, Z=Z, query=name)
        vb = try_call(ctx, tag + ".batch." + name, bsite, call, cs)
        if vb is None:
            continue
        cols = as_cols(vb)
        bad = [(k, c) for k in range(len(X)) if sel is None or sel[k] for c in range(len(cols))
               if np.shape(cols[c]) != (len(X),) or not np.array_equal(cols[c][k], one[k][c][0], equal_nan=True)]
        ctx.oracle(not bad, tag + ".batch." + name, bsite,
                   "element %r of the batched query differs from the query for that position alone" % (bad[:1],), cs)
    if own:
        # xy2ll / ll2xy: mutual inverses inside the grid (to 1e-6 of a cell: both maps are smooth and well conditioned)
        npt = 60
        Xi = np.array([ctx.rng.uniform(g.xmin, g.xmax) for _ in range(npt)]); Yi = np.array([ctx.rng.uniform(g.ymin, g.ymax) for _ in range(npt)])
        # targets close to the centre of the grid (the solver's initial guess) included
        Xi[:6] = 0.5 * (g.xmin + g.xmax) + np.array([0.0, 0.17, -0.1, 0.3, -0.33, 0.05]); Yi[:6] = 0.5 * (g.ymin + g.ymax) + np.array([0.0, 0.03, 0.2, -0.25, 0.1, -0.02])
        lon, lat = g.xy2ll(Xi, Yi)
        try:
            xb, yb = g.ll2xy(lon, lat)
            dev = np.maximum(np.abs(xb - Xi), np.abs(yb - Yi))
            k = int(np.argmax(dev))
            ctx.oracle(bool(dev.max() <= 1e-6), "C15.ll2xy.not_inverse", SITE + "::Grid.ll2xy",
                       "ll2xy(xy2ll(x, y)) = (%r, %r) for (x, y) = (%r, %r): off by %.3g grid cells" % (xb[k], yb[k], Xi[k], Yi[k], dev.max()),
                       dict(grid=label, x=Xi[k], y=Yi[k]))
        except Exception as e:
            ctx.oracle(False, "C15.ll2xy.raises", SITE + "::Grid.ll2xy", "ll2xy raised %r on %s" % (e, label), dict(grid=label))
    f.close()


def lice_vert_mix(ctx, conf, label):
    """salmon_lice Forcing.vert_mix: AKs of the particle's (nearest edge) cell at a w-level bracketing its depth"""
    Lm = importlib.import_module("ladim_plugins.salmon_lice.gridforce")
    site = "ladim_plugins/salmon_lice/gridforce.py::Forcing.vert_mix"
    g = Lm.Grid(conf); f = Lm.Forcing(conf, g)
    f.update(0)
    A0 = f.AKs.copy()
    ny, nx = g.H.shape
    X, Y = positions(ctx.rng, g, ctx.n(25, 150))
    Z = np.array([ctx.rng.choice([-1.0, 0.0, 0.5, 5.0, 30.0, 1e4, ctx.rng.uniform(0, 120)]) for _ in X])
    Ic = np.clip(np.round(X).astype(int) - g.i0, 0, nx - 1); Jc = np.clip(np.round(Y).astype(int) - g.j0, 0, ny - 1)
    Z = special_depths(ctx, g, Z, Ic, Jc)
    one = []
    for k in range(len(X)):
        x = X[k:k + 1]; y = Y[k:k + 1]; z = Z[k:k + 1]
        inside = bool(g.ingrid(x, y)[0])
        cs = dict(grid=label, module="salmon_lice", x=x[0], y=y[0], z=z[0], inside=inside, i0=g.i0, j0=g.j0, shape=[ny, nx])
        ctx.case(key=("lice", label, float(x[0]), float(y[0]), float(z[0])), nontrivial=True)
        ctx.branch("vert_mix_inside" if inside else "vert_mix_outside_one_cell")
        pre = "C15.lice.inside" if inside else "C15.lice.edge"
        v = try_call(ctx, pre + ".vert_mix", site, lambda: f.vert_mix(x, y, z), cs)
        one.append(v)
        if v is None:
            continue
        r = f.vert_mix(np.array([Ic[k] + float(g.i0)]), np.array([Jc[k] + float(g.j0)]), z)
        ctx.oracle(np.array_equal(np.asarray(v), np.asarray(r)), pre + ".vert_mix", site,
                   "value %r differs from the value at the nearest edge cell %r" % (v, r), cs)
        Kw, Aw = level(g.z_w[:, Jc[k], Ic[k]], z[0])
        vals = [A0[Kw - 1, Jc[k], Ic[k]], A0[Kw, Jc[k], Ic[k]]]
        ctx.oracle(hull_ok(v[0], vals), pre + ".vert_mix.not_between_bracketing_levels", site,
                   "AKs %r, values of cell (%d,%d) at the w-levels %d, %d are %r" % (v[0], Jc[k], Ic[k], Kw - 1, Kw, vals), cs)
    if all(o is not None for o in one):
        cs = dict(grid=label, module="salmon_lice", n=len(X), X=X, Y=Y, Z=Z)
        vb = try_call(ctx, "C15.lice.batch.vert_mix", site, lambda: f.vert_mix(X, Y, Z), cs)
        if vb is not None:
            ctx.branch("batch_query")
            ctx.oracle(np.shape(vb) == (len(X),) and all(np.array_equal(vb[k], one[k][0], equal_nan=True) for k in range(len(X))),
                       "C15.lice.batch.vert_mix", site, "an element of the batched query differs from the query for that position alone", cs)
    try:
        f.close()
    except Exception:
        pass


def sed_depth(ctx, drv, pend, conf, label):
    S = importlib.import_module("ladim_plugins.sedimentation.gridforce")
    g = S.Grid(conf)
    ny, nx = g.H.shape
    site = "ladim_plugins/sedimentation/gridforce.py::Grid.sample_depth"
    for _ in range(ctx.n(60, 400)):
        r = ctx.rng.random()
        if r < 0.3:
            x = float(ctx.rng.randrange(g.i0, g.i0 + nx)); y = float(ctx.rng.randrange(g.j0, g.j0 + ny))
        elif r < 0.6:
            x = ctx.rng.uniform(g.i0, g.i0 + nx - 1); y = ctx.rng.uniform(g.j0, g.j0 + ny - 1)
        elif r < 0.9:
            x = ctx.rng.uniform(g.i0, g.i0 + nx - 1); y = ctx.rng.uniform(g.j0, g.j0 + ny - 1)
            side = ctx.rng.choice("WESN"); d = ctx.rng.choice([0.2, 0.49, 0.9, 1.0, 1.49])
            if side == "W": x = g.i0 - d
            if side == "E": x = g.i0 + nx - 1 + d
            if side == "S": y = g.j0 - d
            if side == "N": y = g.j0 + ny - 1 + d
        else:
            # beyond two edges at once
            dx_ = ctx.rng.choice([0.2, 0.49, 0.9, 1.0, 1.49]); dy_ = ctx.rng.choice([0.2, 0.49, 0.9, 1.0, 1.49])
            x = g.i0 - dx_ if ctx.rng.random() < 0.5 else g.i0 + nx - 1 + dx_
            y = g.j0 - dy_ if ctx.rng.random() < 0.5 else g.j0 + ny - 1 + dy_
            ctx.branch("sed_depth_corner")
        cs = dict(grid=label, x=x, y=y)
        ctx.case(key=("sed", label, x, y), nontrivial=True); ctx.branch("sed_depth")
        try:
            d = float(g.sample_depth(np.array([x]), np.array([y]))[0])
        except Exception as e:
            ctx.oracle(False, "C15.sed_depth.raises", site, "raised %r" % (e,), cs); continue
        i = min(max(x - g.i0, 0.0), nx - 1.0); j = min(max(y - g.j0, 0.0), ny - 1.0)
        i0 = min(int(np.floor(i)), nx - 2) if nx > 1 else 0; j0 = min(int(np.floor(j)), ny - 2) if ny > 1 else 0
        corners = [g.H[j0, i0], g.H[j0, i0 + 1], g.H[j0 + 1, i0], g.H[j0 + 1, i0 + 1]]
        outside = not (0 <= x - g.i0 <= nx - 1 and 0 <= y - g.j0 <= ny - 1)
        pred = "C15.sed_depth.outside_not_edge_value" if outside else "C15.sed_depth.not_between"
        ctx.oracle(min(corners) - 1e-9 <= d <= max(corners) + 1e-9, pred, site,
                   "depth %r, surrounding node depths %r" % (d, corners), cs)
        if x == np.floor(x) and y == np.floor(y) and not outside:
            ctx.oracle(d == g.H[int(y) - g.j0, int(x) - g.i0], "C15.sed_depth.node", site, "depth at node %r != %r" % (d, g.H[int(y) - g.j0, int(x) - g.i0]), cs)
        p = i - i0; q = j - j0
        if outside:
            # the value of the nearest edge: the bilinear depth at the nearest position on the line of the outermost nodes
            # (1e-12 relative: the interpolation is a sum of four products of magnitude <= max depth)
            ctx.branch("sed_depth_outside")
            e = (1.0 - q) * ((1.0 - p) * corners[0] + p * corners[1]) + q * ((1.0 - p) * corners[2] + p * corners[3])
            ctx.oracle(abs(d - e) <= 1e-12 * max(abs(c) for c in corners), "C15.sed_depth.outside_not_nearest_edge_point", site,
                       "depth %r, depth at the nearest position (%r, %r) on the edge is %r" % (d, i + g.i0, j + g.j0, e), cs)
        if drv.available:
            pend.append(("bil", drv.ask("gs.bil", F(p), F(q), F(corners[0]), F(corners[1]), F(corners[2]), F(corners[3])), d, cs))


def nearest_interior_levels(colw, z):
    """the interior w-levels (1 .. len-2) of an increasing column that are nearest, in metres, to depth z (positive down).
    Two levels count as equally near when their distances differ by less than 1e-9 of the column height: the statement does
    not say which of two equally near levels is meant, and an implementation that decides by comparing a rounded quotient
    with one half may take either within a few ulp of the tie; a wrong level is off by a whole layer thickness."""
    d = np.abs(np.asarray(colw[1:-1], dtype=float) + float(z))
    tol = 1e-9 * float(colw[-1] - colw[0])
    return [1 + int(i) for i in np.nonzero(d <= d.min() + tol)[0]]


def corner_values(arr, xi, yj):
    """values of a 2-D node array at the four nodes around the position (xi, yj) (array coordinates), the position first
    moved to the nearest point of the rectangle of the nodes"""
    ny, nx = arr.shape
    i = min(max(float(xi), 0.0), nx - 1.0); j = min(max(float(yj), 0.0), ny - 1.0)
    i0 = min(int(np.floor(i)), nx - 2); j0 = min(int(np.floor(j)), ny - 2)
    return [arr[j0, i0], arr[j0, i0 + 1], arr[j0 + 1, i0], arr[j0 + 1, i0 + 1]], i, j


# ---------------------------------------------------------------------------------------------------------------- no particle left
# what a query returns per particle: a number ('f'), a flag ('b'), cell indices ('i' / 'u' / 'f'); number of components
QKIND = dict(velocity="f", velocity_tstep="f", field="f", wvel="f", vertdiff="f", vertdiff_again="f", horzdiff="f", vert_mix="f",
             sample_depth="f", sed_sample_depth="f", sample_metric="f", lonlat="f", lonlat_nearest="f", lonlat_None="f", xy2ll="f", ll2xy="f",
             ingrid="b", atsea="b", onland="b", is_close_to_land="b", nearest_sea="iuf")
QCOMP = dict(velocity=2, velocity_tstep=2, sample_metric=2, lonlat=2, lonlat_nearest=2, lonlat_None=2, xy2ll=2, ll2xy=2, nearest_sea=2)
EMPTY_KINDS = ("literal", "np_empty", "slice_of_array", "mask_selection", "index_selection", "rows_of_reshaped_stack")


def empty_arrays(ctx, g, kind=None):
    """(kind, X, Y, Z): zero-length float64 position arrays, made the way LADiM, its tracker and the IBMs make them when no
    particle is left (or none is active): a literal, np.empty(0), a slice / a mask selection (state['X'][active], State.remove) /
    an index selection (X[pidx] with the indices np.intersect1d returns) of a longer array, the rows of np.stack([X, Y]).reshape([2, -1])
    (the tracker's velocity closure)"""
    kind = kind or ctx.rng.choice(EMPTY_KINDS)
    if kind == "literal":
        return kind, np.array([]), np.array([]), np.array([])
    if kind == "np_empty":
        return kind, np.empty(0), np.empty(0), np.empty(0)
    m = ctx.rng.randrange(1, 5)
    bx, by = positions(ctx.rng, g, m); bz = np.array([ctx.rng.uniform(0, 60) for _ in range(m)])
    if kind == "slice_of_array":
        return kind, bx[:0], by[:0], bz[m:]
    sel = np.zeros(m, dtype=bool)
    if kind == "mask_selection":
        return kind, bx[sel], by[sel], bz[sel]
    if kind == "index_selection":
        idx = np.array([], dtype=np.intp)
        return kind, bx[idx], by[idx], bz[idx]
    x, y = np.stack([bx[sel], by[sel]]).reshape([2, -1])
    return kind, x, y, bz[sel]


def history(ctx, G, conf, label, pair, nt_max, tail=False):
    """Histories of queries, as the tracker and the IBMs issue them: ONE Grid / Forcing is asked again and again with the
    caller's position arrays, which are kept between the queries and updated in place (LADiM's tracker: state['X'][active] = X;
    chemicals IBM.horzdiff: state['X'][in_grid] = x2[in_grid]), replaced by new arrays when particles are released or removed,
    while the particles move inside their cell, to another cell and out over an edge, and the forcing advances in time.
    Every answer must be the answer for the positions the arrays hold NOW: judged against the field values of the particle's
    current (nearest edge) cell by arithmetic on copies of the fields (nothing of the module under test is called for the
    expected values), and additionally against a second Grid / Forcing that has never seen the history.
    tail=True: the history goes on until NO particle is left, as in a run in which the particles drift out through an open
    boundary one by one (or exceed their life span) and LADiM's release step retires them: tracker and IBM are still called at
    every time step, with zero-length arrays, until the stop time (or a later release).  One time step takes one (sometimes two,
    or all) of the particles out over an edge (arrays updated in place), the next step starts without them (new, shorter arrays);
    with no particle left the same zero-length arrays are passed again / replaced by other zero-length arrays (literal, slice,
    mask or index selection of a longer array, rows of a reshaped stack), the forcing may advance, particles are released again
    and drift out again.  Every query must return one value per particle - none - instead of failing."""
    own = pair == "chemicals"
    if pair in ("chemicals", "mine"):
        Mod = G if own else importlib.import_module("ladim_plugins.mine")
        fs = SITE + "::Forcing."; gs = (SITE if own else "ladim_plugins/mine/__init__.py") + "::Grid."
        tag = "C15.history" if own else "C15.mine.history"
    elif pair == "salmon_lice":
        Mod = importlib.import_module("ladim_plugins.salmon_lice.gridforce")
        fs = "ladim_plugins/salmon_lice/gridforce.py::Forcing."; gs = None; tag = "C15.lice.history"
    else:
        Mod = importlib.import_module("ladim_plugins.sedimentation.gridforce")
        fs = None; gs = "ladim_plugins/sedimentation/gridforce.py::Grid."; tag = "C15.sed.history"
    g = Mod.Grid(conf); g2 = Mod.Grid(conf)
    f = f2 = None
    if fs is not None or tail:
        f = Mod.Forcing(conf, g); f2 = Mod.Forcing(conf, g2)
        f.update(0); f2.update(0)
    tnow = 0
    ny, nx = g.H.shape
    i0 = int(g.i0); j0 = int(g.j0)
    xmin = float(i0); xmax = float(i0 + nx - 1); ymin = float(j0); ymax = float(j0 + ny - 1)
    H0 = np.array(g.H, dtype=float); M0 = np.array(g.M); ZW = np.array(g.z_w); ZR = np.array(g.z_r)
    DX0 = np.array(g.dx) if own else None
    LON0 = np.array(g.lon) if own else None; LAT0 = np.array(g.lat) if own else None

    def snap():
        if f is None or pair == "sedimentation":
            return {}
        if pair == "salmon_lice":
            return dict(A=np.array(f.AKs))
        return dict(U=f.U.copy(), V=f.V.copy(), dU=f.dU.copy(), dV=f.dV.copy(), W=f.W.copy(), T=np.array(f.temp), A=np.array(f.AKs))
    S = snap()

    # the queries: (name, site, which depth array, call on (forcing, grid, X, Y, Z))
    Q = []
    if pair in ("chemicals", "mine"):
        Q += [("vertdiff", fs + "vertdiff", "Z", lambda f_, g_, X, Y, Z: f_.vertdiff(X, Y, Z, "AKs")),
              # the LaBolle scheme of the chemicals IBM samples K several times per step: same X, Y objects, other depths
              ("vertdiff_again", fs + "vertdiff", "ZZ", lambda f_, g_, X, Y, Z: f_.vertdiff(X, Y, Z, "AKs")),
              ("field", fs + "field", "Z", lambda f_, g_, X, Y, Z: f_.field(X, Y, Z, "temp")),
              ("horzdiff", fs + "horzdiff", "Z", lambda f_, g_, X, Y, Z: f_.horzdiff(X, Y, Z)),
              ("velocity", fs + "velocity", "Z", lambda f_, g_, X, Y, Z: f_.velocity(X, Y, Z)),
              ("velocity_tstep", fs + "velocity", "Z", lambda f_, g_, X, Y, Z: f_.velocity(X, Y, Z, tstep=env["ts"])),
              ("wvel", fs + "wvel", "Z", lambda f_, g_, X, Y, Z: f_.wvel(X, Y, Z))]
    if pair == "salmon_lice":
        Q += [("vert_mix", fs + "vert_mix", "Z", lambda f_, g_, X, Y, Z: f_.vert_mix(X, Y, Z))]
    if own:
        Q += [("sample_depth", gs + "sample_depth", "Z", lambda f_, g_, X, Y, Z: g_.sample_depth(X, Y)),
              ("sample_metric", gs + "sample_metric", "Z", lambda f_, g_, X, Y, Z: g_.sample_metric(X, Y)),
              ("atsea", gs + "atsea", "Z", lambda f_, g_, X, Y, Z: g_.atsea(X, Y)),
              ("onland", gs + "onland", "Z", lambda f_, g_, X, Y, Z: g_.onland(X, Y)),
              ("ingrid", gs + "ingrid", "Z", lambda f_, g_, X, Y, Z: g_.ingrid(X, Y)),
              ("lonlat_nearest", gs + "lonlat", "Z", lambda f_, g_, X, Y, Z: g_.lonlat(X, Y, method="nearest")),
              ("lonlat", gs + "lonlat", "Z", lambda f_, g_, X, Y, Z: g_.lonlat(X, Y))]
    if pair in ("mine", "sedimentation"):
        Q += [("sed_sample_depth", gs + "sample_depth", "Z", lambda f_, g_, X, Y, Z: g_.sample_depth(X, Y))]
    # tail histories: the remaining queries the tracker / an IBM / the release step can issue.  They are judged for "returns one
    # value per particle instead of failing" and for independence of the history only (UNJUDGED: no value oracle here)
    margin_only = set()
    if tail:
        if own:
            Q += [("lonlat_None", gs + "lonlat", "Z", lambda f_, g_, X, Y, Z: g_.lonlat(X, Y, method=None)),
                  ("xy2ll", gs + "xy2ll", "Z", lambda f_, g_, X, Y, Z: g_.xy2ll(X, Y)),
                  ("is_close_to_land", gs + "is_close_to_land", "Z", lambda f_, g_, X, Y, Z: g_.is_close_to_land(X, Y)),
                  ("nearest_sea", gs + "nearest_sea", "Z", lambda f_, g_, X, Y, Z: g_.nearest_sea(X, Y))]
        else:
            if pair in ("sedimentation", "salmon_lice"):
                hs = "ladim_plugins/%s/gridforce.py::" % pair
                Q += [("velocity", hs + "Forcing.velocity", "Z", lambda f_, g_, X, Y, Z: f_.velocity(X, Y, Z)),
                      ("velocity_tstep", hs + "Forcing.velocity", "Z", lambda f_, g_, X, Y, Z: f_.velocity(X, Y, Z, tstep=env["ts"])),
                      ("field", hs + "Forcing.field", "Z", lambda f_, g_, X, Y, Z: f_.field(X, Y, Z, "temp"))]
                margin_only.update(["velocity", "velocity_tstep", "field"])
            hg = ("ladim_plugins/mine/__init__.py" if pair == "mine" else "ladim_plugins/%s/gridforce.py" % pair) + "::Grid."
            inh = [("sample_metric", lambda f_, g_, X, Y, Z: g_.sample_metric(X, Y)), ("atsea", lambda f_, g_, X, Y, Z: g_.atsea(X, Y)),
                   ("onland", lambda f_, g_, X, Y, Z: g_.onland(X, Y)), ("ingrid", lambda f_, g_, X, Y, Z: g_.ingrid(X, Y)),
                   ("lonlat_nearest", lambda f_, g_, X, Y, Z: g_.lonlat(X, Y, method="nearest")),
                   ("lonlat_None", lambda f_, g_, X, Y, Z: g_.lonlat(X, Y, method=None))]
            if pair == "salmon_lice":
                inh.append(("sample_depth", lambda f_, g_, X, Y, Z: g_.sample_depth(X, Y)))
            else:
                # (the sedimentation Grid's own xy2ll, asked by the mine IBM for the particles it takes out; nothing asks the
                # salmon_lice Grid - LADiM's - for xy2ll of particle positions: its IBM uses lonlat(method=None))
                inh.append(("xy2ll", lambda f_, g_, X, Y, Z: g_.xy2ll(X, Y)))
            Q += [(qn, hg + ("lonlat" if qn.startswith("lonlat") else qn), "Z", q) for qn, q in inh]
            # the inherited queries of LADiM's ROMS Grid / Forcing are asked for positions within half a cell of the outermost
            # cell centres only (as in check_grid; see ASSUMPTIONS) - that is: always when no particle is left
            margin_only.update(qn for qn, _ in inh)
    unjudged = set(margin_only) | ({"lonlat_None", "xy2ll", "is_close_to_land", "nearest_sea"} if tail else set())
    env = {}

    def judge(name, k, v):
        """(ok, text): is v (the components of the answer for particle k) a value the statement allows for the position
        the arrays hold now"""
        if name in unjudged:
            return True, ""
        x = env["X"][k]; y = env["Y"][k]; ic = env["Ic"][k]; jc = env["Jc"][k]
        z = env["Z"][k] if name != "vertdiff_again" else env["ZZ"][k]
        colw = ZW[:, jc, ic]
        if name in ("vertdiff", "vertdiff_again"):
            ks = nearest_interior_levels(colw, z)
            want = [max(0.0, float(S["A"][kk, jc, ic])) for kk in ks]
            return (v[0] >= 0 and any(v[0] == w for w in want),
                    "diffusivity %r; AKs of cell (%d,%d) at its nearest interior w-level(s) %r (clipped at 0): %r" % (v[0], jc, ic, ks, want))
        if name == "field":
            Kr, _ = level(ZR[:, jc, ic], z)
            vals = [S["T"][Kr - 1, jc, ic], S["T"][Kr, jc, ic]]
            return hull_ok(v[0], vals), "temp %r; cell (%d,%d) at the bracketing rho-levels has %r" % (v[0], jc, ic, vals)
        if name == "horzdiff":
            return (v[0] >= 0 and (v[0] == 0 or M0[jc, ic] >= 1)), "horizontal diffusivity %r, land mask of cell (%d,%d) is %r" % (v[0], jc, ic, M0[jc, ic])
        if name in ("velocity", "velocity_tstep"):
            t = 0.0 if name == "velocity" else env["ts"]
            Ut = S["U"] + t * S["dU"] if t >= 0.001 else S["U"]
            Vt = S["V"] + t * S["dV"] if t >= 0.001 else S["V"]
            Kw, _ = level(colw, z)
            lays = [Kw - 1] + ([Kw] if (colw[Kw] == -z and Kw <= Ut.shape[0] - 1) else [])
            uvals = [Ut[l, jc, ic + e] for l in lays for e in (0, 1)]
            vvals = [Vt[l, jc + e, ic] for l in lays for e in (0, 1)]
            return (hull_ok(v[0], uvals) and hull_ok(v[1], vvals),
                    "tstep %r: (u, v) = (%r, %r); u on the faces of cell (%d,%d), layer(s) %r: %r; v on its faces: %r" % (t, v[0], v[1], jc, ic, lays, uvals, vvals))
        if name in ("wvel", "vert_mix"):
            Kw, _ = level(colw, z)
            F_ = S["W"] if name == "wvel" else S["A"]
            vals = [F_[Kw - 1, jc, ic], F_[Kw, jc, ic]]
            return hull_ok(v[0], vals), "%r; cell (%d,%d) at the bracketing w-levels %d, %d has %r" % (v[0], jc, ic, Kw - 1, Kw, vals)
        if name == "sample_depth":
            return v[0] == H0[jc, ic], "depth %r, cell (%d,%d) has %r" % (v[0], jc, ic, H0[jc, ic])
        if name == "sample_metric":
            return v[0] == DX0[jc, ic], "metric %r, cell (%d,%d) has %r" % (v[0], jc, ic, DX0[jc, ic])
        if name == "atsea":
            return bool(v[0]) == bool(M0[jc, ic] > 0), "atsea %r, land mask of cell (%d,%d) is %r" % (v[0], jc, ic, M0[jc, ic])
        if name == "onland":
            return bool(v[0]) == bool(M0[jc, ic] < 1), "onland %r, land mask of cell (%d,%d) is %r" % (v[0], jc, ic, M0[jc, ic])
        if name == "ingrid":
            if x in (xmin - 0.5, xmax + 0.5) or y in (ymin - 0.5, ymax + 0.5):
                return True, ""
            dom = bool(xmin - 0.5 < x < xmax + 0.5 and ymin - 0.5 < y < ymax + 0.5)
            return bool(v[0]) == dom, "ingrid %r for a position %s half a cell of the outermost cell centres" % (v[0], "within" if dom else "beyond")
        if name == "lonlat_nearest":
            return (v[0] == LON0[jc, ic] and v[1] == LAT0[jc, ic]), "lon/lat (%r, %r), cell (%d,%d) has (%r, %r)" % (v[0], v[1], jc, ic, LON0[jc, ic], LAT0[jc, ic])
        if name == "lonlat":
            # bilinear: between the values of the four nodes around the position (the nearest position on the line of the outermost
            # nodes for a position beyond them)
            a, _, _ = corner_values(LON0, x - i0, y - j0); b, _, _ = corner_values(LAT0, x - i0, y - j0)
            return hull_ok(v[0], a) and hull_ok(v[1], b), "lon/lat (%r, %r), the surrounding nodes have lon %r, lat %r" % (v[0], v[1], a, b)
        if name == "sed_sample_depth":
            c, i, j = corner_values(H0, x - i0, y - j0)
            ok = min(c) - 1e-9 <= v[0] <= max(c) + 1e-9           # tolerance as in sed_depth
            if x == np.floor(x) and y == np.floor(y) and xmin <= x <= xmax and ymin <= y <= ymax:
                ok = ok and v[0] == H0[int(j), int(i)]            # "the grid depth at grid nodes": exact, as in sed_depth
            return ok, "depth %r, the surrounding nodes have %r" % (v[0], c)
        raise KeyError(name)

    npart = ctx.rng.randrange(3, 9)
    X, Y = positions(ctx.rng, g, npart)
    Z = np.array([ctx.rng.choice([0.0, 0.5, 5.0, 30.0, ctx.rng.uniform(0, 120)]) for _ in X])
    hist = []
    kinds = ["first", "same_cell", "other_cell"] + [ctx.rng.choice(["same_cell", "other_cell", "other_cell", "over_edge", "over_edge", "anywhere", "x_only", "y_only",
                                                                    "z_only", "unchanged", "new_arrays", "released", "removed"])
                                                    for _ in range(ctx.n(7, 22))]
    tl = dict(phase="drain", empties=0, rounds=0)

    def next_tail_kind(n, last):
        """the next step of the tail (see the docstring), None at the end"""
        if n > 0:
            if tl["phase"] == "after_release":
                tl["phase"] = "drain_all"
                return ctx.rng.choice(["same_cell", "other_cell"])
            if last == "retire_out" or (last == "retired" and ctx.rng.random() < 0.25):
                return "retired"                      # (second case: taken out without leaving, e.g. life span exceeded)
            return "retire_out"
        if tl["empties"] < tl.setdefault("want", ctx.rng.randrange(2, 5)):
            tl["empties"] += 1
            return ctx.rng.choice(["empty_unchanged", "empty_new_arrays", "empty_new_arrays"])
        if tl["rounds"] == 0 and ctx.rng.random() < 0.7:
            tl["rounds"] = 1; tl["empties"] = 0; tl["want"] = ctx.rng.randrange(1, 3); tl["phase"] = "after_release"
            return "released_after_empty"
        return None

    for step, kind in enumerate(kinds):
        n = len(X)
        nX = X.copy(); nY = Y.copy(); nZ = Z.copy()
        if kind == "retire_out":
            # one time step of motion takes one (sometimes two, or all) of the particles out over an edge
            r = ctx.rng.random()
            cnt = n if (tl["phase"] == "drain_all" or r > 0.85) else (min(n, 2) if r > 0.65 else 1)
            for k in ctx.rng.sample(range(n), cnt):
                d = ctx.rng.choice([0.5, 0.51, 0.9, 1.0, 1.49]); side = ctx.rng.choice("WESN")
                if side == "W": nX[k] = xmin - d
                if side == "E": nX[k] = xmax + d
                if side == "S": nY[k] = ymin - d
                if side == "N": nY[k] = ymax + d
        if kind in ("same_cell", "other_cell", "over_edge", "anywhere", "x_only", "y_only", "new_arrays"):
            pX, pY = positions(ctx.rng, g, n)
            for k in range(n):
                kd = kind if kind in ("same_cell", "other_cell", "over_edge") else ctx.rng.choice(["same_cell", "other_cell", "over_edge", "anywhere", "stay"])
                if kd == "same_cell":
                    nX[k] = np.round(X[k]) + ctx.rng.uniform(-0.49, 0.49); nY[k] = np.round(Y[k]) + ctx.rng.uniform(-0.49, 0.49)
                elif kd == "other_cell":
                    # at most one step of motion: to one of the eight neighbouring cells, not further than one cell outside the grid
                    di, dj = ctx.rng.choice([(a, b) for a in (-1, 0, 1) for b in (-1, 0, 1) if (a, b) != (0, 0)])
                    nX[k] = min(max(np.round(X[k]) + di, xmin - 1), xmax + 1) + ctx.rng.uniform(-0.49, 0.49)
                    nY[k] = min(max(np.round(Y[k]) + dj, ymin - 1), ymax + 1) + ctx.rng.uniform(-0.49, 0.49)
                elif kd == "over_edge":
                    # from a cell next to an edge (or wherever it is) to 0.5 .. 1.49 cells beyond an edge
                    d = ctx.rng.choice([0.5, 0.51, 0.9, 1.0, 1.49]); side = ctx.rng.choice("WESN")
                    if side == "W": nX[k] = xmin - d
                    if side == "E": nX[k] = xmax + d
                    if side == "S": nY[k] = ymin - d
                    if side == "N": nY[k] = ymax + d
                elif kd == "anywhere":
                    nX[k] = pX[k]; nY[k] = pY[k]
            if kind == "x_only": nY = Y.copy()
            if kind == "y_only": nX = X.copy()
        if kind not in ("unchanged", "first"):
            for k in range(n):
                if ctx.rng.random() < 0.5:
                    nZ[k] = ctx.rng.choice([0.0, 0.5, 5.0, 30.0, ctx.rng.uniform(0, 120), abs(Z[k] + ctx.rng.uniform(-3, 3))])
                if ctx.rng.random() < 0.15:
                    # exactly on a w-level / half way between two w-levels (two interior levels equally near) of the new cell's column
                    cw = ZW[:, min(max(int(np.round(nY[k])) - j0, 0), ny - 1), min(max(int(np.round(nX[k])) - i0, 0), nx - 1)]
                    j = ctx.rng.randrange(len(cw) - 1)
                    nZ[k] = (-cw[j] if ctx.rng.random() < 0.5 else -0.5 * (cw[j] + cw[j + 1])) + 0.0
                    ctx.branch("history_depth_on_or_between_w_levels")
        # how the caller stores the new positions
        if kind == "new_arrays":
            how = "new_arrays"; X = nX; Y = nY; Z = nZ
        elif kind == "retired":
            # the release step takes out the particles that are beyond half a cell of the outermost cell centres (if there
            # is none: one particle, e.g. life span exceeded): the caller goes on with new, shorter arrays
            how = "retired"
            gone = ~((xmin - 0.5 < nX) & (nX < xmax + 0.5) & (ymin - 0.5 < nY) & (nY < ymax + 0.5))
            if not gone.any():
                gone[ctx.rng.randrange(n)] = True
            X = nX[~gone]; Y = nY[~gone]; Z = nZ[~gone]
        elif kind == "empty_new_arrays":
            ek, X, Y, Z = empty_arrays(ctx, g)
            how = "new_arrays_" + ek
        elif kind in ("released", "released_after_empty"):
            how = "released"; m = ctx.rng.randrange(1, 4); pX, pY = positions(ctx.rng, g, m)
            X = np.concatenate([nX, pX]); Y = np.concatenate([nY, pY]); Z = np.concatenate([nZ, np.array([ctx.rng.uniform(0, 60) for _ in range(m)])])
        elif kind == "removed" and n > 2:
            how = "removed"; keep = np.ones(n, dtype=bool); keep[ctx.rng.randrange(n)] = False
            X = nX[keep]; Y = nY[keep]; Z = nZ[keep]
        else:
            how = ctx.rng.choice(["slice", "mask", "add"])
            if how == "slice":
                X[:] = nX; Y[:] = nY; Z[:] = nZ
            elif how == "mask":
                mv = (nX != X) | (nY != Y) | (nZ != Z)
                X[mv] = nX[mv]; Y[mv] = nY[mv]; Z[mv] = nZ[mv]
            else:
                X += nX - X; Y += nY - Y; Z[:] = nZ
                # the sum may land on the other side of a cell border or beyond 1.49 cells outside: then store the target itself
                bad = (np.round(X) != np.round(nX)) | (np.round(Y) != np.round(nY)) | (np.abs(X - nX) > 1e-9) | (np.abs(Y - nY) > 1e-9)
                X[bad] = nX[bad]; Y[bad] = nY[bad]
        n = len(X)
        # the forcing advances to the next time step (as in a run: update, then the queries of that step)
        if f is not None and tnow < nt_max and kind != "first" and ctx.rng.random() < 0.3:
            tnow += 1; f.update(tnow); f2.update(tnow); S = snap(); ctx.branch("history_forcing_time_step")
        ZZ = np.array([abs(z + ctx.rng.uniform(-4, 4)) for z in Z])
        Ic = np.clip(np.round(X).astype(int) - i0, 0, nx - 1); Jc = np.clip(np.round(Y).astype(int) - j0, 0, ny - 1)
        env.update(X=X, Y=Y, Z=Z, ZZ=ZZ, Ic=Ic, Jc=Jc, ts=ctx.rng.choice([0.5, 1.0]))
        hist.append(dict(step=step, move=kind, stored=how if kind != "first" else "first arrays", forcing_time_step=tnow,
                         X=X.tolist(), Y=Y.tolist(), Z=Z.tolist()))
        ctx.case(key=("history", pair, label, step, tuple(X.tolist()), tuple(Y.tolist())), nontrivial=True)
        ctx.branch("history_" + pair); ctx.branch("history_move_" + kind)
        if n == 0:
            ctx.branch("history_no_particle_left"); ctx.branch("history_no_particle_left_" + pair)
        in_margin = bool(np.all((xmin - 0.5 <= X) & (X <= xmax + 0.5) & (ymin - 0.5 <= Y) & (Y <= ymax + 0.5)))
        if kind != "first":
            ctx.branch("history_stored_" + how)
            if how in ("slice", "mask", "add"):
                if np.any((Ic != pIc[:n]) | (Jc != pJc[:n])):
                    ctx.branch("history_in_place_to_other_cell")
                out_now = ~((xmin - 0.5 < X) & (X < xmax + 0.5) & (ymin - 0.5 < Y) & (Y < ymax + 0.5))
                if np.any(out_now & ~pOut[:n]):
                    ctx.branch("history_in_place_out_over_edge")
        pIc = Ic; pJc = Jc; pOut = ~((xmin - 0.5 < X) & (X < xmax + 0.5) & (ymin - 0.5 < Y) & (Y < ymax + 0.5))
        cs = dict(grid=label, module=pair, i0=i0, j0=j0, shape=[ny, nx], step=step,
                  how="one Grid / Forcing, all queries of every step in this order: %s; the arrays X, Y, Z of a step are the SAME objects as "
                      "in the step before unless 'stored' says new_arrays / released / removed" % ", ".join(q[0] for q in Q),
                  history=[dict(h) for h in hist])
        for name, site, zsel, call in Q:
            if name in margin_only and not in_margin:
                continue
            Zq = Z if zsel == "Z" else ZZ
            Xb = X.copy(); Yb = Y.copy(); Zb = Zq.copy()
            v = try_call(ctx, tag + "." + name + ".raises", site, lambda: call(f, g, X, Y, Zq), dict(cs, query=name))
            if v is None:
                continue
            cols = as_cols(v)
            if not ctx.oracle(all(np.shape(c) == (n,) for c in cols), tag + "." + name + ".shape", site,
                              "answer of shape %r for %d particles" % ([np.shape(c) for c in cols], n), dict(cs, query=name)):
                continue
            # one value per particle of the kind the query returns (a number / a flag), also when there is no particle
            ctx.oracle(len(cols) == QCOMP.get(name, 1) and all(c.dtype.kind in QKIND[name] for c in cols), tag + "." + name + ".dtype", site,
                       "answer with %d component(s) of dtype %r for %d particles" % (len(cols), [c.dtype.str for c in cols], n), dict(cs, query=name))
            # judged on what the arrays held when the query was issued
            env.update(X=Xb, Y=Yb, Z=Zb if zsel == "Z" else env["Z"], ZZ=Zb if zsel == "ZZ" else env["ZZ"],
                       Ic=np.clip(np.round(Xb).astype(int) - i0, 0, nx - 1), Jc=np.clip(np.round(Yb).astype(int) - j0, 0, ny - 1))
            for k in range(n):
                ok, text = judge(name, k, [c[k] for c in cols])
                if not ctx.oracle(ok, tag + "." + name + ".not_value_of_current_cell", site,
                                  "step %d (%s), particle %d now at (%r, %r, depth %r): %s" % (step, kind, k, Xb[k], Yb[k], Zb[k], text),
                                  dict(cs, query=name, particle=k)):
                    break
            # the same positions asked of a Grid / Forcing that has never seen these arrays or any earlier position
            r = try_call(ctx, tag + "." + name + ".raises", site, lambda: call(f2, g2, Xb.copy(), Yb.copy(), Zb.copy()), dict(cs, query=name, fresh=True))
            if r is not None:
                rc = as_cols(r)
                bad = [k for k in range(n) if any(not np.array_equal(np.asarray(c)[k], np.asarray(d)[k], equal_nan=True) for c, d in zip(cols, rc))]
                ctx.oracle(not bad, tag + "." + name + ".depends_on_history", site,
                           "step %d (%s): particle(s) %r get %r; a Grid / Forcing without history gives %r for the same positions"
                           % (step, kind, bad[:3], [[np.asarray(c)[k] for c in cols] for k in bad[:3]], [[np.asarray(d)[k] for d in rc] for k in bad[:3]]),
                           dict(cs, query=name))
        if tail and step == len(kinds) - 1 and len(kinds) < 120:
            nk = next_tail_kind(n, kind)
            if nk is not None:
                kinds.append(nk)
    for o in (f, f2):
        try:
            if o is not None:
                o.close()
        except Exception:
            pass


def full_run(ctx, tmp, module, side, idx):
    """a full LADiM run of one module on a flat basin with a uniform current towards one boundary: three particles released
    0.05 / 0.3 / 0.6 cell inside that boundary and one in the middle.  The run must complete and, at the last output, only the
    particle in the middle is left (the others were retired by LADiM after leaving the grid)."""
    import yaml, netCDF4, logging, importlib.resources, traceback
    import ladim
    nx, ny, N = 12, 11, ctx.rng.randrange(3, 6)
    nt = 3; dt = 600
    cells = ctx.rng.choice([0.3, 0.45, 0.6, 0.75, 0.9])            # displacement per time step, grid cells (cells are 800 m)
    speed = cells * 800.0 / dt
    adv = ctx.rng.choice(["EF", "RK4"])            # the integrators of the installed LADiM
    uu = {"W": -speed, "E": speed}.get(side, 0.0); vv = {"S": -speed, "N": speed}.get(side, 0.0)
    path = os.path.join(tmp, "run%d.nc" % idx); rls = os.path.join(tmp, "run%d.rls" % idx); out = os.path.join(tmp, "run%d_out.nc" % idx)
    romsfile.write_roms(path, ctx.rng, nx=nx, ny=ny, N=N, flat=50.0,
                        values=dict(u=np.full((nt, N, ny, nx - 1), uu), v=np.full((nt, N, ny - 1, nx), vv)))
    with netCDF4.Dataset(path, "a") as ds:
        ds["pm"][:] = 1.0 / 800.0; ds["pn"][:] = 1.0 / 800.0
    with importlib.resources.files("ladim_plugins." + module).joinpath("ladim.yaml").open() as fp:
        conf = yaml.safe_load(fp)
    conf["time_control"] = dict(start_time="2015-09-07 01:00:00", stop_time="2015-09-07 01:30:00")
    conf["files"] = dict(particle_release_file=rls, output_file=out)
    conf["gridforce"]["input_file"] = path
    conf["numerics"]["dt"] = [dt, "s"]; conf["numerics"]["diffusion"] = 0; conf["numerics"]["advection"] = adv
    conf["output_variables"]["outper"] = [dt, "s"]
    if "lifespan" in conf["ibm"]:
        conf["ibm"]["lifespan"] = 10 ** 7
    if module == "mine":
        conf["ibm"]["vertical_advection"] = bool(ctx.rng.random() < 0.5)
    gmod = importlib.import_module(conf["gridforce"]["module"])
    g = gmod.Grid(dict(gridforce=dict(input_file=path)))
    # the extent of this module's ingrid (chemicals: half a cell beyond the outermost cell centres; LADiM's: half a cell inside)
    xs = np.linspace(g.xmin - 1, g.xmax + 1, 4001); ys = np.linspace(g.ymin - 1, g.ymax + 1, 4001)
    inx = xs[g.ingrid(xs, np.full_like(xs, 0.5 * (g.ymin + g.ymax)))]; iny = ys[g.ingrid(np.full_like(ys, 0.5 * (g.xmin + g.xmax)), ys)]
    x0, x1, y0, y1 = float(inx.min()), float(inx.max()), float(iny.min()), float(iny.max())
    pts = [(0.5 * (x0 + x1), 0.5 * (y0 + y1))]
    for dist, along in ((0.05, 0.25), (0.3, 0.5), (0.6, 0.8)):
        if side == "W": pts.append((x0 + dist, y0 + along * (y1 - y0)))
        if side == "E": pts.append((x1 - dist, y0 + along * (y1 - y0)))
        if side == "S": pts.append((x0 + along * (x1 - x0), y0 + dist))
        if side == "N": pts.append((x0 + along * (x1 - x0), y1 - dist))
    with open(rls, "w") as fp:
        for (x, y) in pts:
            row = dict(release_time="2015-09-07T01:00:00", X="%.6f" % x, Y="%.6f" % y, Z="5", group_id="0", active="1", sink_vel="0.00001", mult="1")
            fp.write("\t".join(row[v] for v in conf["particle_release"]["variables"]) + "\n")
    cs = dict(module=module, boundary=side, cells_per_step=cells, advection=adv, N=N, release=pts, config=conf)
    site = "ladim_plugins/%s (full LADiM run)" % module
    ctx.case(key=("run", module, side, cells, adv, idx), nontrivial=True); ctx.branch("full_run_%s_%s" % (module, side))
    root = logging.getLogger(); handlers = root.handlers[:]; lvl = root.level
    logging.disable(logging.CRITICAL)
    err = None
    try:
        ladim.main(yaml.safe_dump(conf))
    except KeyboardInterrupt:
        raise
    except BaseException as e:
        err = "%r\n%s" % (e, traceback.format_exc()[-2500:])
    finally:
        logging.disable(logging.NOTSET)
        for h in root.handlers[:]:
            if h not in handlers:
                root.removeHandler(h)
        root.setLevel(lvl)
    if not ctx.oracle(err is None, "C15.run.aborted", site, "the run did not complete: %s" % (err,), cs):
        return
    with netCDF4.Dataset(out) as nc:
        count = [int(c) for c in nc["particle_count"][:]]
        pid = [int(p) for p in nc["pid"][:]]
    ctx.oracle(count[0] == 4 and count[-1] == 1 and pid[-1] == 0, "C15.run.not_retired", site,
               "particle_count per output step %r (pids %r): expected 4 at the start and only particle 0 (released in the middle) at the end" % (count, pid), cs)


PAIR_TAG = dict(chemicals="C15", mine="C15.mine", sedimentation="C15.sed", salmon_lice="C15.lice")


def pair_modules(G, pair):
    """(module with Grid / Forcing, site prefix of its Forcing methods, site prefix of its Grid methods)"""
    if pair == "chemicals":
        return G, SITE + "::Forcing.", SITE + "::Grid."
    if pair == "mine":
        return importlib.import_module("ladim_plugins.mine"), SITE + "::Forcing.", "ladim_plugins/mine/__init__.py::Grid."
    p = "ladim_plugins/%s/gridforce.py::" % pair
    return importlib.import_module("ladim_plugins.%s.gridforce" % pair), p + "Forcing.", p + "Grid."


def empty_queries(ctx, G, conf, label):
    """Every Grid / Forcing query the tracker, the release step or an IBM can issue, with NO particle: LADiM calls the tracker and
    the IBM at every time step, also before a later release and after the last particle has been retired through an open boundary.
    The answer must be one value per particle - zero-length arrays of numbers / flags - instead of an exception.  All four modules
    of the anchors; fresh objects, and objects that have advanced in time and answered a query for particles before."""
    for pair in ("chemicals", "mine", "sedimentation", "salmon_lice"):
        Mod, fs, gs = pair_modules(G, pair)
        tag = PAIR_TAG[pair] + ".empty."
        g = Mod.Grid(conf); f = Mod.Forcing(conf, g)
        f.update(0)
        used = ctx.rng.random() < 0.5
        if used:
            # the objects have a past: a later forcing time step and a query for particles well inside the grid
            f.update(1)
            px = np.array([0.5 * (g.xmin + g.xmax)]); py = np.array([0.5 * (g.ymin + g.ymax)]); pz = np.array([1.0])
            f.velocity(px, py, pz); g.sample_depth(px, py); f.field(px, py, pz, "temp")
            ctx.branch("empty_query_on_used_objects")
        Q = [("velocity", fs + "velocity", lambda X, Y, Z: f.velocity(X, Y, Z)),
             ("velocity_tstep", fs + "velocity", lambda X, Y, Z: f.velocity(X, Y, Z, tstep=ts)),
             ("field", fs + "field", lambda X, Y, Z: f.field(X, Y, Z, "temp"))]
        if pair in ("chemicals", "mine"):
            Q += [("wvel", fs + "wvel", lambda X, Y, Z: f.wvel(X, Y, Z)),
                  ("vertdiff", fs + "vertdiff", lambda X, Y, Z: f.vertdiff(X, Y, Z, "AKs")),
                  ("horzdiff", fs + "horzdiff", lambda X, Y, Z: f.horzdiff(X, Y, Z))]
        if pair == "salmon_lice":
            Q += [("vert_mix", fs + "vert_mix", lambda X, Y, Z: f.vert_mix(X, Y, Z))]
        sd = "ladim_plugins/sedimentation/gridforce.py::Grid." if pair == "mine" else gs        # mine: the sedimentation Grid's own methods
        Q += [("sample_depth", sd + "sample_depth", lambda X, Y, Z: g.sample_depth(X, Y)),
              ("sample_metric", gs + "sample_metric", lambda X, Y, Z: g.sample_metric(X, Y)),
              ("lonlat", gs + "lonlat", lambda X, Y, Z: g.lonlat(X, Y)),
              ("lonlat_nearest", gs + "lonlat", lambda X, Y, Z: g.lonlat(X, Y, method="nearest")),
              ("lonlat_None", gs + "lonlat", lambda X, Y, Z: g.lonlat(X, Y, method=None)),
              ("xy2ll", (sd if pair in ("mine", "sedimentation") else gs) + "xy2ll", lambda X, Y, Z: g.xy2ll(X, Y)),
              ("ll2xy", gs + "ll2xy", lambda X, Y, Z: g.ll2xy(X, Y)),           # the release step's converter, for a release table without rows
              ("ingrid", gs + "ingrid", lambda X, Y, Z: g.ingrid(X, Y)),
              ("atsea", gs + "atsea", lambda X, Y, Z: g.atsea(X, Y)),
              ("onland", gs + "onland", lambda X, Y, Z: g.onland(X, Y))]
        if pair == "chemicals":
            Q += [("is_close_to_land", gs + "is_close_to_land", lambda X, Y, Z: g.is_close_to_land(X, Y)),
                  ("nearest_sea", gs + "nearest_sea", lambda X, Y, Z: g.nearest_sea(X, Y))]
        for ek in EMPTY_KINDS:
            ts = ctx.rng.choice([0.5, 1.0])
            for name, site, call in Q:
                _, X, Y, Z = empty_arrays(ctx, g, ek)
                cs = dict(grid=label, module=pair, query=name, n=0, arrays=ek, X=X, Y=Y, Z=Z, tstep=ts if name == "velocity_tstep" else None,
                          objects="forcing at time step 1, queried for a particle before" if used else "new, forcing at time step 0",
                          i0=g.i0, j0=g.j0, shape=list(g.H.shape))
                ctx.case(key=("empty", pair, label, name, ek), nontrivial=True)
                ctx.branch("empty_query_" + pair); ctx.branch("empty_arrays_" + ek)
                v = try_call(ctx, tag + name + ".raises", site, lambda: call(X, Y, Z), cs)
                if v is None:
                    continue
                cols = as_cols(v)
                if ctx.oracle(len(cols) == QCOMP.get(name, 1) and all(np.shape(c) == (0,) for c in cols), tag + name + ".shape", site,
                              "%d component(s) of shape %r for no particle" % (len(cols), [np.shape(c) for c in cols]), cs):
                    ctx.oracle(all(c.dtype.kind in QKIND[name] for c in cols), tag + name + ".dtype", site,
                               "dtype %r for a query that returns %s" % ([c.dtype.str for c in cols], "flags" if QKIND[name] == "b" else "numbers"), cs)
        try:
            f.close()
        except Exception:
            pass


def with_salt(ctx, conf, tmp, label):
    """copy of a configuration whose forcing file also has `salt` (the salmon_lice IBM samples temp and salt)"""
    import netCDF4
    path = os.path.join(tmp, "salt_%s.nc" % label)
    if not os.path.exists(path):
        shutil.copy(conf["gridforce"]["input_file"], path)
        R = np.random.RandomState(ctx.sub_seed())
        with netCDF4.Dataset(path, "a") as ds:
            t = ds["temp"]
            v = ds.createVariable("salt", t.dtype, t.dimensions); v[:] = R.uniform(20.0, 36.0, t.shape)
    c = dict(conf); c["gridforce"] = dict(conf["gridforce"], input_file=path); c["ibm_forcing"] = ["temp", "salt", "AKs"]
    return c


def ibm_history(ctx, G, conf, label, module, tmp, idx):
    """update_ibm of a module's IBM at every time step of a history, on the module's real Grid / Forcing (inside LADiM's wrappers
    RomsGrid / RomsForcing) and LADiM's real State, in the order of LADiM's main loop (release step: retire / release; forcing;
    [tracker: here one particle is put beyond an edge]; IBM), while the particles leave one by one until NONE is left; then the
    IBM is called on the empty state for some steps, particles are released again, leave again.  The property: the step returns
    instead of failing - with particles up to one step beyond an edge and with no particle at all (the run continues to its stop
    time).  What the IBMs compute is the subject of other properties."""
    from ladim.grid import RomsGrid
    from ladim.forcing import RomsForcing
    from .stubs import real_state
    from .common import RngRecorder
    own = module == "chemicals"
    pkg = importlib.import_module("ladim_plugins." + module)
    if module == "salmon_lice":
        conf = with_salt(ctx, conf, tmp, label)
    g = pkg.Grid(conf); f = pkg.Forcing(conf, g)
    ny, nx = g.H.shape
    xmin = float(g.i0); xmax = float(g.i0 + nx - 1); ymin = float(g.j0); ymax = float(g.j0 + ny - 1)
    # the module's ingrid, by arithmetic: chemicals half a cell beyond the outermost cell centres, LADiM's ROMS Grid half a cell inside
    e = -0.5 if own else 0.5
    x0, x1, y0, y1 = xmin + e, xmax - e, ymin + e, ymax - e

    def inside(X, Y):
        return (x0 < X) & (X < x1) & (y0 < Y) & (Y < y1)

    def release(m):
        X = np.array([ctx.rng.uniform(x0 + 0.01, x1 - 0.01) for _ in range(m)]); Y = np.array([ctx.rng.uniform(y0 + 0.01, y1 - 0.01) for _ in range(m)])
        H = np.array([float(g.H[min(max(int(round(y)) - g.j0, 0), ny - 1), min(max(int(round(x)) - g.i0, 0), nx - 1)]) for x, y in zip(X, Y)])
        Z = np.array([ctx.rng.choice([0.0, 0.5, ctx.rng.uniform(0, 1) * h, h, h + 1.0]) for h in H])
        d = dict(X=X, Y=Y, Z=Z)
        for k, v in extra.items():
            d[k] = np.array([v() for _ in range(m)])
        return d
    dt = 600
    wg = RomsGrid.__new__(RomsGrid); wg.grid = g
    wg.xmin, wg.xmax, wg.ymin, wg.ymax = g.xmin, g.xmax, g.ymin, g.ymax
    wf = RomsForcing.__new__(RomsForcing); wf.forcing = f; wf.variables = {}
    rc = ctx.rng.choice; ru = ctx.rng.uniform
    if own:
        ic = dict(vertical_mixing=rc(["AKs", "AKs", 0.001, 0]), vertdiff_dt=rc([60, 200, 600]), vertdiff_dz=rc([0, 2]), vertdiff_max=rc([0.01, float("inf")]),
                  horzdiff_type=rc(["smagorinsky", None]), horzdiff_max=1, land_collision=rc(["reposition", "coastal_diffusion", "freeze"]),
                  vertical_advection=rc([True, False]), lifespan=rc([None, 10 ** 7, 1500]))
        iconf = dict(dt=dt, ibm=ic)
        extra = dict(age=lambda: 0.0) if ic["lifespan"] is not None else {}
    elif module == "mine":
        ic = dict(lifespan=rc([10 ** 7, 1500]), vertical_mixing=rc([0.0, 1e-4]), taucrit=rc([1000, 0.12, 0.0]), vertical_advection=rc([True, False]),
                  land_collision=rc(["reposition", "freeze"]))
        iconf = dict(dt=dt, ibm=ic, output_instance=[], nc_attributes={})
        if ctx.rng.random() < 0.5:
            # the separate file of the particles taken out (store -> Grid.xy2ll of the dead particles' positions: often none)
            ic["output_file"] = os.path.join(tmp, "dead_%d.nc" % idx)
            iconf["output_instance"] = ["X", "Y", "Z", "lon", "lat", "age"]
            iconf["nc_attributes"] = {k: dict(ncformat="f8") for k in iconf["output_instance"]}
        extra = dict(age=lambda: 0.0, sink_vel=lambda: rc([0.0001, 0.01, 0.1]), active=lambda: rc([1, 1, 0]))
    elif module == "sedimentation":
        S = importlib.import_module("ladim_plugins.sedimentation")
        grain = os.path.join(os.path.dirname(S.__file__), "grainsize.nc")
        ic = dict(lifespan=rc([10 ** 7, 1500]),
                  vertical_mixing=rc([None, 0.001, dict(method="bounded_linear", max_diff=0.01)]),
                  taucrit=rc([None, 0.12, 0.0, dict(method="grain_size_bin", source=grain, varname="grain_size"),
                              dict(method="grain_size_poly", source=grain, varname="grain_size")]))
        iconf = dict(dt=dt, ibm=ic)
        extra = dict(age=lambda: 0.0, sink_vel=lambda: rc([0.0, 0.0001, 0.01, 0.1]), active=lambda: rc([1, 1, 0]))
    else:
        ic = dict(vertical_mixing=rc([0.001, 0.0]))
        iconf = dict(dt=dt, ibm=ic)
        extra = {"super": lambda: 100.0, "age": lambda: ru(0, 100), "days": lambda: 0.0, "temp": lambda: 0.0, "salt": lambda: 0.0}
    site = "ladim_plugins/%s/ibm.py::IBM.update_ibm" % module
    tag = PAIR_TAG[module] + ".ibm."
    import logging
    logging.disable(logging.CRITICAL)           # (the chemicals IBM warns about coarse vertdiff_dz / vertdiff_dt combinations)
    try:
        ibm = pkg.IBM(iconf)
    finally:
        logging.disable(logging.NOTSET)
    st = real_state(dt=dt, timestep=0, timestamp=np.datetime64("2015-09-07T01:00:00"), **release(ctx.rng.randrange(1, 5)))
    seed = ctx.sub_seed()
    hist = []
    t = 0; tf = -1; empties = 0; rounds = 0; want = ctx.rng.randrange(2, 5)
    while t < 60:
        # --- release step: retire what is dead or outside the grid; a later release
        ev = []
        if st.size:
            gone = ~(np.asarray(st["alive"], dtype=bool) & inside(st["X"], st["Y"]))
            if gone.any():
                st.remove(gone); ev.append("retired %d" % int(gone.sum()))
        if st.size == 0 and empties >= want and rounds == 0:
            rounds = 1; empties = 0; want = ctx.rng.randrange(1, 3)
            st.append(release(ctx.rng.randrange(1, 4))); ev.append("released %d" % st.size); ctx.branch("ibm_history_released_after_empty")
        elif st.size == 0 and empties >= want:
            break
        n = st.size
        # --- forcing: LADiM updates it only while there are particles; the first update initialises it
        if tf < 0 or (n > 0 and tf < 4 and ctx.rng.random() < 0.4):
            tf += 1; f.update(tf)
        st.timestep = t; st.timestamp = np.datetime64("2015-09-07T01:00:00") + np.timedelta64(t * dt, "s")
        # --- tracker: one particle (sometimes all) ends up to one step beyond an edge, in place in the state's arrays
        if n > 0 and t > 0:
            who = list(range(n)) if (rounds == 1 or ctx.rng.random() < 0.15) else [ctx.rng.randrange(n)]
            for k in who:
                d = rc([0.0, 0.01, 0.4, 0.5, 0.99]); side = rc("WESN")
                if side == "W": st["X"][k] = x0 - d
                if side == "E": st["X"][k] = x1 + d
                if side == "S": st["Y"][k] = y0 - d
                if side == "N": st["Y"][k] = y1 + d
            ev.append("moved out %r" % (who,))
        hist.append(dict(step=t, events=ev, forcing_time_step=tf, n=n, X=st["X"].tolist(), Y=st["Y"].tolist(), Z=st["Z"].tolist()))
        cs = dict(grid=label, module=module, ibm_config=iconf, i0=g.i0, j0=g.j0, shape=[ny, nx], np_random_seed=seed + t, step=t,
                  how="one IBM / Grid / Forcing / ladim.state.State; per step: release step (State.remove / State.append), forcing.update, "
                      "positions set in place, IBM.update_ibm(RomsGrid wrapper, state, RomsForcing wrapper)",
                  history=[dict(h) for h in hist])
        ctx.case(key=("ibm", module, label, idx, t, n), nontrivial=True)
        ctx.branch("ibm_history_" + module); ctx.size("ibm_history_particles", n)
        if n == 0:
            empties += 1; ctx.branch("ibm_on_empty_state_" + module)
        err = None
        try:
            with RngRecorder(seed + t):
                ibm.update_ibm(wg, st, wf)
        except Exception as ex:
            import traceback
            err = "%r\n%s" % (ex, traceback.format_exc()[-1500:])
        if not ctx.oracle(err is None, tag + ("empty_state_raises" if n == 0 else "raises"), site,
                          "step %d, %d particle(s): update_ibm raised %s" % (t, n, err), cs):
            break
        bad = {k: np.shape(v) for k, v in st._data.items() if np.shape(v) != (n,)}
        if not ctx.oracle(st.size == n and not bad, tag + "state_length_changed", site,
                          "step %d: the state had %d particle(s) before update_ibm, afterwards %d; variables of another length: %r" % (t, n, st.size, bad), cs):
            break
        t += 1
    try:
        f.close()
    except Exception:
        pass


def full_run_drain(ctx, tmp, module, side, idx):
    """a full LADiM run of one module on a flat basin with a uniform current towards one boundary in which EVERY particle
    leaves: two or three particles released 0.05 / 0.3 / 0.6 cell inside that boundary, none elsewhere; in half of the runs a
    later release (40 min after the start) in the middle of the basin.  LADiM keeps calling tracker and IBM with no particle;
    the run must continue to its stop time: all 7 output records, particle_count 0 from the fourth record on (0.3 .. 0.9 cell
    per step: all are outside after three steps) until the later release, 1 afterwards."""
    import yaml, netCDF4, logging, importlib.resources, traceback
    import ladim
    nx, ny, N = 12, 11, ctx.rng.randrange(3, 6)
    nt = 3; dt = 600
    cells = ctx.rng.choice([0.3, 0.45, 0.6, 0.75, 0.9])
    speed = cells * 800.0 / dt
    adv = ctx.rng.choice(["EF", "RK4"])
    later = ctx.rng.random() < 0.5
    uu = {"W": -speed, "E": speed}.get(side, 0.0); vv = {"S": -speed, "N": speed}.get(side, 0.0)
    path = os.path.join(tmp, "drain%d.nc" % idx); rls = os.path.join(tmp, "drain%d.rls" % idx); out = os.path.join(tmp, "drain%d_out.nc" % idx)
    romsfile.write_roms(path, ctx.rng, nx=nx, ny=ny, N=N, flat=50.0, fields=("temp", "salt", "AKs"),
                        values=dict(u=np.full((nt, N, ny, nx - 1), uu), v=np.full((nt, N, ny - 1, nx), vv)))
    with netCDF4.Dataset(path, "a") as ds:
        ds["pm"][:] = 1.0 / 800.0; ds["pn"][:] = 1.0 / 800.0
    with importlib.resources.files("ladim_plugins." + module).joinpath("ladim.yaml").open() as fp:
        conf = yaml.safe_load(fp)
    conf["time_control"] = dict(start_time="2015-09-07 01:00:00", stop_time="2015-09-07 02:00:00")
    conf["files"] = dict(particle_release_file=rls, output_file=out)
    conf["gridforce"]["input_file"] = path
    conf["numerics"]["dt"] = [dt, "s"]; conf["numerics"]["diffusion"] = 0; conf["numerics"]["advection"] = adv
    conf["output_variables"]["outper"] = [dt, "s"]
    conf["particle_release"].pop("release_type", None); conf["particle_release"].pop("release_frequency", None)      # salmon_lice: one release per row
    if "lifespan" in conf["ibm"]:
        conf["ibm"]["lifespan"] = 10 ** 7
    if module == "mine":
        conf["ibm"]["vertical_advection"] = bool(ctx.rng.random() < 0.5)
    timed = True
    if module == "chemicals":
        # 'reposition' (the shipped setting) re-seeds the surviving particles at random inside their cell on every step without a
        # reallocation of the state (known finding F-C11a of C11): when a particle leaves is then a matter of chance, and the
        # counts are judged only with 'freeze' (no random horizontal move: the shear of a uniform current is zero)
        conf["ibm"]["land_collision"] = ctx.rng.choice(["freeze", "freeze", "reposition"])
        timed = conf["ibm"]["land_collision"] == "freeze"
    gmod = importlib.import_module(conf["gridforce"]["module"])
    g = gmod.Grid(dict(gridforce=dict(input_file=path)))
    xs = np.linspace(g.xmin - 1, g.xmax + 1, 4001); ys = np.linspace(g.ymin - 1, g.ymax + 1, 4001)
    inx = xs[g.ingrid(xs, np.full_like(xs, 0.5 * (g.ymin + g.ymax)))]; iny = ys[g.ingrid(np.full_like(ys, 0.5 * (g.xmin + g.xmax)), ys)]
    x0, x1, y0, y1 = float(inx.min()), float(inx.max()), float(iny.min()), float(iny.max())
    pts = []
    for dist, along in ((0.05, 0.25), (0.3, 0.5), (0.6, 0.8))[ctx.rng.randrange(0, 2):]:
        if side == "W": pts.append((x0 + dist, y0 + along * (y1 - y0)))
        if side == "E": pts.append((x1 - dist, y0 + along * (y1 - y0)))
        if side == "S": pts.append((x0 + along * (x1 - x0), y0 + dist))
        if side == "N": pts.append((x0 + along * (x1 - x0), y1 - dist))
    rows = [("2015-09-07T01:00:00", x, y) for (x, y) in pts]
    if later:
        rows.append(("2015-09-07T01:40:00", 0.5 * (x0 + x1), 0.5 * (y0 + y1)))
    with open(rls, "w") as fp:
        for (tm, x, y) in rows:
            row = dict(release_time=tm, X="%.6f" % x, Y="%.6f" % y, Z="5", group_id="0", active="1", sink_vel="0.00001", mult="1",
                       farmid="1", super="100")
            fp.write("\t".join(row[v] for v in conf["particle_release"]["variables"]) + "\n")
    seed = ctx.sub_seed()
    cs = dict(module=module, boundary=side, cells_per_step=cells, advection=adv, N=N, release=rows, config=conf, np_random_seed=seed)
    site = "ladim_plugins/%s (full LADiM run)" % module
    ctx.case(key=("drain", module, side, cells, adv, later, idx), nontrivial=True)
    ctx.branch("full_run_all_particles_leave_%s_%s" % (module, side)); ctx.branch("full_run_all_leave_" + ("then_later_release" if later else "to_the_end"))
    root = logging.getLogger(); handlers = root.handlers[:]; lvl = root.level
    logging.disable(logging.CRITICAL)
    err = None
    try:
        from .common import RngRecorder
        with RngRecorder(seed):                      # the draws of np.random.* come from a generator seeded by the check
            ladim.main(yaml.safe_dump(conf))
    except KeyboardInterrupt:
        raise
    except BaseException as e:
        err = "%r\n%s" % (e, traceback.format_exc()[-2500:])
    finally:
        logging.disable(logging.NOTSET)
        for h in root.handlers[:]:
            if h not in handlers:
                root.removeHandler(h)
        root.setLevel(lvl)
    if not ctx.oracle(err is None, "C15.run.aborted_with_no_particle_left", site, "the run did not complete: %s" % (err,), cs):
        return
    with netCDF4.Dataset(out) as nc:
        count = [int(c) for c in nc["particle_count"][:]]
        pid = [int(p) for p in nc["pid"][:]]
    want_tail = [0, 1, 1, 1] if later else [0, 0, 0, 0]
    ctx.oracle(len(count) == 7 and count[0] == len(pts) and (count[3:] == want_tail and (not later or pid[-1] == len(pts)) or not timed),
               "C15.run.not_continued_to_stop_time", site,
               "particle_count per output step %r (pids %r): expected 7 records, %d at the start%s"
               % (count, pid, len(pts), ", then %r from the fourth record on" % (want_tail,) if timed else ""), cs)
    if count[3:] == want_tail:
        ctx.branch("full_run_steps_with_no_particle", want_tail.count(0))


def no_particle_left(ctx, G, tmp, confs):
    """zero-length queries: directly, as the tail of histories in which the particles leave one by one, through the IBMs'
    update_ibm on LADiM's State, and in full LADiM runs in which every particle leaves"""
    import netCDF4
    for conf, label in confs:
        empty_queries(ctx, G, conf, label)
        for pair in ("chemicals", "mine", "salmon_lice", "sedimentation"):
            for rep in range(ctx.n(1, 3)):
                history(ctx, G, conf, label, pair, nt_max=4, tail=True)
    chem = os.path.join(os.path.dirname(G.__file__), "forcing.nc")
    with netCDF4.Dataset(chem) as nc:
        shipped = all(v in nc.variables for v in ("temp", "AKs"))
    if shipped:
        conf = dict(gridforce=dict(input_file=chem), start_time=np.datetime64("2015-09-07T01:00:00"),
                    stop_time=np.datetime64("2015-09-07T01:05:00"), dt=60, ibm_forcing=["temp", "AKs"])
        for rep in range(ctx.n(1, 4)):
            history(ctx, G, conf, "shipped", "chemicals", nt_max=3, tail=True)
    # the IBMs on LADiM's State.  LADiM's ROMS Grid (sedimentation, mine, salmon_lice) counts positions more than half a cell
    # inside the outermost cell centres as inside: sub-grids of fewer than four cells across have no such position
    wide = [(c, l) for c, l in confs if min(G.Grid(c).H.shape) >= 4]
    for attempt in range(8):
        if wide:
            break
        c = make_conf(ctx, tmp, 100 + attempt)
        gg = G.Grid(c)
        if min(gg.H.shape) >= 4 and np.all(np.diff(gg.z_w, axis=0) > 0) and np.all(np.diff(gg.z_r, axis=0) > 0):
            wide.append((c, "synthetic%d" % (100 + attempt)))
    idx = 0
    for rep in range(ctx.n(2, 10)):
        for module in ("chemicals", "mine", "sedimentation", "salmon_lice"):
            pool = confs if module == "chemicals" else wide
            if not pool:
                ctx.note("no sub-grid of four cells across: IBM histories of %s not run" % module); continue
            conf, label = pool[ctx.rng.randrange(len(pool))]
            ibm_history(ctx, G, conf, label, module, tmp, idx); idx += 1
    # full LADiM runs in which every particle leaves
    idx = 0
    for rep in range(ctx.n(1, 6)):
        for module in ("chemicals", "sedimentation", "mine", "salmon_lice"):
            for side in (ctx.rng.sample("WESN", 2) if ctx.tier != "thorough" else "WESN"):
                full_run_drain(ctx, tmp, module, side, idx); idx += 1


def make_conf(ctx, tmp, r):
    """one synthetic ROMS file and configuration: size, sub-grid, land, bathymetry range and vertical grid drawn at random"""
    import netCDF4
    nx = ctx.rng.randrange(6, 11); ny = ctx.rng.randrange(5, 10); N = ctx.rng.randrange(3, 6)
    # sub-grid (python style limits in the whole grid; None = no limitation)
    sg = ctx.rng.random(); sub = None
    if sg < 0.25:
        sub = [2, nx - 2, 1, ny - 2]; ctx.branch("subgrid_fixed")
    elif sg < 0.6:
        i0 = ctx.rng.randrange(1, nx - 2); i1 = ctx.rng.randrange(i0 + 2, nx); j0 = ctx.rng.randrange(1, ny - 2); j1 = ctx.rng.randrange(j0 + 2, ny)
        sub = [None if ctx.rng.random() < 0.25 else t for t in (i0, i1, j0, j1)]; ctx.branch("subgrid_random")
        if any(t is None for t in sub):
            ctx.branch("subgrid_with_None")
    else:
        ctx.branch("subgrid_whole")
    whole = [1, nx - 1, 1, ny - 1]
    li0, li1, lj0, lj1 = [w if (sub is None or s_ is None) else s_ for s_, w in zip(sub or [None] * 4, whole)]
    mask = np.ones((ny, nx))
    for _ in range(ctx.rng.randrange(0, 4)):
        mask[ctx.rng.randrange(ny), ctx.rng.randrange(nx)] = 0
    # land in the outermost row / column of the sub-grid
    if ctx.rng.random() < 0.5: mask[ctx.rng.randrange(lj0, lj1), li1 - 1] = 0; ctx.branch("land_on_east_column")
    if ctx.rng.random() < 0.5: mask[lj1 - 1, ctx.rng.randrange(li0, li1)] = 0; ctx.branch("land_on_north_row")
    if ctx.rng.random() < 0.25: mask[ctx.rng.randrange(lj0, lj1), li0] = 0; ctx.branch("land_on_west_column")
    if ctx.rng.random() < 0.25: mask[lj0, ctx.rng.randrange(li0, li1)] = 0; ctx.branch("land_on_south_row")
    path = os.path.join(tmp, "roms%d.nc" % r)
    romsfile.write_roms(path, ctx.rng, nx=nx, ny=ny, N=N, mask=mask)
    conf = dict(gridforce=dict(input_file=path), start_time=np.datetime64("2015-09-07T01:00:00"),
                stop_time=np.datetime64("2015-09-07T02:00:00"), dt=600, ibm_forcing=["temp", "AKs"])
    if sub is not None:
        conf["gridforce"]["subgrid"] = sub
    # bathymetry range and vertical grid (the file romsfile wrote has h in 20..100, hc = 10, Cs ~ -|s|^1.5, no Vtransform)
    hk = ctx.rng.choice(["file", "file", "shallow", "deep"])
    vk = ctx.rng.choice(["file_vt1", "file_vt1", "file_vt2", "vinfo1", "vinfo2", "vinfo4"])
    R = np.random.RandomState(ctx.sub_seed())
    with netCDF4.Dataset(path, "a") as ds:
        if hk == "shallow":
            ds["h"][:] = 2.0 + 28.0 * R.rand(ny, nx)
        elif hk == "deep":
            ds["h"][:] = 50.0 + 450.0 * R.rand(ny, nx)
        hmin = float(np.min(ds["h"][:]))
        vt = 2 if vk == "file_vt2" else 1 if vk == "file_vt1" else ctx.rng.choice([1, 2])
        if vt == 1:
            # the Song-Haidvogel transform needs hc <= min(h) for increasing columns
            hc = ctx.rng.choice([10.0, 1.0, hmin]) if hmin >= 10.0 else hmin * ctx.rng.uniform(0.1, 1.0)
        else:
            hc = ctx.rng.choice([5.0, 10.0, 50.0, 200.0])
        if vk.startswith("file"):
            ds["hc"][...] = hc
            if vt == 2:
                v = ds.createVariable("Vtransform", "i4", ()); v[...] = 2
        else:
            vs = int(vk[-1])
            conf["gridforce"]["Vinfo"] = dict(N=N, hc=hc, theta_s=ctx.rng.uniform(0.5, 7.0),
                                              theta_b=ctx.rng.uniform(0.1, 1.0) if vs == 1 else ctx.rng.uniform(0.1, 4.0),
                                              Vstretching=vs, Vtransform=vt)
    ctx.branch("bathymetry_" + hk); ctx.branch("vertical_%s_Vtransform%d" % (vk if vk.startswith("vinfo") else "file", vt))
    return conf


def run(ctx):
    G = importlib.import_module("ladim_plugins.chemicals.gridforce")
    drv = Driver()
    if getattr(ctx, "widened", False):
        drv.available = False
    pend = []
    tmp = tempfile.mkdtemp(prefix="verif_c15_")
    try:
        confs = []
        for r in range(ctx.n(3, 12)):
            for attempt in range(6):
                conf = make_conf(ctx, tmp, r)
                g = G.Grid(conf)
                if np.all(np.diff(g.z_w, axis=0) > 0) and np.all(np.diff(g.z_r, axis=0) > 0):
                    break
                ctx.branch("vertical_grid_not_increasing_redrawn")      # not an input of the property: columns must increase upwards
            else:
                raise RuntimeError("no valid vertical grid in 6 draws")
            confs.append((conf, "synthetic%d" % r))
        for conf, label in confs:
            check_grid(ctx, drv, pend, G, conf, label)
            check_grid(ctx, drv, pend, G, conf, label, pair="mine")
            lice_vert_mix(ctx, conf, label)
            sed_depth(ctx, drv, pend, conf, label)
            for pair in ("chemicals", "mine", "salmon_lice", "sedimentation"):
                for rep in range(ctx.n(2, 4)):
                    history(ctx, G, conf, label, pair, nt_max=4)
        # full LADiM runs with particles leaving through each boundary
        idx = 0
        for rep in range(ctx.n(1, 8)):
            for module in ("chemicals", "sedimentation", "mine"):
                for side in "WESN":
                    full_run(ctx, tmp, module, side, idx); idx += 1
        # the shipped chemicals forcing file (no AKs/temp there: grid queries only through a reduced config)
        chem = os.path.join(os.path.dirname(G.__file__), "forcing.nc")
        try:
            import netCDF4
            with netCDF4.Dataset(chem) as nc:
                have = [v for v in ("temp", "AKs") if v in nc.variables]
            if len(have) == 2:
                conf = dict(gridforce=dict(input_file=chem), start_time=np.datetime64("2015-09-07T01:00:00"),
                            stop_time=np.datetime64("2015-09-07T01:05:00"), dt=60, ibm_forcing=["temp", "AKs"])
                check_grid(ctx, drv, pend, G, conf, "shipped")
                for rep in range(ctx.n(2, 6)):
                    history(ctx, G, conf, "shipped", "chemicals", nt_max=3)
            else:
                ctx.note("shipped forcing.nc lacks %r: forcing queries not run on it" % ([v for v in ("temp", "AKs") if v not in have],))
        except Exception as e:
            ctx.note("shipped forcing file: %r" % (e,))
        # ---- no particle left (added after everything else: the inputs of the parts above are as they were)
        no_particle_left(ctx, G, tmp, confs)
    finally:
        shutil.rmtree(tmp, ignore_errors=True)
    if drv.available:
        rep = drv.run()
        for kind, j, impl, cs in pend:
            st, t = rep[j]
            if st != "ok":
                ctx.disagreement("gs." + kind, "driver error %r" % (t,), cs); continue
            if kind in ("cell", "vdlevel"):
                ctx.eq("gs." + kind, impl, int(t[0]), cs)
            elif kind == "z2s":
                ctx.eq("gs.z2s.K", impl[0], int(t[0]), cs)
                ctx.eq_bits("gs.z2s.A", impl[1], unF(t[1]), cs)
            elif kind == "bil":
                ctx.eq_close("gs.bilinear", impl, unF(t[0]), cs, rel=1e-12, abs_=1e-12)
            elif kind == "tri":
                # sample3D adds the eight weighted values in the order of the model: same bits
                ctx.eq_bits("gs.trilinear", impl, unF(t[0]), cs)


def replay(payload):
    print("predicate:", payload.get("predicate"), "|", payload.get("detail"))
    return False
