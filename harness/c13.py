"""C13 — NorKyst-800 forcing: right time weights, transparent cache, valid grid metrics.

Correspondence: the real `Buffer` / `OnlineDatabase` miss pattern (hourly fields and daily datasets) against the
Lean two-frame cache model for request histories (forward, repeated, back and forth, around hour boundaries,
across midnight, whole-day jumps); `interp` weights, hour and hour fraction as observed in `get_var`, the metric
index recovered from a grid with pairwise different cell sizes.  Oracle: served currents = time interpolation of
the bracketing hourly fields (read back from the files, computed with scipy), equal to the stored field at whole
hours, independent of the request history -- which includes the requests already made for the same time step (other
depths, positions, sub-steps, particle counts and orders between two update() calls, a second Forcing object): every request is
judged at its own position, on nodes and tabulated depths also against plain reads of the stored arrays; every dataset handed out is the file of the requested day; finite
cell sizes (which are cell sizes of the file, along the right axis) and the depth of an existing cell at every
position the grid reports as inside, for scalar-like and vector calls, with candidates on, next to and beyond
the limits; `ll2xy` against the file's coordinate arrays (scalars and arrays); `z2k` (Grid and Forcing)
monotone and exact at the tabulated depths."""
import importlib, os, tempfile, shutil, datetime
import numpy as np
from .common import Driver, F, I, L, unF, close, same_bits

RULE = ("synthetic NorKyst-style daily files (1..3 days x 24 h, 6..9 x 6..9 x 4..6; u/v float64 or int16 packed with scale_factor and "
        "masked cells; cell sizes 800x800 / 800x1000 / 500x800; X/Y arrays starting at 0 or at an offset as in the packaged file; "
        "file pattern with {year}{month}{day} or, for one day, a constant name) and the packaged forcing.nc (00:00-02:00); "
        "dt in {1, 7, 45, 60, 300, 600, 900, 3600, 5400} s, start at whole hours / odd seconds / 23:30, "
        "the integrators' sub-steps tstep in {0, 0.5, 1}, request histories forward / repeated / back-and-forth / around an hour "
        "boundary / across midnight / jumps of a whole day forth and back (same clock hour on another day); 0..6 positions per "
        "request anywhere in the grid including the outermost cells and on nodes; depths above the surface, at and between the "
        "tabulated depths, below the last one; per update() one request or (4 times out of 5) 2..4 requests for the same time step "
        "without an update in between: same particles at other depths / a depth profile level by level / other horizontal "
        "positions / the integrators' sub-steps (0, 1/2, 1/2, 1) with fixed particles or particles moved horizontally and "
        "vertically in between / the identical request again / another number of particles / the same particles in another "
        "order / particles on nodes at tabulated depths (answer = blend of stored numbers) / everything new / a second Forcing "
        "object on the same files asked for another time in between; z2k four times in a row for arrays of one size "
        "(random depths, tabulated depths in random order); grid queries in batches of 0..7 positions on, next to and beyond the limits "
        "(only those the grid reports as inside are judged); a grid with pairwise different cell sizes. Non-trivial: every request.")
ASSUMPTIONS = ["pyproj's polar-stereographic transform is trusted (ll2xy is compared with the file's lon/lat arrays)",
               "scipy map_coordinates(order=1) is used by both the implementation and the oracle",
               "the stored field is what netCDF4 reads back from the file (unpacked); masked cells (land) count as current 0"]
SITE = "ladim_plugins/nk800met/gridforce.py"
PROJ = "+proj=stere +ellps=WGS84 +lat_0=90.0 +lat_ts=60.0 +x_0=3192800 +y_0=1784000 +lon_0=70"
PACKAGED = None     # path of the packaged forcing.nc, set in run()


def write_day(path, day, nx, ny, nz, R, x0=0.0, y0=0.0, sx=800.0, sy=800.0, packed=False):
    """one daily file.  The projected coordinate of node (i, j) is (sx*i, sy*j); the X/Y *variables* may carry an
    offset (as in the packaged forcing.nc, whose X starts at 160000 while node 0 projects to 0)."""
    import netCDF4
    from pyproj import CRS, Transformer
    ds = netCDF4.Dataset(path, "w")
    ds.createDimension("time", 24); ds.createDimension("X", nx); ds.createDimension("Y", ny); ds.createDimension("depth", nz)
    X = x0 + sx * np.arange(nx); Y = y0 + sy * np.arange(ny)
    v = ds.createVariable("X", "f8", ("X",)); v[:] = X
    v = ds.createVariable("Y", "f8", ("Y",)); v[:] = Y
    depth = np.array([0.0, 3.0, 10.0, 15.0, 25.0, 50.0, 75.0, 100.0][:nz])
    v = ds.createVariable("depth", "f8", ("depth",)); v[:] = depth
    p = ds.createVariable("projection_stere", "i4", ()); p.proj4 = PROJ; p.grid_mapping_name = "polar_stereographic"
    h = 10.0 + 90.0 * R.rand(ny, nx)
    v = ds.createVariable("h", "f8", ("Y", "X")); v[:] = h
    tr = Transformer.from_crs(CRS.from_proj4(PROJ), CRS.from_epsg(4326), always_xy=True)
    XX, YY = np.meshgrid(X - x0, Y - y0)
    lon, lat = tr.transform(XX, YY)
    v = ds.createVariable("lon", "f8", ("Y", "X")); v[:] = lon
    v = ds.createVariable("lat", "f8", ("Y", "X")); v[:] = lat
    epoch = np.datetime64("1970-01-01T00:00:00")
    t = ds.createVariable("time", "f8", ("time",)); t.units = "seconds since 1970-01-01"
    t[:] = (np.datetime64(day) - epoch).astype("timedelta64[s]").astype(float) + 3600.0 * np.arange(24)
    u = R.uniform(-1, 1, (24, nz, ny, nx)); vv = R.uniform(-1, 1, (24, nz, ny, nx))
    if packed:
        # like the real NorKyst files: int16, scale_factor, _FillValue, land cells masked
        for name, arr in (("u", u), ("v", vv)):
            a = ds.createVariable(name, "i2", ("time", "depth", "Y", "X"), fill_value=np.int16(-32767))
            a.scale_factor = np.float32(0.001); a.add_offset = np.float32(0.0)
            a[:] = np.ma.masked_array(arr, mask=R.rand(24, nz, ny, nx) < 0.15)
    else:
        a = ds.createVariable("u", "f8", ("time", "depth", "Y", "X")); a[:] = u
        a = ds.createVariable("v", "f8", ("time", "depth", "Y", "X")); a[:] = vv
    ds.close()
    # the stored fields: what a direct read of the file gives
    ds = netCDF4.Dataset(path)
    u = np.ma.filled(ds.variables["u"][:], 0); vv = np.ma.filled(ds.variables["v"][:], 0)
    ds.close()
    return dict(u=u, v=vv, h=h, depth=depth, lon=lon, lat=lat, X=X, Y=Y)


def read_packaged(path):
    import netCDF4
    ds = netCDF4.Dataset(path)
    g = lambda n: np.ma.filled(ds.variables[n][:], 0)
    d = dict(u=g("u"), v=g("v"), h=g("h"), depth=g("depth"), lon=g("lon"), lat=g("lat"), X=g("X"), Y=g("Y"))
    t0 = float(ds.variables["time"][0])
    ds.close()
    return d, t0


def write_gridonly(path, nx, ny, R):
    """a file for `Grid` only, every cell size different (x: 700..790, y: 900..990) so that the cell whose size
    `sample_metric` returns can be identified"""
    import netCDF4
    ds = netCDF4.Dataset(path, "w")
    ds.createDimension("X", nx); ds.createDimension("Y", ny); ds.createDimension("depth", 4)
    dxs = 700.0 + 10.0 * R.permutation(nx - 1); dys = 900.0 + 10.0 * R.permutation(ny - 1)
    X = np.concatenate([[0.0], np.cumsum(dxs)]); Y = np.concatenate([[0.0], np.cumsum(dys)])
    v = ds.createVariable("X", "f8", ("X",)); v[:] = X
    v = ds.createVariable("Y", "f8", ("Y",)); v[:] = Y
    v = ds.createVariable("depth", "f8", ("depth",)); v[:] = [0.0, 3.0, 10.0, 15.0]
    p = ds.createVariable("projection_stere", "i4", ()); p.proj4 = PROJ
    h = 10.0 + 90.0 * R.rand(ny, nx)
    v = ds.createVariable("h", "f8", ("Y", "X")); v[:] = h
    ds.close()
    return dict(h=h, dxs=np.diff(X), dys=np.diff(Y))


def coord_candidate(ctx, n):
    """a coordinate on, next to or beyond the limits of an axis with n nodes, with the class it belongs to"""
    cls = ctx.rng.choice(["low_edge", "high_edge", "high_node", "low_node", "interior", "interior",
                          "below", "just_below", "on_low_limit", "on_high_limit", "just_above", "above", "anywhere", "half"])
    v = {"low_edge": 0.51, "high_edge": n - 0.51, "high_node": n - 1.0, "low_node": 1.0, "below": -0.6, "just_below": 0.49,
         "on_low_limit": 0.5, "on_high_limit": n - 0.5, "just_above": n - 0.49, "above": n + 0.3}.get(cls)
    if cls == "interior": v = ctx.rng.uniform(0.51, n - 0.51)
    if cls == "anywhere": v = ctx.rng.uniform(-1.0, n + 1.0)
    if cls == "half": v = ctx.rng.randrange(1, n - 1) + 0.5          # rounds half to even
    return cls, v


def grid_batches(ctx, G, grid, h, nx, ny, r, nbatch, label, judge):
    """batches of 0..7 candidate positions; `ingrid` is asked for the whole batch, every position it reports as
    inside is handed (as one vector call) to sample_metric / sample_depth and judged by `judge`."""
    for _ in range(nbatch):
        N = ctx.rng.choice([1, 1, 1, 2, 7, 0])
        cx = [coord_candidate(ctx, nx) for _ in range(N)]; cy = [coord_candidate(ctx, ny) for _ in range(N)]
        X = np.array([c[1] for c in cx], dtype=float); Y = np.array([c[1] for c in cy], dtype=float)
        cs = dict(set=r, grid=label, x=X, y=Y, nx=nx, ny=ny)
        ctx.branch("grid.batch_size=%d" % N)
        try:
            inside = np.asarray(grid.ingrid(X, Y))
        except Exception as e:
            ctx.case(key=("grid", label, r, tuple(X), tuple(Y)), nontrivial=True)
            ctx.oracle(False, "C13.ingrid.raises", SITE + "::Grid.ingrid", "raised %r" % (e,), cs); continue
        if inside.shape != X.shape:
            ctx.case(key=("grid", label, r, tuple(X), tuple(Y)), nontrivial=True)
            ctx.oracle(False, "C13.ingrid.shape", SITE + "::Grid.ingrid", "answer of shape %r for %d positions" % (inside.shape, N), cs); continue
        inside = inside.astype(bool)
        for (cl, _), (cl2, _), ins in zip(cx, cy, inside):
            ctx.branch("ingrid.candidate_x=%s.position_reported_%s" % (cl, "inside" if ins else "outside"))
            if ins and cl in ("low_edge", "high_edge") or ins and cl2 in ("low_edge", "high_edge"):
                ctx.branch("ingrid_outermost_cell")
        Xi = X[inside]; Yi = Y[inside]
        if N and not len(Xi):
            continue
        for xx, yy in zip(Xi, Yi):
            ctx.case(key=("grid", label, r, float(xx), float(yy)), nontrivial=True); ctx.branch("ingrid_position")
        if not N:
            ctx.case(key=("grid", label, r, "empty"), nontrivial=True)
        try:
            dx, dy = grid.sample_metric(Xi, Yi)
            dx = np.asarray(dx); dy = np.asarray(dy)
            if dx.shape != Xi.shape or dy.shape != Xi.shape:
                ctx.oracle(False, "C13.metric.shape", SITE + "::Grid.sample_metric", "cell sizes of shape %r, %r for %d positions" % (dx.shape, dy.shape, len(Xi)), cs)
            else:
                for m in range(len(Xi)):
                    c1 = dict(cs, index=m)
                    ok = np.isfinite(dx[m]) and np.isfinite(dy[m]) and dx[m] > 0 and dy[m] > 0
                    ctx.oracle(bool(ok), "C13.metric.not_finite", SITE + "::Grid.sample_metric", "cell size %r, %r at (%r, %r)" % (dx[m], dy[m], Xi[m], Yi[m]), c1)
                    judge("metric", Xi[m], Yi[m], (dx[m], dy[m]), c1)
        except Exception as e:
            ctx.oracle(False, "C13.metric.raises", SITE + "::Grid.sample_metric", "in-grid positions (%r,%r) on a %dx%d grid raised %r" % (Xi.tolist(), Yi.tolist(), nx, ny, e), cs)
        try:
            hh = np.asarray(grid.sample_depth(Xi, Yi))
            if hh.shape != Xi.shape:
                ctx.oracle(False, "C13.depth.shape", SITE + "::Grid.sample_depth", "depths of shape %r for %d positions" % (hh.shape, len(Xi)), cs)
            else:
                for m in range(len(Xi)):
                    c1 = dict(cs, index=m)
                    i = int(round(Xi[m])); j = int(round(Yi[m]))
                    if 0 <= i < nx and 0 <= j < ny:
                        ctx.oracle(bool(hh[m] == h[j, i]), "C13.depth.wrong_cell", SITE + "::Grid.sample_depth", "depth %r at (%r, %r), cell (%d, %d) has %r" % (hh[m], Xi[m], Yi[m], i, j, h[j, i]), c1)
                    else:
                        # reported inside, but the file has no such cell: whatever was returned is not the depth there
                        ctx.oracle(False, "C13.ingrid.inside_without_cell", SITE + "::Grid.ingrid",
                                   "(%r, %r) is reported inside a %dx%d grid; cell (%d, %d) does not exist, depth returned %r" % (Xi[m], Yi[m], nx, ny, i, j, hh[m]), c1)
        except Exception as e:
            ctx.oracle(False, "C13.depth.raises", SITE + "::Grid.sample_depth", "in-grid positions (%r,%r) on a %dx%d grid raised %r" % (Xi.tolist(), Yi.tolist(), nx, ny, e), cs)


def run_set(ctx, G, drv, pend, r, spec):
    from scipy.ndimage import map_coordinates
    data = spec["data"]; paths = spec["paths"]; pattern = spec["pattern"]
    nx, ny, nz = spec["nx"], spec["ny"], spec["nz"]; day0 = spec["day0"]; H = spec["hours"]
    sx, sy = spec["sx"], spec["sy"]
    midnight0 = np.datetime64(str(day0) + "T00:00:00")
    first = data[str(day0)]
    # ---- time step and start: all hours needed by any request (incl. tstep = 1 and the following hour) are in the files
    dts = [d for d in spec["dts"] if ((H - 1) * 3600 - 1) // d - 1 >= 3]
    dt = ctx.rng.choice(dts)
    offs = [o for o in [0, 900, 1800, 3600, 5 * 3600 + 300, 4337, 84600] if ((H - 1) * 3600 - 1 - o) // dt - 1 >= 3]
    base = ctx.rng.choice(offs)
    start = midnight0 + np.timedelta64(base, "s")
    ctx.branch("dt=%d" % dt); ctx.branch("start_offset=%d" % base); ctx.branch("storage." + spec["storage"]); ctx.branch("pattern." + spec["pattern_kind"])
    ctx.branch("spacing=%gx%g" % (sx, sy)); ctx.branch("xy_offset=%s" % (spec["x0"] != 0))
    conf = dict(start_time=start, dt=dt, gridforce=dict(input_file=pattern))

    # ---- spies (per database object): datasets handed out, hourly fields requested, times and weights of get_var
    o_dset = G.OnlineDatabase.get_dset; o_var = G.OnlineDatabase._get_var; o_get = G.OnlineDatabase.get_var

    def spy_dset(self, time, _o=o_dset):
        tt = time.astype(datetime.datetime)
        try:
            hit = self.pattern.format(year=tt.year, month=tt.month, day=tt.day) in self._dset_buf
        except Exception:
            hit = None
        ds = _o(self, time)
        self.__dict__.setdefault("_verif_dsets", []).append((str(time.astype("datetime64[D]")), hit, ds.filepath()))
        return ds

    def spy_var(self, *args, _o=o_var):
        name, time = args[-2:]          # (tolerates further leading arguments)
        key = (name, str(time.astype("datetime64[h]")))
        hit = key in self._vars_buf
        self.__dict__.setdefault("_verif_vars", []).append((name, int(time.astype("datetime64[h]").astype("int64")), not hit))
        return _o(self, *args)

    def spy_get(self, name, time, _o=o_get):
        res = _o(self, name, time)
        self.__dict__.setdefault("_verif_gets", []).append((name, time, res[1]))
        return res

    def field(name, tsec):
        """hourly field containing time tsec (seconds since day0 00:00)"""
        hh = int(tsec // 3600)
        day = day0 + np.timedelta64(hh // 24, "D")
        return data[str(day)][name][hh % 24]

    G.OnlineDatabase.get_dset = spy_dset; G.OnlineDatabase._get_var = spy_var; G.OnlineDatabase.get_var = spy_get
    try:
        grid = G.Grid(conf); forc = G.Forcing(conf, grid)
        # ---- request histories
        max_t = ((H - 1) * 3600 - 1 - base) // dt - 1
        # one history of a randomly chosen ordinary kind, then (same database, the history goes on) with several daily
        # files the two kinds that need them: around midnight, and the same clock hour on another day
        kind = ctx.rng.choice(["forward", "repeated", "back_forth", "hour_edge"])
        edge_hours = [k for k in range(1, H - 1) if k * 3600 > base and (k * 3600 - base) // dt <= max_t]
        edge = ctx.rng.choice(edge_hours) if edge_hours else None
        if kind == "hour_edge" and edge is None:
            kind = "forward"
        segments = [(kind, ctx.n(25, 80))]
        if H > 24:
            more = [("midnight", ctx.n(12, 40)), ("daily", ctx.n(12, 40))]
            ctx.rng.shuffle(more)
            segments += more
        ts = []
        t = ctx.rng.randrange(0, max(1, max_t // 3))
        for kind, nreq in segments:
          for _ in range(nreq):
            ts.append((t, kind))
            if kind == "forward": t = min(max_t, t + ctx.rng.choice([1, 1, 2, 7]))
            elif kind == "repeated": t = t if ctx.rng.random() < 0.5 else min(max_t, t + 1)
            elif kind == "back_forth": t = min(max_t, max(0, t + ctx.rng.choice([-9, -1, 1, 1, 5])))
            elif kind == "hour_edge": t = min(max_t, max(0, (edge * 3600 - base) // dt + ctx.rng.randrange(-3, 4)))
            elif kind == "midnight": t = min(max_t, max(0, (24 * 3600 - base) // dt + ctx.rng.randrange(-3, 4)))
            else:       # the same clock hour on another day (a one-day model step, daily sampling, a jump back)
                day_steps = 24 * 3600 // dt
                cand = [t2 for t2 in (t + day_steps, t - day_steps, t + day_steps + 1, t - day_steps - 1, t + 1) if 0 <= t2 <= max_t]
                t = ctx.rng.choice(cand) if cand else t
        kinds_run = "+".join(k for k, _ in segments)
        zs = [0.0, 3.0, 7.0, 60.0, 500.0, -2.0, float(first["depth"][-1])] + [float(0.5 * (first["depth"][m] + first["depth"][m + 1])) for m in range(nz - 1)]

        def pos(n):
            c = ctx.rng.choice(["mid", "mid", "mid", "any", "low_edge", "low_node", "high_node", "high_edge", "node"])
            ctx.branch("velocity.pos_" + c)
            if c == "mid": return ctx.rng.uniform(0.6, n - 1.6)
            if c == "any": return ctx.rng.uniform(0.51, n - 0.51)
            if c == "node": return float(ctx.rng.randrange(1, n - 1))
            return {"low_edge": 0.51, "low_node": 1.0, "high_node": n - 1.0, "high_edge": n - 0.51}[c]

        knots = [float(d) for d in first["depth"]]

        def classify(got, a1, a2, qx, q, subsecond, others):
            """(ok, predicate) for a served array against the two bracketing hourly fields sampled at the requested
            position.  The known finding F-C13a explains exactly one wrong answer: the two *right* hourly fields
            (sampled at the *requested* position) blended with mirrored weights.  Anything else (a field of another
            hour, day or file; the fields sampled at the position of another request) is a different defect and is
            reported under its own predicate."""
            want = a1 * (1 - qx) + a2 * qx
            ok = got.shape == want.shape and np.allclose(got, want, rtol=1e-9, atol=1e-12)
            mirrored = a1 * qx + a2 * (1 - qx)
            if ok or (got.shape == want.shape and np.allclose(got, mirrored, rtol=1e-9, atol=1e-12)):
                pred = "C13.interp.whole_hour" if qx == 0 else "C13.interp.time_weights"
            elif subsecond and got.shape == want.shape and (np.allclose(got, a1 * (1 - q) + a2 * q, rtol=1e-9, atol=1e-12)
                                                             or np.allclose(got, a1 * q + a2 * (1 - q), rtol=1e-9, atol=1e-12)):
                # the right fields, blended for the time with the half second of the sub-step dropped
                pred = "C13.time.substep_truncated"
            else:
                pred = "C13.interp.wrong_fields"
                # diagnosis only (the oracle has failed already): is it the answer for the position (some of x, y, z)
                # of an earlier request of the same time step?
                for (b1, b2) in others:
                    if got.shape == b1.shape and (np.allclose(got, b1 * (1 - qx) + b2 * qx, rtol=1e-9, atol=1e-12)
                                                  or np.allclose(got, b1 * qx + b2 * (1 - qx), rtol=1e-9, atol=1e-12)):
                        pred = "C13.velocity.position_of_earlier_request"
            return ok, pred, want

        def request(fo, t, kind, x, y, z, tstep, seq=0, within="first", earlier=()):
            """one judged call of velocity(); `earlier` = the requests already made since the last update()"""
            npts = len(x)
            cs = dict(set=r, start=str(start), dt=dt, t=int(t), tstep=tstep, history=kind, x=x, y=y, z=z, storage=spec["storage"], pattern=spec["pattern_kind"])
            if seq or within != "first":
                cs.update(request_of_step=seq, same_step=within,
                          earlier_requests_since_update=[dict(x=e[0], y=e[1], z=e[2], tstep=e[3]) for e in earlier])
            ctx.case(key=(r, int(t), tstep, float(x[0]) if npts else None) + ((seq, within, float(z[0]) if npts else None) if seq else ()),
                     nontrivial=True, sample=cs if len(pend) < 2 else None)
            ctx.branch("history." + kind); ctx.branch("tstep=%s" % tstep); ctx.branch("velocity.npts=%d" % npts)
            if seq:
                ctx.branch("same_step." + within)
                e = earlier[-1]
                if len(e[2]) == npts and npts and not np.array_equal(e[2], z):
                    ctx.branch("same_step.same_count_other_depths")
                if len(e[2]) == npts and npts and not (np.array_equal(e[0], x) and np.array_equal(e[1], y)):
                    ctx.branch("same_step.same_count_other_positions")
                if len(e[2]) != npts:
                    ctx.branch("same_step.other_count")
            n_gets = len(fo.dbase.__dict__.get("_verif_gets", [])); n_vars = len(fo.dbase.__dict__.get("_verif_vars", []))
            try:
                u, v = fo.velocity(x, y, z, tstep)
            except Exception as e:
                ctx.oracle(False, "C13.velocity.raises", SITE + "::Forcing.velocity", "raised %r" % (e,), cs); return
            # the time of the request is start + dt*(t + tstep); numpy's timedelta arithmetic keeps whole seconds only
            # (np.timedelta64(7, 's') * 0.5 is 3 s), which matters for an odd dt at the half step
            tsec = base + dt * t + int(dt * tstep)
            texact = base + dt * t + dt * tstep
            q = (tsec % 3600) / 3600.0
            qx = (texact % 3600) / 3600.0
            subsecond = texact != tsec
            if subsecond: ctx.branch("time.half_step_of_odd_dt")
            if q == 0: ctx.branch("time.whole_hour")
            k = np.interp(z, first["depth"], np.arange(nz))
            # positions on nodes and depths of the table: the hourly field *at the requested position* is a stored
            # number, read from the file's array without any interpolation code
            plain = npts > 0 and bool(np.all(x == np.round(x)) and np.all(y == np.round(y)) and all(float(zz) in knots for zz in z))
            if plain:
                ctx.branch("velocity.all_on_nodes_and_tabulated_depths")
                ii = np.round(x).astype(int); jj = np.round(y).astype(int); kk = np.array([knots.index(float(zz)) for zz in z], dtype=int)
            for name, got in (("u", u), ("v", v)):
                got = np.asarray(got)
                # packed files are served as float32 and map_coordinates answers in the type of its input; the blend is
                # done in double precision (the weight is a float64), float32 -> float64 is exact
                a1 = map_coordinates(field(name, tsec), (k, y, x), order=1, prefilter=False).astype(np.float64)
                a2 = map_coordinates(field(name, tsec + 3600), (k, y, x), order=1, prefilter=False).astype(np.float64)
                # (for the diagnosis of a failure) the same fields at the positions of the earlier requests of this
                # step: any of x, y, z taken from the earlier request
                others = []
                for e in earlier:
                    if len(e[2]) != npts or not npts: continue
                    ke = np.interp(e[2], first["depth"], np.arange(nz))
                    for (kq, yq, xq) in ((ke, y, x), (k, e[1], e[0]), (ke, e[1], e[0]), (ke, e[1], x), (ke, y, e[0]), (k, e[1], x), (k, y, e[0])):
                        others.append((map_coordinates(field(name, tsec), (kq, yq, xq), order=1, prefilter=False).astype(np.float64),
                                       map_coordinates(field(name, tsec + 3600), (kq, yq, xq), order=1, prefilter=False).astype(np.float64)))
                ok, pred, want = classify(got, a1, a2, qx, q, subsecond, others)
                ctx.oracle(ok, pred, SITE + "::interp",
                           "%s at %g s into the hour (q=%.6f): served %r, time interpolation of the bracketing hourly fields %r" % (name, texact % 3600, qx, got.tolist(), want.tolist()), cs)
                if plain:
                    # the same statement without scipy: stored numbers of the two hourly records, blended in time.
                    # Exact reads (float32 -> float64 is exact); tolerance as above for the two-term blend.
                    p1 = np.asarray(field(name, tsec)[kk, jj, ii], dtype=np.float64); p2 = np.asarray(field(name, tsec + 3600)[kk, jj, ii], dtype=np.float64)
                    ok2, pred2, want2 = classify(got, p1, p2, qx, q, subsecond, [])
                    ctx.oracle(ok2, pred2, SITE + "::interp",
                               "%s at %g s into the hour (q=%.6f) on nodes i=%r j=%r levels %r: served %r, time interpolation of the stored values %r"
                               % (name, texact % 3600, qx, ii.tolist(), jj.tolist(), kk.tolist(), got.tolist(), want2.tolist()), cs)
                # history independence: a fresh database gives the same answer
                fresh = G.Forcing(conf, grid); fresh.update(t)
                u2, v2 = fresh.velocity(x, y, z, tstep)
                ctx.oracle(np.array_equal(got, u2 if name == "u" else v2), "C13.cache.not_transparent", SITE + "::Buffer",
                           "result depends on the request history", cs)
                if drv.available:
                    for i in range(npts):
                        # weight of the exact sub-step time (tt_us / hour fraction: checked against the model below)
                        pend.append(("interp", (drv.ask("nk.interp", "0", F(a1[i]), F(a2[i]), F(qx)), drv.ask("nk.interp", "1", F(a1[i]), F(a2[i]), F(qx))), got[i], cs))
            # exact time of the sub-step in microseconds (tstep in {0, 0.5, 1} = num/2)
            num2 = int(round(tstep * 2))
            start_s = int(start.astype("datetime64[s]").astype("int64"))
            tt_us = (start_s + dt * t) * 1000000 + dt * num2 * 500000
            tt = tt_us // 1000000
            if drv.available:
                pend.append(("hour", drv.ask("nk.hour", I(tt)), (tt // 3600, tt % 3600), cs))
                pend.append(("subtime", drv.ask("nk.subtime", I(start_s), I(dt), I(t), I(num2), I(2)), tt_us, cs))
            # the same against what the implementation itself computed: time and weight in get_var, hour in _get_var
            gets = fo.dbase.__dict__.get("_verif_gets", [])[n_gets:]; vars_ = fo.dbase.__dict__.get("_verif_vars", [])[n_vars:]
            for (gname, gtime, gw) in gets:
                ti = int(gtime.astype("datetime64[us]").astype("int64"))
                ctx.eq("nk.time_of_step(get_var)", ti, tt_us, cs)
                hours = [hh for (vn, hh, _) in vars_ if vn == gname]
                if drv.available and len(hours) == 2:
                    pend.append(("hour_impl", drv.ask("nk.hour_us", I(ti)), (hours[0], hours[1], float(gw)), cs))

        def draw(npts, what="any"):
            """positions and depths of one request"""
            if what == "nodes":
                # on nodes the grid reports as inside (0.5 < x < n - 0.5) and at tabulated depths
                return (np.array([float(ctx.rng.randrange(1, nx)) for _ in range(npts)], dtype=float),
                        np.array([float(ctx.rng.randrange(1, ny)) for _ in range(npts)], dtype=float),
                        np.array([ctx.rng.choice(knots) for _ in range(npts)], dtype=float))
            return (np.array([pos(nx) for _ in range(npts)], dtype=float), np.array([pos(ny) for _ in range(npts)], dtype=float),
                    np.array([ctx.rng.choice(zs) for _ in range(npts)], dtype=float))

        twin = None         # a second Forcing object on the same files (its own database), asked in between
        SAME_STEP = ["single", "single", "single", "depths", "depths", "profile", "positions", "substeps", "moving", "repeat",
                     "counts", "permuted", "nodes", "mixed", "twin"]
        for t, kind in ts:
            forc.update(t)
            tstep = ctx.rng.choice([0, 0.5, 1])
            npts = ctx.rng.choice([3, 3, 3, 1, 6, 0])
            x = np.array([pos(nx) for _ in range(npts)], dtype=float); y = np.array([pos(ny) for _ in range(npts)], dtype=float)
            z = np.array([ctx.rng.choice(zs) for _ in range(npts)], dtype=float)
            request(forc, t, kind, x, y, z, tstep)
            # ---- further requests for the SAME time step (no update() in between): a caller probing several depths or
            #      positions at one time, the integrators' sub-steps (0, 1/2, 1/2, 1) with fixed or moving particles,
            #      the same particles in another order, another number of particles, a second Forcing object in between.
            #      Every one of them is a request for a time, a position and a depth like any other.
            mode = ctx.rng.choice(SAME_STEP)
            ctx.branch("requests_per_update." + ("one" if mode == "single" else "several"))
            if mode == "single":
                continue
            earlier = [(x, y, z, tstep)]
            if mode in ("substeps", "moving"):
                nexts = [0.5, 0.5, 1] if ctx.rng.random() < 0.5 else [ctx.rng.choice([0, 0.5, 1]) for _ in range(ctx.rng.randrange(1, 4))]
            else:
                nexts = [tstep if ctx.rng.random() < 0.6 else ctx.rng.choice([0, 0.5, 1]) for _ in range(ctx.rng.randrange(1, 4))]
            lev = ctx.rng.randrange(nz)
            for seq, ts2 in enumerate(nexts, 1):
                x0, y0_, z0, _ = earlier[-1]
                n0 = len(x0)
                if mode == "depths":            # same particles, other depths
                    x2, y2 = x0, y0_; z2 = np.array([ctx.rng.choice(zs) for _ in range(n0)], dtype=float)
                elif mode == "profile":         # a depth profile at fixed horizontal positions, level by level
                    lev = (lev + 1) % nz
                    x2, y2 = x0, y0_; z2 = np.full(n0, knots[lev], dtype=float)
                elif mode == "positions":       # same depths, other horizontal positions
                    x2, y2, _z = draw(n0); z2 = z0
                elif mode == "substeps":        # what the ladim integrators do: same particles at other sub-steps
                    x2, y2, z2 = x0, y0_, z0
                elif mode == "moving":          # an integrator that moves the particles (also vertically) between sub-steps
                    x2 = np.clip(x0 + np.array([ctx.rng.uniform(-0.3, 0.3) for _ in range(n0)]), 0.51, nx - 0.51) if n0 else x0
                    y2 = np.clip(y0_ + np.array([ctx.rng.uniform(-0.3, 0.3) for _ in range(n0)]), 0.51, ny - 0.51) if n0 else y0_
                    z2 = z0 + np.array([ctx.rng.uniform(-8.0, 8.0) for _ in range(n0)]) if n0 else z0
                elif mode == "repeat":          # literally the same request again
                    x2, y2, z2, ts2 = x0, y0_, z0, earlier[-1][3]
                elif mode == "counts":          # another number of particles
                    x2, y2, z2 = draw(ctx.rng.choice([c for c in (0, 1, 2, 3, 6) if c != n0]))
                elif mode == "permuted":        # the same particles in another order
                    perm = list(range(n0)); ctx.rng.shuffle(perm); perm = np.array(perm, dtype=int)
                    x2, y2, z2 = x0[perm], y0_[perm], z0[perm]
                elif mode == "nodes":           # on nodes and at tabulated depths: the answer is a blend of stored numbers
                    x2, y2, z2 = draw(n0 if n0 else 3, "nodes")
                elif mode == "twin":            # another Forcing object is asked for another time, position and depth in between
                    if twin is None: twin = G.Forcing(conf, grid)
                    t_other = ctx.rng.randrange(0, max_t + 1)
                    twin.update(t_other)
                    xt, yt, zt = draw(n0)
                    request(twin, t_other, kind, xt, yt, zt, ctx.rng.choice([0, 0.5, 1]), seq=0, within="twin_object")
                    x2, y2, z2 = draw(n0)
                else:                           # everything new, same number of particles
                    x2, y2, z2 = draw(n0)
                x2 = np.array(x2, dtype=float); y2 = np.array(y2, dtype=float); z2 = np.array(z2, dtype=float)
                request(forc, t, kind, x2, y2, z2, ts2, seq=seq, within=mode, earlier=tuple(earlier))
                earlier.append((x2, y2, z2, ts2))
            ctx.branch("same_step.requests=%d" % len(earlier))
        # ---- the cache: hourly fields and datasets of this Forcing's database
        reads = forc.dbase.__dict__.get("_verif_vars", [])
        dsets = forc.dbase.__dict__.get("_verif_dsets", []) + grid.dbase.__dict__.get("_verif_dsets", [])
        if twin is not None:
            dsets = dsets + twin.dbase.__dict__.get("_verif_dsets", [])
        for dstr, hit, fp in dsets:
            # fields come from the file of the requested day
            ctx.oracle(dstr in paths and os.path.abspath(fp) == os.path.abspath(paths[dstr]), "C13.dset.wrong_file", SITE + "::OnlineDatabase.get_dset",
                       "dataset handed out for day %s is %r, the file of that day is %r" % (dstr, fp, paths.get(dstr)), dict(set=r, history=kinds_run, day=dstr))
        if drv.available and reads:
            pend.append(("serve", drv.ask("nk.serve", I(len(reads)), " ".join("%s %d" % (n, h) for n, h, _ in reads)), [m for _, _, m in reads], dict(set=r, history=kinds_run)))
        fd = forc.dbase.__dict__.get("_verif_dsets", [])
        if drv.available and fd and spec["pattern_kind"] == "dated":
            # the dataset buffer is the same two-frame cache, keyed by file with the day as frame (one file per day)
            dn = [int(np.datetime64(d).astype("datetime64[D]").astype("int64")) for d, _, _ in fd]
            pend.append(("serve_dset", drv.ask("nk.serve", I(len(fd)), " ".join("dset %d" % d for d in dn)), [not hit for _, hit, _ in fd], dict(set=r, history=kinds_run, buffer="datasets")))
    finally:
        G.OnlineDatabase.get_dset = o_dset; G.OnlineDatabase._get_var = o_var; G.OnlineDatabase.get_var = o_get

    # ---- grid: metrics and depth at every position reported inside, incl. outermost cells, limits, vector calls
    def judge(what, xx, yy, val, c1):
        if what == "metric":
            # the grid is regular: the cell sizes are the spacings of the file's X and Y arrays (exact: multiples of 100 m)
            ctx.oracle(bool(val[0] == sx and val[1] == sy), "C13.metric.wrong_size", SITE + "::Grid.sample_metric",
                       "cell size %r x %r at (%r, %r); the file's cells are %r x %r" % (val[0], val[1], xx, yy, sx, sy), c1)
            if drv.available:
                pend.append(("midx", drv.ask("nk.midx", I(nx - 2), I(int(np.round(xx)))), min(max(int(np.round(xx)), 0), nx - 2), c1))
    grid_batches(ctx, G, grid, first["h"], nx, ny, r, ctx.n(40, 300), "regular", judge)

    # ---- ll2xy against the file's own coordinate arrays: scalars and arrays
    for _ in range(10):
        j = ctx.rng.randrange(ny); i = ctx.rng.randrange(nx)
        ctx.case(key=("ll2xy", r, j, i), nontrivial=True); ctx.branch("ll2xy")
        try:
            xg, yg = grid.ll2xy(first["lon"][j, i], first["lat"][j, i])
        except Exception as e:
            ctx.oracle(False, "C13.ll2xy.raises", SITE + "::Grid.ll2xy", "lon/lat of node (%d,%d) raised %r" % (i, j, e), dict(set=r, i=i, j=j)); continue
        ctx.oracle(abs(float(xg) - i) < 1e-3 and abs(float(yg) - j) < 1e-3, "C13.ll2xy.mismatch", SITE + "::Grid.ll2xy",
                   "lon/lat of node (%d,%d) maps to (%r,%r)" % (i, j, float(xg), float(yg)), dict(set=r, i=i, j=j))
    for shape in ((5,), (2, 3), (0,)):
        n = int(np.prod(shape))
        jj = np.array([ctx.rng.randrange(ny) for _ in range(n)], dtype=int).reshape(shape); ii = np.array([ctx.rng.randrange(nx) for _ in range(n)], dtype=int).reshape(shape)
        ctx.case(key=("ll2xy_array", r, shape, tuple(jj.ravel()), tuple(ii.ravel())), nontrivial=True); ctx.branch("ll2xy.array%r" % (shape,))
        cs = dict(set=r, i=ii, j=jj)
        try:
            xg, yg = grid.ll2xy(first["lon"][jj, ii], first["lat"][jj, ii])
            xg = np.asarray(xg); yg = np.asarray(yg)
            # same tolerance as for scalars: 1e-3 of a cell (< 1 m), pyproj's round trip is good to ~1e-9
            ok = xg.shape == shape and yg.shape == shape and bool(np.all(np.abs(xg - ii) < 1e-3)) and bool(np.all(np.abs(yg - jj) < 1e-3))
            ctx.oracle(ok, "C13.ll2xy.mismatch", SITE + "::Grid.ll2xy", "lon/lat of nodes i=%r j=%r map to x=%r y=%r" % (ii.tolist(), jj.tolist(), xg.tolist(), yg.tolist()), cs)
        except Exception as e:
            ctx.oracle(False, "C13.ll2xy.raises", SITE + "::Grid.ll2xy", "arrays of shape %r raised %r" % (shape, e), cs)

    # ---- z2k: the grid's and the forcing's (the one velocity uses)
    for who, obj in (("Grid", grid), ("Forcing", forc)):
        zz = np.sort(np.array([ctx.rng.uniform(-5, 120) for _ in range(20)] + first["depth"].tolist()))
        kk = obj.z2k(zz)
        ctx.case(key=("z2k", who, r), nontrivial=True)
        ctx.oracle(bool(np.all(np.diff(kk) >= 0)), "C13.z2k.not_monotone", SITE + "::%s.z2k" % who, "level index not monotone in depth", dict(set=r, who=who))
        ctx.oracle(np.array_equal(obj.z2k(first["depth"]), np.arange(nz)), "C13.z2k.not_exact_at_knots", SITE + "::%s.z2k" % who, "not exact at the tabulated depths", dict(set=r, who=who))
        # several conversions in a row for arrays of one size with different contents (a depth profile asked level by
        # level, particles that have moved): monotone also *between* the calls, exact at the tabulated depths in any order
        seen_z = np.zeros(0); seen_k = np.zeros(0)
        for rep in range(4):
            ctx.case(key=("z2k_repeated", who, r, rep), nontrivial=True); ctx.branch("z2k.same_size_other_values")
            zq = np.array([ctx.rng.uniform(-5.0, 1.2 * float(first["depth"][-1])) for _ in range(nz)])
            perm = list(range(nz)); ctx.rng.shuffle(perm); perm = np.array(perm, dtype=int)
            cz = dict(set=r, who=who, call=rep, z=zq, earlier_z=seen_z)
            kq = np.asarray(obj.z2k(zq), dtype=float)
            kp = np.asarray(obj.z2k(first["depth"][perm]))
            ctx.oracle(kp.shape == perm.shape and np.array_equal(kp, perm), "C13.z2k.not_exact_at_knots", SITE + "::%s.z2k" % who,
                       "tabulated depths %r (levels %r) converted to %r" % (first["depth"][perm].tolist(), perm.tolist(), kp.tolist()), dict(cz, z=first["depth"][perm]))
            if kq.shape != zq.shape:
                ctx.oracle(False, "C13.z2k.shape", SITE + "::%s.z2k" % who, "levels of shape %r for %d depths" % (kq.shape, nz), cz); continue
            seen_z = np.concatenate([seen_z, zq]); seen_k = np.concatenate([seen_k, kq])
            if kp.shape == perm.shape:          # the tabulated depths take part in the comparison
                seen_z = np.concatenate([seen_z, first["depth"][perm]]); seen_k = np.concatenate([seen_k, np.asarray(kp, dtype=float)])
            order = np.argsort(seen_z, kind="stable")
            ctx.oracle(bool(np.all(np.diff(seen_k[order]) >= 0)), "C13.z2k.not_monotone", SITE + "::%s.z2k" % who,
                       "level index not monotone in depth over %d calls: depths %r -> levels %r" % (rep + 1, seen_z[order].tolist(), seen_k[order].tolist()), cz)


def run_irregular(ctx, G, drv, pend, r, tmp):
    """a grid whose cells all have different sizes: which cell's size does sample_metric return?"""
    R = np.random.RandomState(ctx.sub_seed())
    nx = ctx.rng.randrange(5, 10); ny = ctx.rng.randrange(5, 10)
    path = os.path.join(tmp, "gridonly%d.nc" % r)
    g = write_gridonly(path, nx, ny, R)
    grid = G.Grid(dict(start_time=np.datetime64("2020-03-01T00:00:00"), dt=60, gridforce=dict(input_file=path)))

    def judge(what, xx, yy, val, c1):
        if what == "metric":
            ix = np.nonzero(g["dxs"] == val[0])[0]; iy = np.nonzero(g["dys"] == val[1])[0]
            ok = len(ix) == 1 and len(iy) == 1
            ctx.oracle(ok, "C13.metric.not_a_cell_size", SITE + "::Grid.sample_metric",
                       "cell size %r x %r at (%r, %r) is not the size of any cell of the file (x sizes %r, y sizes %r)" % (val[0], val[1], xx, yy, g["dxs"].tolist(), g["dys"].tolist()), c1)
            if ok and drv.available:
                pend.append(("midx_impl", drv.ask("nk.midx", I(nx - 2), I(int(np.round(xx)))), int(ix[0]), dict(c1, axis="x")))
                pend.append(("midx_impl", drv.ask("nk.midx", I(ny - 2), I(int(np.round(yy)))), int(iy[0]), dict(c1, axis="y")))
    grid_batches(ctx, G, grid, g["h"], nx, ny, r, ctx.n(25, 150), "irregular", judge)


def run(ctx):
    G = importlib.import_module("ladim_plugins.nk800met.gridforce")
    drv = Driver()
    if getattr(ctx, "widened", False):
        drv.available = False
    pend = []
    tmp = tempfile.mkdtemp(prefix="verif_c13_")
    packaged = os.path.join(os.path.dirname(os.path.abspath(G.__file__)), "forcing.nc")
    try:
        nsets = ctx.n(3, 15)
        for r in range(nsets + 1):
            if r == nsets:
                # ---- the packaged sample file (int16 packed, masked cells, X/Y starting at 160000, 3 hourly records),
                #      used the way ladim.yaml uses it: a constant file name
                if not os.path.exists(packaged):
                    ctx.note("packaged forcing.nc not found"); continue
                d, t0 = read_packaged(packaged)
                day0 = (np.datetime64("1970-01-01T00:00:00") + np.timedelta64(int(t0), "s")).astype("datetime64[D]")
                spec = dict(data={str(day0): d}, paths={str(day0): packaged}, pattern=packaged, pattern_kind="constant", storage="packaged_file",
                            nx=d["h"].shape[1], ny=d["h"].shape[0], nz=len(d["depth"]), day0=day0, hours=d["u"].shape[0],
                            sx=float(d["X"][1] - d["X"][0]), sy=float(d["Y"][1] - d["Y"][0]), x0=float(d["X"][0]), dts=[1, 7, 45, 60, 300, 600, 900])
                run_set(ctx, G, drv, pend, r, spec)
                continue
            R = np.random.RandomState(ctx.sub_seed())
            nx = ctx.rng.randrange(6, 10); ny = ctx.rng.randrange(6, 10); nz = ctx.rng.randrange(4, 7)
            ndays = ctx.rng.choice([2, 3, 2, 3, 1]) if r else ctx.rng.choice([2, 3])     # at least one set with several daily files
            day0 = np.datetime64("2020-02-27") + np.timedelta64(ctx.rng.randrange(0, 3), "D")
            sx, sy = ctx.rng.choice([(800.0, 800.0), (800.0, 1000.0), (500.0, 800.0)])
            x0, y0 = ctx.rng.choice([(0.0, 0.0), (160000.0, 240000.0)])
            packed = ctx.rng.random() < 0.5
            constant = ndays == 1 and ctx.rng.random() < 0.5
            data = {}; paths = {}
            sub = os.path.join(tmp, "set%d" % r); os.makedirs(sub)
            for d in range(ndays):
                day = day0 + np.timedelta64(d, "D")
                dd = day.astype(datetime.datetime)
                p = os.path.join(sub, "nk.nc" if constant else "nk_%04d%02d%02d.nc" % (dd.year, dd.month, dd.day))
                data[str(day)] = write_day(p, day, nx, ny, nz, R, x0=x0, y0=y0, sx=sx, sy=sy, packed=packed)
                paths[str(day)] = p
            pattern = os.path.join(sub, "nk.nc") if constant else os.path.join(sub, "nk_{year:04}{month:02}{day:02}.nc")
            spec = dict(data=data, paths=paths, pattern=pattern, pattern_kind="constant" if constant else "dated", storage="int16_packed_masked" if packed else "float64",
                        nx=nx, ny=ny, nz=nz, day0=day0, hours=24 * ndays, sx=sx, sy=sy, x0=x0, dts=[60, 300, 600, 900, 1, 7, 45, 3600, 5400])
            run_set(ctx, G, drv, pend, r, spec)
            run_irregular(ctx, G, drv, pend, r, tmp)
    finally:
        shutil.rmtree(tmp, ignore_errors=True)
    if drv.available:
        rep = drv.run()
        votes = {0: 0, 1: 0}
        res = []
        for kind, j, impl, cs in pend:
            if kind == "interp":
                m0 = unF(rep[j[0]][1][0]); m1 = unF(rep[j[1]][1][0])
                e0 = same_bits(impl, m0); e1 = same_bits(impl, m1)
                if e0 and not e1: votes[0] += 1
                if e1 and not e0: votes[1] += 1
                res.append((impl, m0, m1, cs))
            elif kind == "hour":
                t = rep[j][1]
                ctx.eq("nk.hour", impl, (int(t[0]), int(t[1])), cs)
            elif kind == "hour_impl":
                t = rep[j][1]
                # hour of the lower field, the upper field is the next hour, weight = seconds into the hour / 3600 (exact in floats)
                ctx.eq("nk.hour(get_var)", impl, (int(t[0]), int(t[0]) + 1, int(t[1]) / 3600000000.0), cs)
            elif kind == "subtime":
                ctx.eq("nk.subtime", impl, int(rep[j][1][0]), cs)
            elif kind == "midx":
                ctx.eq("nk.metric_index", impl, int(rep[j][1][0]), cs)
            elif kind == "midx_impl":
                ctx.eq("nk.metric_index(sample_metric)", impl, int(rep[j][1][0]), cs)
            elif kind in ("serve", "serve_dset"):
                t = rep[j][1][1:]
                ctx.eq("nk.buffer_transparent", True, all("!" not in x for x in t), cs)
                ctx.eq("nk.buffer_misses" if kind == "serve" else "nk.dataset_buffer_misses", impl, [x.startswith("1") for x in t], cs)
        variant = 1 if votes[1] > 0 and votes[0] == 0 else 0
        ctx.note("time weights of interp matched by the code: %s (votes %r)" % (["backward (v1*q + v2*(1-q))", "forward"][variant], votes))
        for impl, m0, m1, cs in res:
            ctx.eq_bits("nk.interp", impl, m1 if variant else m0, cs)


def replay(payload):
    print("predicate:", payload.get("predicate"), "|", payload.get("detail"))
    return False
