"""C13 — NorKyst-800 forcing: right time weights, transparent cache, valid grid metrics.

Correspondence: the real `Buffer` / `OnlineDatabase` miss pattern against the Lean two-frame cache model for
request histories (forward, repeated, back and forth, across hours and midnight); `interp` weights, hour
fraction, metric index.  Oracle: served currents = time interpolation of the bracketing hourly fields
(computed from the file contents with scipy), equal to the stored field at whole hours, independent of the
request history; finite cell sizes and a depth at every in-grid position incl. the outermost cells;
`ll2xy` against the file's coordinate arrays; `z2k` monotone and exact at the tabulated depths."""
import importlib, os, tempfile, shutil, datetime
import numpy as np
from .common import Driver, F, I, L, unF, close, same_bits

RULE = ("synthetic NorKyst-style daily files (2..3 days x 24 h, 6..9 x 6..9 x 4..6, float64 u/v), times at whole hours / any "
        "second / the integrators' sub-steps tstep in {0, 0.5, 1}, request histories forward / repeated / back-and-forth / across "
        "midnight / jumps of a whole day forth and back (same clock hour on another day) / "
        "positions in the grid including the outermost cells. Non-trivial: every request.")
ASSUMPTIONS = ["pyproj's polar-stereographic transform is trusted (ll2xy is compared with the file's lon/lat arrays)",
               "scipy map_coordinates(order=1) is used by both the implementation and the oracle"]
SITE = "ladim_plugins/nk800met/gridforce.py"
PROJ = "+proj=stere +ellps=WGS84 +lat_0=90.0 +lat_ts=60.0 +x_0=3192800 +y_0=1784000 +lon_0=70"


def write_day(path, day, nx, ny, nz, R, x0=0.0, y0=0.0):
    import netCDF4
    from pyproj import CRS, Transformer
    ds = netCDF4.Dataset(path, "w")
    ds.createDimension("time", 24); ds.createDimension("X", nx); ds.createDimension("Y", ny); ds.createDimension("depth", nz)
    X = x0 + 800.0 * np.arange(nx); Y = y0 + 800.0 * np.arange(ny)
    v = ds.createVariable("X", "f8", ("X",)); v[:] = X
    v = ds.createVariable("Y", "f8", ("Y",)); v[:] = Y
    depth = np.array([0.0, 3.0, 10.0, 15.0, 25.0, 50.0, 75.0, 100.0][:nz])
    v = ds.createVariable("depth", "f8", ("depth",)); v[:] = depth
    p = ds.createVariable("projection_stere", "i4", ()); p.proj4 = PROJ; p.grid_mapping_name = "polar_stereographic"
    h = 10.0 + 90.0 * R.rand(ny, nx)
    v = ds.createVariable("h", "f8", ("Y", "X")); v[:] = h
    tr = Transformer.from_crs(CRS.from_proj4(PROJ), CRS.from_epsg(4326), always_xy=True)
    XX, YY = np.meshgrid(X, Y)
    lon, lat = tr.transform(XX, YY)
    v = ds.createVariable("lon", "f8", ("Y", "X")); v[:] = lon
    v = ds.createVariable("lat", "f8", ("Y", "X")); v[:] = lat
    epoch = np.datetime64("1970-01-01T00:00:00")
    t = ds.createVariable("time", "f8", ("time",)); t.units = "seconds since 1970-01-01"
    t[:] = (np.datetime64(day) - epoch).astype("timedelta64[s]").astype(float) + 3600.0 * np.arange(24)
    u = R.uniform(-1, 1, (24, nz, ny, nx)); vv = R.uniform(-1, 1, (24, nz, ny, nx))
    a = ds.createVariable("u", "f8", ("time", "depth", "Y", "X")); a[:] = u
    a = ds.createVariable("v", "f8", ("time", "depth", "Y", "X")); a[:] = vv
    ds.close()
    return dict(u=u, v=vv, h=h, depth=depth, lon=lon, lat=lat, X=X, Y=Y)


def run(ctx):
    G = importlib.import_module("ladim_plugins.nk800met.gridforce")
    from scipy.ndimage import map_coordinates
    drv = Driver()
    if getattr(ctx, "widened", False):
        drv.available = False
    pend = []
    tmp = tempfile.mkdtemp(prefix="verif_c13_")
    try:
        for r in range(ctx.n(3, 15)):
            R = np.random.RandomState(ctx.sub_seed())
            nx = ctx.rng.randrange(6, 10); ny = ctx.rng.randrange(6, 10); nz = ctx.rng.randrange(4, 7)
            ndays = ctx.rng.choice([2, 3])
            day0 = np.datetime64("2020-02-27") + np.timedelta64(ctx.rng.randrange(0, 3), "D")
            data = {}
            sub = os.path.join(tmp, "set%d" % r); os.makedirs(sub)
            for d in range(ndays):
                day = day0 + np.timedelta64(d, "D")
                dd = day.astype(datetime.datetime)
                data[str(day)] = write_day(os.path.join(sub, "nk_%04d%02d%02d.nc" % (dd.year, dd.month, dd.day)), day, nx, ny, nz, R)
            pattern = os.path.join(sub, "nk_{year:04}{month:02}{day:02}.nc")
            dt = ctx.rng.choice([60, 300, 600, 900])
            start = np.datetime64(str(day0) + "T00:00:00") + np.timedelta64(ctx.rng.choice([0, 900, 1800, 3600, 5 * 3600 + 300]), "s")
            conf = dict(start_time=start, dt=dt, gridforce=dict(input_file=pattern))
            grid = G.Grid(conf); forc = G.Forcing(conf, grid)
            first = data[str(day0)]

            def field(name, tsec):
                """hourly field containing time tsec (seconds since day0 00:00)"""
                hh = int(tsec // 3600)
                day = day0 + np.timedelta64(hh // 24, "D")
                return data[str(day)][name][hh % 24]

            # ---- request histories
            last_h = ndays * 24 - 2
            base = int((start - np.datetime64(str(day0) + "T00:00:00")).astype("timedelta64[s]").astype(int))
            max_t = (last_h * 3600 - base) // dt
            kind = ctx.rng.choice(["forward", "repeated", "back_forth", "midnight", "daily"])
            ts = []
            t = ctx.rng.randrange(0, max(1, max_t // 3))
            for _ in range(ctx.n(25, 80)):
                ts.append(t)
                if kind == "forward": t = min(max_t, t + ctx.rng.choice([1, 1, 2, 7]))
                elif kind == "repeated": t = t if ctx.rng.random() < 0.5 else min(max_t, t + 1)
                elif kind == "back_forth": t = min(max_t, max(0, t + ctx.rng.choice([-9, -1, 1, 1, 5])))
                elif kind == "midnight": t = min(max_t, max(0, (24 * 3600 - base) // dt + ctx.rng.randrange(-3, 4)))
                else:       # the same clock hour on another day (a one-day model step, daily sampling, a jump back)
                    day_steps = 24 * 3600 // dt
                    cand = [t2 for t2 in (t + day_steps, t - day_steps, t + day_steps + 1, t - day_steps - 1, t + 1) if 0 <= t2 <= max_t]
                    t = ctx.rng.choice(cand) if cand else t
            reads = []
            orig = G.OnlineDatabase._get_var
            def spy(self, name, time, _o=orig, _r=reads):
                key = (name, str(time.astype("datetime64[h]")))
                hit = key in self._vars_buf
                _r.append((name, int(time.astype("datetime64[h]").astype("int64")), not hit))
                return _o(self, name, time)
            G.OnlineDatabase._get_var = spy
            try:
                for t in ts:
                    forc.update(t)
                    tstep = ctx.rng.choice([0, 0.5, 1])
                    npts = 3
                    x = np.array([ctx.rng.uniform(0.6, nx - 1.6) for _ in range(npts)]); y = np.array([ctx.rng.uniform(0.6, ny - 1.6) for _ in range(npts)])
                    z = np.array([ctx.rng.choice([0.0, 3.0, 7.0, 60.0, 500.0]) for _ in range(npts)])
                    cs = dict(set=r, start=str(start), dt=dt, t=int(t), tstep=tstep, history=kind, x=x, y=y, z=z)
                    ctx.case(key=(r, int(t), tstep, float(x[0])), nontrivial=True, sample=cs if len(pend) < 2 else None)
                    ctx.branch("history." + kind); ctx.branch("tstep=%s" % tstep)
                    try:
                        u, v = forc.velocity(x, y, z, tstep)
                    except Exception as e:
                        ctx.oracle(False, "C13.velocity.raises", SITE + "::Forcing.velocity", "raised %r" % (e,), cs); continue
                    tsec = base + dt * t + int(dt * tstep)
                    q = (tsec % 3600) / 3600.0
                    k = np.interp(z, first["depth"], np.arange(nz))
                    for name, got in (("u", u), ("v", v)):
                        a1 = map_coordinates(field(name, tsec), (k, y, x), order=1, prefilter=False)
                        a2 = map_coordinates(field(name, tsec + 3600), (k, y, x), order=1, prefilter=False)
                        want = a1 * (1 - q) + a2 * q
                        ok = np.allclose(got, want, rtol=1e-9, atol=1e-12)
                        # the known finding F-C13a explains exactly one wrong answer: the two *right* hourly fields
                        # blended with mirrored weights.  Anything else (a field of another hour, day or file) is a
                        # different defect and is reported under its own predicate.
                        mirrored = a1 * q + a2 * (1 - q)
                        if ok or np.allclose(got, mirrored, rtol=1e-9, atol=1e-12):
                            pred = "C13.interp.whole_hour" if q == 0 else "C13.interp.time_weights"
                        else:
                            pred = "C13.interp.wrong_fields"
                        ctx.oracle(ok, pred, SITE + "::interp",
                                   "%s at %d s into the hour (q=%.4f): served %r, time interpolation of the bracketing hourly fields %r" % (name, tsec % 3600, q, got.tolist(), want.tolist()), cs)
                        # history independence: a fresh database gives the same answer
                        fresh = G.Forcing(conf, grid); fresh.update(t)
                        G.OnlineDatabase._get_var = orig
                        u2, v2 = fresh.velocity(x, y, z, tstep)
                        G.OnlineDatabase._get_var = spy
                        ctx.oracle(np.array_equal(got, u2 if name == "u" else v2), "C13.cache.not_transparent", SITE + "::Buffer",
                                   "result depends on the request history", cs)
                        if drv.available:
                            for i in range(npts):
                                pend.append(("interp", (drv.ask("nk.interp", "0", F(a1[i]), F(a2[i]), F(q)), drv.ask("nk.interp", "1", F(a1[i]), F(a2[i]), F(q))), got[i], cs))
                    if drv.available:
                        tt = int((start.astype("datetime64[s]").astype("int64")) + dt * t + int(dt * tstep))
                        pend.append(("hour", drv.ask("nk.hour", I(tt)), (tt // 3600, tt % 3600), cs))
            finally:
                G.OnlineDatabase._get_var = orig
            if drv.available and reads:
                pend.append(("serve", drv.ask("nk.serve", I(len(reads)), " ".join("%s %d" % (n, h) for n, h, _ in reads)), [m for _, _, m in reads], dict(set=r, history=kind)))
            # ---- grid: metrics and depth at every in-grid position incl. outermost cells
            for _ in range(ctx.n(40, 300)):
                xx = ctx.rng.choice([0.51, nx - 0.51, nx - 1.0, 1.0, ctx.rng.uniform(0.51, nx - 0.51)])
                yy = ctx.rng.choice([0.51, ny - 0.51, ny - 1.0, 1.0, ctx.rng.uniform(0.51, ny - 0.51)])
                X1 = np.array([xx]); Y1 = np.array([yy])
                if not grid.ingrid(X1, Y1)[0]:
                    continue
                cs = dict(set=r, x=xx, y=yy, nx=nx, ny=ny)
                ctx.case(key=("grid", r, xx, yy), nontrivial=True); ctx.branch("ingrid_position")
                try:
                    dx, dy = grid.sample_metric(X1, Y1)
                    ok = np.isfinite(dx[0]) and np.isfinite(dy[0]) and dx[0] > 0 and dy[0] > 0
                    ctx.oracle(ok, "C13.metric.not_finite", SITE + "::Grid.sample_metric", "cell size %r, %r" % (dx, dy), cs)
                except Exception as e:
                    ctx.oracle(False, "C13.metric.raises", SITE + "::Grid.sample_metric", "in-grid position (%r,%r) on a %dx%d grid raised %r" % (xx, yy, nx, ny, e), cs)
                try:
                    hh = grid.sample_depth(X1, Y1)
                    ctx.oracle(hh[0] == first["h"][int(round(yy)), int(round(xx))], "C13.depth.wrong_cell", SITE + "::Grid.sample_depth", "depth %r" % hh, cs)
                except Exception as e:
                    ctx.oracle(False, "C13.depth.raises", SITE + "::Grid.sample_depth", "raised %r" % (e,), cs)
                if drv.available:
                    pend.append(("midx", drv.ask("nk.midx", I(nx - 2), I(int(np.round(xx)))), min(max(int(np.round(xx)), 0), nx - 2), cs))
            # ---- ll2xy against the file's own coordinate arrays
            for _ in range(10):
                j = ctx.rng.randrange(ny); i = ctx.rng.randrange(nx)
                xg, yg = grid.ll2xy(first["lon"][j, i], first["lat"][j, i])
                ctx.case(key=("ll2xy", r, j, i), nontrivial=True); ctx.branch("ll2xy")
                ctx.oracle(abs(float(xg) - i) < 1e-3 and abs(float(yg) - j) < 1e-3, "C13.ll2xy.mismatch", SITE + "::Grid.ll2xy",
                           "lon/lat of node (%d,%d) maps to (%r,%r)" % (i, j, float(xg), float(yg)), dict(set=r, i=i, j=j))
            # ---- z2k
            zz = np.sort(np.array([ctx.rng.uniform(-5, 120) for _ in range(20)] + first["depth"].tolist()))
            kk = grid.z2k(zz)
            ctx.case(key=("z2k", r), nontrivial=True)
            ctx.oracle(bool(np.all(np.diff(kk) >= 0)), "C13.z2k.not_monotone", SITE + "::Grid.z2k", "level index not monotone in depth", dict(set=r))
            ctx.oracle(np.array_equal(grid.z2k(first["depth"]), np.arange(nz)), "C13.z2k.not_exact_at_knots", SITE + "::Grid.z2k", "not exact at the tabulated depths", dict(set=r))
    finally:
        shutil.rmtree(tmp, ignore_errors=True)
    if drv.available:
        rep = drv.run()
        votes = {0: 0, 1: 0}
        res = []
        for kind, j, impl, cs in pend:
            if kind == "interp":
                m0 = unF(rep[j[0]][1][0]); m1 = unF(rep[j[1]][1][0])
                e0 = same_bits(impl, m0); e1 = same_bits(impl, m1)
                if e0 and not e1: votes[0] += 1
                if e1 and not e0: votes[1] += 1
                res.append((impl, m0, m1, cs))
            elif kind == "hour":
                t = rep[j][1]
                ctx.eq("nk.hour", impl, (int(t[0]), int(t[1])), cs)
            elif kind == "midx":
                ctx.eq("nk.metric_index", impl, int(rep[j][1][0]), cs)
            elif kind == "serve":
                t = rep[j][1][1:]
                ctx.eq("nk.buffer_transparent", True, all("!" not in x for x in t), cs)
                ctx.eq("nk.buffer_misses", impl, [x.startswith("1") for x in t], cs)
        variant = 1 if votes[1] > 0 and votes[0] == 0 else 0
        ctx.note("time weights of interp matched by the code: %s (votes %r)" % (["backward (v1*q + v2*(1-q))", "forward"][variant], votes))
        for impl, m0, m1, cs in res:
            ctx.eq_bits("nk.interp", impl, m1 if variant else m0, cs)


def replay(payload):
    print("predicate:", payload.get("predicate"), "|", payload.get("detail"))
    return False
