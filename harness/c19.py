"""C19 — post-processing conserves particles.

Correspondence: `rasterize._edges`, the binning of `np.histogramdd` (through `from_particles`), the
time-slot slicing, and `get_settled_particles` against the Lean models; oracle: counts / weights sum to
the particles inside the outer bin edges, edges midway between centres, every particle and every
instance stored exactly once in SQLite with its time stamp, last recorded instance per pid.

Every call of the implementation gets a *fresh* dataset built from private copies of the generated arrays and
every oracle is judged against the pristine arrays, so an in-place change of the input by the implementation
cannot make the expectation follow it."""
import importlib, itertools, os, shutil, sqlite3, tempfile
import numpy as np
from .common import Driver, F, I, L, unF, same_bits

RULE = ("sparse LADiM datasets: 1..6 time slots (some empty), 0..50 instances (8 %: up to ~380), pids with repeats and gaps, "
        "sorted within a slot / shuffled within a slot / arbitrary sequences, particle dimension up to 30 longer than the largest pid, "
        "int64 or int32 counts and pids, variables in random order with independent values, time stamps hourly / irregular / epoch-sized "
        "(and datetime64 for the raster); monotone bin-centre grids, increasing (irregular spacing, unit or 800 m scale, float or integer "
        "centres) and decreasing (12 % of cases one dimension), in 1..3 dimensions in any key order, with particles inside, on interior "
        "and outer edges and outside; weights: positive, zero, negative, mixed magnitude 1e-3..1e3, integer-typed, one or two weight "
        "variables in any order with/without the plain count; calls: from_particles on the dataset, with time_idx, with renamed "
        "count/time/instance names, on a netCDF file name; ladim_raster with a centres-only grid, with explicit midway bounds, and with a "
        "per-particle bin variable; to_sqlite in memory and ladim_file_to_sqlite on 1..3 netCDF chunk files; get_settled_particles "
        "(also on the empty dataset). File furniture of LADiM output (every call above gets it): the scalar `instance_offset` absent (30 %), 0, "
        "smaller than / equal to / larger than the number of instances in the file, 1e6..3e9, int64 or int32, at any position among the "
        "variables; the CF variable and global attributes ladim.output writes (50 %), `units` on the time stamps only for whole seconds "
        "(then decoded to datetime64 when the file is opened by name). Split runs (50 % of cases): the dataset cut into 1..3 consecutive "
        "files in time (file-local particle_instance dimension, whole particle table, instance_offset = instances in the preceding files, "
        "optionally 1..299 more for earlier files), each file rasterised on its own by from_particles (dataset or file name) or "
        "ladim_raster; the chunk files of ladim_file_to_sqlite carry the same cumulative offsets. Non-trivial: dataset with >= 1 instance.")
ASSUMPTIONS = ["np.histogramdd is modelled by its documented binning (half-open bins, last bin closed) and checked against the real call",
               "weighted sums compared with 1e-12 relative to the sum of absolute weights (summation order of histogramdd); exactly when all weights "
               "are multiples of 0.25 below 2^11 (every partial sum is representable)",
               "the per-cell oracle is convention-free: a cell must hold at least the particles strictly inside it and at most those in its closure; "
               "per-cell weights are judged only in slots where no particle lies exactly on an edge",
               "several netCDF files given to ladim_file_to_sqlite are chunks in time of one run, each carrying the whole particle table",
               "`instance_offset` is bookkeeping of ladim's multi-file writer (instances stored in the preceding files); the particle_instance "
               "dimension of every file is local, so each file of a split run is a sparse LADiM dataset whose time slots are sliced from 0"]

SITE_FP = "ladim_plugins/utils/rasterize.py::from_particles"
SITE_LR = "ladim_plugins/utils/rasterize.py::ladim_raster"
INST = ["pid", "X", "Y", "Z", "w", "w2", "age"]          # per-instance variables
PART = ["release_time", "farmid", "Zone", "grp"]         # per-particle variables (deliberately not alphabetical)
GRP_CENTRES = [0.0, 1.0, 2.0, 3.5]


# ----------------------------------------------------------------------------- generator
def make_case(rng):
    nt = rng.randrange(1, 7)
    long_ = rng.random() < 0.08
    counts = [rng.choice([0, 17, 40, 64]) if long_ else rng.choice([0, 0, 1, 2, 5, 9]) for _ in range(nt)]
    n = sum(counts)
    npart = rng.randrange(1, 12)
    pid_mode = rng.choice(["sorted", "sorted", "shuffled", "free"])
    pid = []
    for c in counts:
        if pid_mode == "free":
            p = [rng.randrange(npart) for _ in range(c)]
        else:
            p = sorted(rng.sample(range(npart), min(c, npart)) + [rng.randrange(npart) for _ in range(max(0, c - npart))])[:c]
            if pid_mode == "shuffled":
                rng.shuffle(p)
        pid += p
    idt = rng.choice(["int64", "int64", "int32"])
    pid = np.array(pid, dtype=idt)
    npart_dim = npart + (rng.randrange(1, 30) if rng.random() < 0.2 else 0)
    # ---- bin centres
    grid_kind = rng.choice(["unit", "unit", "unit", "metric", "int"])
    centers = []
    for _ in range(3):
        m = rng.randrange(2, 7)
        if grid_kind == "int":
            cs = np.cumsum([rng.choice([1, 2, 5]) for _ in range(m)]) + rng.randrange(-5, 6)
        else:
            cs = np.cumsum([rng.choice([0.5, 1.0, 2.5]) for _ in range(m)]) + rng.uniform(-5, 5)
            if grid_kind == "metric":
                cs = cs * 800.0 + 1e5
        centers.append(cs)
    decreasing = None
    if rng.random() < 0.12:
        decreasing = rng.randrange(3)
        centers[decreasing] = centers[decreasing][::-1].copy()

    def coord(cs):
        cs = [float(v) for v in cs]
        lo = cs[0] - (cs[1] - cs[0]); hi = cs[-1] + (cs[-1] - cs[-2])
        vals = []
        for _ in range(n):
            r = rng.random()
            if r < 0.15: vals.append(float(rng.choice(cs)))
            elif r < 0.20: vals.append(float(0.5 * (cs[0] + cs[1])))
            elif r < 0.25:
                j = rng.randrange(len(cs) - 1)                                        # any interior edge
                vals.append(float(0.5 * (cs[j] + cs[j + 1])))
            elif r < 0.3: vals.append(float(cs[0] - (cs[1] - cs[0]) / 2))           # exactly on the outer edge
            elif r < 0.35: vals.append(float(cs[-1] + (cs[-1] - cs[-2]) / 2))
            elif r < 0.37: vals.append(float(lo - 10 * (cs[1] - cs[0])))             # far outside
            else: vals.append(rng.uniform(lo, hi))
        return np.array(vals, dtype=float)
    X, Y, Z = coord(centers[0]), coord(centers[1]), coord(centers[2])
    w_kind = rng.choice(["positive", "positive", "signed", "mixed"])
    if w_kind == "positive":
        w = [rng.choice([1.0, 0.5, 3.25, rng.uniform(0, 10)]) for _ in range(n)]
    elif w_kind == "signed":
        w = [rng.choice([0.0, -1.0, 2.5, rng.uniform(-10, 10)]) for _ in range(n)]
    else:
        w = [rng.choice([-1.0, 1.0]) * rng.uniform(1, 10) * 10.0 ** rng.randrange(-4, 3) for _ in range(n)]
    w = np.array(w, dtype=float)
    w2_int = rng.random() < 0.3
    if w2_int:
        w2 = np.array([rng.randrange(-3, 6) for _ in range(n)], dtype="int64")
    else:
        w2 = np.array([rng.choice([0.0, -1.0, 2.0, 0.25, -3.5, 1024.0, 7.0]) for _ in range(n)], dtype=float)
    age = np.array([rng.uniform(0, 1e6) for _ in range(n)], dtype=float)
    # ---- per-particle variables, independent of each other
    farmid = np.array(rng.sample(range(10000, 10000 + 4 * npart_dim), npart_dim), dtype=float)
    release_time = np.array([rng.choice([0.0, 3600.0, rng.uniform(0, 1e5)]) for _ in range(npart_dim)])
    zone = np.array([float(rng.randrange(-2, 3)) for _ in range(npart_dim)])
    grp = np.array([rng.choice([-1.0, -0.5, 0.0, 0.5, 1.0, 1.5, 2.0, 2.75, 3.5, 4.25, 6.0]) for _ in range(npart_dim)])
    # ---- time stamps (strictly increasing)
    t_kind = rng.choice(["hourly", "irregular", "epoch"])
    if t_kind == "hourly":
        tv = np.arange(nt) * 3600.0
    elif t_kind == "irregular":
        tv = rng.uniform(-1e5, 1e5) + np.cumsum([rng.choice([1.0, 60.0, 3600.0, rng.uniform(0.5, 5e4)]) for _ in range(nt)])
    else:
        tv = 1.7e9 + np.cumsum([rng.choice([0.25, 600.0, 86400.0, 7.5]) for _ in range(nt)])
    order = INST + PART + ["particle_count"]
    rng.shuffle(order)
    # ---- what a LADiM output file carries besides the ragged arrays: the scalar `instance_offset` (number of instances stored in
    # the preceding files of a split run, `numrec` > 0; 0 in a single file / the first file; the `particle_instance` dimension is
    # always local to the file) and the CF attributes that ladim.output writes
    r = rng.random()
    if r < 0.30: offset = None
    elif r < 0.42: offset = 0
    elif r < 0.65: offset = rng.randrange(1, max(2, n))                      # fewer than the instances of this file
    elif r < 0.75: offset = max(1, n)                                        # exactly as many
    elif r < 0.92: offset = n + rng.randrange(1, 400)                        # more than this file holds
    else: offset = rng.choice([10 ** 6, 2 ** 31 - 1, 3 * 10 ** 9])           # a long run
    offset_dt = "int64" if offset is not None and offset > 2 ** 31 - 1 else rng.choice(["int64", "int64", "int64", "int32"])
    offset_pos = rng.randrange(len(order) + 1)
    attrs = rng.random() < 0.5
    # `units` on the time stamps (decoded when a file is opened by name) only where the decoding is exact: whole seconds
    time_units = attrs and t_kind == "hourly" and rng.random() < 0.6
    return dict(offset=offset, offset_dt=offset_dt, offset_pos=offset_pos, attrs=attrs, time_units=time_units, counts=counts, cdt=idt, pid=pid, npart=npart_dim, centers=centers, decreasing=decreasing, grid_kind=grid_kind,
                X=X, Y=Y, Z=Z, w=w, w2=w2, age=age, farmid=farmid, release_time=release_time, Zone=zone, grp=grp,
                time=np.asarray(tv, dtype=float), order=order, pid_mode=pid_mode, w_kind=w_kind, t_kind=t_kind, long=long_)


VAR_ATTRS = dict(
    particle_count=dict(long_name="number of particles in a given timestep", ragged_row_count="particle count at nth timestep"),
    release_time=dict(long_name="particle release time", units="seconds since 1970-01-01 00:00:00"),
    pid=dict(long_name="particle identifier"), X=dict(long_name="particle X-coordinate"), Y=dict(long_name="particle Y-coordinate"),
    Z=dict(long_name="particle depth", standard_name="depth_below_surface", units="m", positive="down"),
    w=dict(long_name="super particle weight"), age=dict(long_name="age", units="s"), farmid=dict(long_name="farm identifier"))
OFFSET_ATTRS = dict(long_name="particle instance offset for file")
GLOBAL_ATTRS = dict(Conventions="CF-1.8", institution="Institute of Marine Research", source="Lagrangian Advection and Diffusion Model",
                    history="Created by ladim 2.3.3", date="2020-03-01")
EPOCH_UNITS = "seconds since 1970-01-01 00:00:00"


def build_ds(g, time="float", offset="own"):
    """a fresh dataset from private copies of the generated arrays; `offset`: "own" = the generated `instance_offset`
    (possibly none), None = no such variable, an int = that value"""
    import xarray as xr
    off = g.get("offset") if offset == "own" else offset
    at = bool(g.get("attrs"))
    names = list(g["order"])
    if off is not None:
        names.insert(g.get("offset_pos", 0), "instance_offset")
    dv = {}
    for name in names:
        a = dict(VAR_ATTRS.get(name, {})) if at else {}
        if name == "instance_offset":
            dv[name] = ((), np.array(off, dtype=g.get("offset_dt", "int64") if off <= 2 ** 31 - 1 else "int64"), dict(OFFSET_ATTRS) if at else {})
        elif name == "particle_count":
            dv[name] = ("time", np.array(g["counts"], dtype=g["cdt"]), a)
        elif name in INST:
            dv[name] = ("particle_instance", g[name].copy(), a)
        else:
            dv[name] = ("particle", g[name].copy(), a)
    if time == "datetime":
        tv = np.datetime64("2020-03-01T00:00:00", "ms") + np.round((g["time"] - g["time"][0]) * 1000).astype("int64").astype("timedelta64[ms]")
        tv = tv.astype("datetime64[ns]")
    else:
        tv = g["time"].copy()
    ta = {}
    if at and time != "datetime":
        ta = dict(long_name="time", standard_name="time")
        if g.get("time_units"):
            ta["units"] = EPOCH_UNITS
    return xr.Dataset(data_vars=dv, coords=dict(time=("time", tv, ta)), attrs=dict(GLOBAL_ATTRS) if at else {})


def decoded_times(g, tv):
    """the time stamps as CF decoding gives them when the file is opened by name: only generated for whole seconds since the epoch"""
    tv = np.asarray(tv, dtype=float)
    assert np.all(tv == np.round(tv))
    return np.datetime64("1970-01-01T00:00:00", "s") + tv.astype("int64").astype("timedelta64[s]")


def offset_tag(g, off="own", n=None):
    """class of an `instance_offset` relative to the number n of instances the file holds"""
    off = g["offset"] if off == "own" else off
    n = len(g["pid"]) if n is None else n
    if off is None: return "absent"
    if off == 0: return "zero"
    if off >= 10 ** 6: return "huge"
    return "1..n-1" if off < n else ">=n"


def describe(g):
    d = {}
    for k, v in g.items():
        if k == "centers":
            d[k] = [c.tolist() for c in v]
        elif isinstance(v, np.ndarray):
            d[k] = v.tolist()
        else:
            d[k] = v
    return d


# ----------------------------------------------------------------------------- reference binning
def _cands(E, x):
    """cells of a 1-D grid with edges E (monotone, either direction) that may hold x: None outside the outer edges;
    ([k], True) strictly inside cell k; (cells, False) exactly on an edge (the cells touching it)"""
    lo, hi = (E[0], E[-1]) if E[0] <= E[-1] else (E[-1], E[0])
    if not (lo <= x <= hi):
        return None
    ks = []
    for k in range(len(E) - 1):
        a, b = (E[k], E[k + 1]) if E[k] <= E[k + 1] else (E[k + 1], E[k])
        if a < x < b:
            return [k], True
        if x == a or x == b:
            ks.append(k)
    return ks, False


def reference(edges, cols, wts):
    """edges: one float list per dimension; cols: the particles' coordinates per dimension; wts: {name: weights}.
    -> inside mask (closed outer edges), per-cell lower/upper counts, whether no inside particle lies on an edge,
    per-cell weights and absolute weights of the strictly-inside particles"""
    shape = [len(E) - 1 for E in edges]
    n = len(cols[0]) if cols else 0
    lower = np.zeros(shape, dtype=int); upper = np.zeros(shape, dtype=int)
    inside = np.zeros(n, dtype=bool)
    cw = {k: np.zeros(shape) for k in wts}; ca = {k: np.zeros(shape) for k in wts}
    strict_all = True
    for i in range(n):
        cc = [_cands(E, float(col[i])) for E, col in zip(edges, cols)]
        if any(c is None for c in cc):
            continue
        inside[i] = True
        if all(c[1] for c in cc):
            ix = tuple(c[0][0] for c in cc)
            lower[ix] += 1; upper[ix] += 1
            for k in wts:
                cw[k][ix] += float(wts[k][i]); ca[k][ix] += abs(float(wts[k][i]))
        else:
            strict_all = False
            for ix in itertools.product(*[c[0] for c in cc]):
                upper[ix] += 1
    return inside, lower, upper, strict_all, cw, ca


def dyadic(v):
    v = np.asarray(v, dtype=float)
    return bool(np.all(v * 4 == np.round(v * 4)) and np.all(np.abs(v) <= 2048))


def judge(ctx, site, what, hist, edges, cols, wts, cs, legacy_tol=False):
    """the statement for one time slot. hist: {None or weight name: cell array} as returned by the implementation;
    edges / cols per dimension (pristine); wts: {name: pristine weights of the slot}"""
    inside, lower, upper, strict_all, cw, ca = reference(edges, cols, {k: wts[k] for k in hist if k is not None})
    if None in hist:
        bc = np.asarray(hist[None])
        ctx.oracle(bc.sum() == inside.sum(), "C19.raster.count_not_conserved", site,
                   "%s: cells sum to %r, %d particles inside the outer edges" % (what, bc.sum(), inside.sum()), cs)
        # bin edges are the cell boundaries: a cell holds at least the particles strictly inside it and at most those in its closure
        ok = bc.shape == lower.shape and bool(np.all(lower <= bc) and np.all(bc <= upper))
        ctx.oracle(ok, "C19.raster.cell_counts", site, "%s: cell counts %r not between %r (strictly inside) and %r (closure)"
                   % (what, bc.tolist(), lower.tolist(), upper.tolist()), cs)
    for k in hist:
        if k is None:
            continue
        bw = np.asarray(hist[k]); wk = np.asarray(wts[k], dtype=float)
        tw = wk[inside].sum(); ta = np.abs(wk[inside]).sum()
        if legacy_tol:
            ctx.oracle(abs(bw.sum() - tw) <= 1e-9 * (1 + abs(tw)), "C19.raster.weight_not_conserved", site,
                       "%s: weighted cells (%s) sum to %r, total weight inside %r" % (what, k, bw.sum(), tw), cs)
        # two summation orders of <= ~400 terms differ by at most 2 (n-1) u sum|w| < 1e-13 sum|w|; exact for dyadic weights
        tol = 0.0 if dyadic(wk) else 1e-12 * ta
        ctx.oracle(abs(bw.sum() - tw) <= tol, "C19.raster.weight_not_conserved", site,
                   "%s: weighted cells (%s) sum to %r, total weight inside %r (tolerance %r)" % (what, k, bw.sum(), tw, tol), cs)
        if strict_all:
            tolc = 0.0 if dyadic(wk) else 1e-12 * ca[k]
            ok = bw.shape == cw[k].shape and bool(np.all(np.abs(bw - cw[k]) <= tolc))
            ctx.oracle(ok, "C19.raster.cell_weights", site, "%s: cell weights (%s) %r, weights of the particles in the cells %r"
                       % (what, k, bw.tolist(), cw[k].tolist()), cs)
    return inside


def raster_raised(ctx, e, site, what, dec_used, cs):
    """an exception of the rasteriser on an input of the domain is a failing input; the refusal of a decreasing grid
    by np.histogramdd gets its own predicate (identified by the exact mechanism), everything else is `raises`"""
    if dec_used and isinstance(e, ValueError) and "monotonically increasing" in str(e):
        ctx.oracle(False, "C19.raster.decreasing_grid_raises", site, "%s: decreasing bin centres: raised %r" % (what, e), cs)
    else:
        ctx.oracle(False, "C19.raster.raises", site, "%s: raised %r" % (what, e), cs)


def midway_ok(a, e):
    a = np.asarray(a, dtype=float); e = np.asarray(e, dtype=float)
    return len(e) == len(a) + 1 and np.allclose(e[1:-1], 0.5 * (a[:-1] + a[1:]), rtol=0, atol=0) \
        and abs((a[0] - e[0]) - (e[1] - a[0])) <= 1e-12 * (1 + abs(a[0])) \
        and abs((e[-1] - a[-1]) - (a[-1] - e[-2])) <= 1e-12 * (1 + abs(a[-1]))


def raster_edges(ctx, lr, gk, gcent, gcs):
    """the bin edges a `ladim_raster` result declares for the grid coordinates `gk` (bounds variables), judged to be contiguous
    and midway between the centres `gcent`; -> (edges per coordinate, all present and contiguous)"""
    gE = []; okb = True
    for k in gk:
        bname = lr[k].attrs.get("bounds")
        if bname is None or bname not in lr.variables:
            ctx.oracle(False, "C19.edges.not_midway", "ladim_plugins/utils/rasterize.py::add_edge_info", "no bounds for %r in the raster" % k, gcs)
            return gE, False
        b = np.asarray(lr[bname].values, dtype=float)
        e = np.concatenate([b[:, 0], b[-1:, 1]])
        contiguous = b.shape == (len(gcent[k]), 2) and bool(np.all(b[1:, 0] == b[:-1, 1]))
        ctx.oracle(contiguous and midway_ok(gcent[k], e), "C19.edges.not_midway", "ladim_plugins/utils/rasterize.py::add_edge_info",
                   "centres %r -> bounds %r" % (np.asarray(gcent[k]).tolist(), b.tolist()), gcs)
        okb = okb and contiguous
        gE.append([float(v) for v in e])
    return gE, okb


def own_edges(a):
    """midway edges computed independently (other rounding than `_edges` in the outer edges)"""
    a = np.asarray(a, dtype=float)
    mid = 0.5 * (a[:-1] + a[1:])
    return np.concatenate([[a[0] - (mid[0] - a[0])], mid, [a[-1] + (a[-1] - mid[-1])]])


# ----------------------------------------------------------------------------- run
def run(ctx):
    R = importlib.import_module("ladim_plugins.utils.rasterize")
    C = importlib.import_module("ladim_plugins.utils.converter")
    S = importlib.import_module("ladim_plugins.sedimentation.ibm")
    import xarray as xr
    rng = ctx.rng
    drv = Driver()
    if getattr(ctx, "widened", False):
        drv.available = False
    pend = []
    tmp = tempfile.mkdtemp(prefix="c19_")
    try:
        for c in range(ctx.n(120, 2500)):
            g = make_case(rng)
            counts = g["counts"]; pid = g["pid"]; centers = g["centers"]
            crd = dict(X=g["X"], Y=g["Y"], Z=g["Z"])
            n = len(pid); nt = len(counts)
            ndim = rng.randrange(1, 4)
            if rng.random() < 0.7:
                keys = ["X", "Y", "Z"][:ndim]
            else:
                keys = rng.sample(["X", "Y", "Z"], ndim)
            vdims = rng.choice([(None, "w"), (None, "w"), ("w", None), (None, "w", "w2"), ("w2", None, "w")])
            cs = dict(describe(g), keys=keys, vdims=list(vdims))
            ctx.case(key=repr(cs), nontrivial=n > 0, sample=dict(counts=counts, keys=keys, vdims=list(vdims)) if c < 3 else None)
            ctx.branch("ndim=%d" % ndim); ctx.size("slots", nt); ctx.branch("empty_slot" if 0 in counts else "no_empty_slot")
            ctx.branch("keys=" + ("prefix" if keys == ["X", "Y", "Z"][:ndim] else "permuted"))
            ctx.branch("vdims=" + ",".join("count" if v is None else v for v in vdims))
            ctx.branch("pid=" + g["pid_mode"]); ctx.branch("ints=" + g["cdt"]); ctx.branch("weights=" + g["w_kind"])
            ctx.branch("w2=" + ("int" if g["w2"].dtype.kind == "i" else "dyadic")); ctx.branch("time=" + g["t_kind"])
            ctx.branch("grid=" + g["grid_kind"]); ctx.branch("long" if g["long"] else "short")
            if g["npart"] > int(pid.max() if n else 0) + 12: ctx.branch("particle_dim>>max_pid")
            ctx.branch("instance_offset=" + offset_tag(g))
            if g["offset"] is not None: ctx.branch("instance_offset dtype=" + g["offset_dt"])
            ctx.branch("attributes=" + ("ladim" + ("+time units" if g["time_units"] else "") if g["attrs"] else "none"))
            kd = dict(X=0, Y=1, Z=2)
            dec_used = g["decreasing"] is not None and "XYZ"[g["decreasing"]] in keys
            if g["decreasing"] is not None:
                ctx.branch("grid=decreasing" + ("(used)" if dec_used else "(unused dimension)"))
            wts = dict(w=g["w"], w2=g["w2"])
            # ---- edges
            edges_all = []
            for d in range(3):
                a = centers[d]
                e = R._edges(a.copy())
                edges_all.append(e)
                if "XYZ"[d] not in keys:
                    continue
                ctx.oracle(midway_ok(a, e), "C19.edges.not_midway", "ladim_plugins/utils/rasterize.py::_edges", "centres %r -> edges %r" % (a.tolist(), e.tolist()), cs)
                if drv.available:
                    pend.append(("edges", drv.ask("post.edges", L(a)), e, cs))
            edges = [edges_all[kd[k]] for k in keys]
            E = [[float(v) for v in e] for e in edges]
            idx = np.cumsum([0] + counts)

            def slot(t, ks=keys):
                sl = slice(idx[t], idx[t + 1])
                return sl, [crd[k][sl] for k in ks], {k: v[sl] for k, v in wts.items()}

            def hists(ras, vd, t=None):
                return {v: (ras["bincount" if v is None else v].values if t is None else ras["bincount" if v is None else v].values[t]) for v in vd}

            # ---- raster: the whole dataset
            ras = None
            try:
                ras = R.from_particles(build_ds(g), list(keys), [e.tolist() for e in edges], vdims=vdims)
            except Exception as e:
                raster_raised(ctx, e, SITE_FP, "from_particles", dec_used, cs)
            if ras is not None:
                bc = ras["bincount"].values
                for t in range(nt):
                    sl, cols, ws = slot(t)
                    judge(ctx, SITE_FP, "slot %d" % t, hists(ras, vdims, t), E, cols, ws, dict(cs, slot=t), legacy_tol=True)
                    if drv.available and not dec_used:
                        js = [drv.ask("post.bins", L(edges[d]), L(crd[k][sl])) for d, k in enumerate(keys)]
                        pend.append(("hist", js, (bc[t], [len(e) - 1 for e in edges]), dict(cs, slot=t)))
                ctx.oracle(bool(ras["time"].values.shape == g["time"].shape and np.all(ras["time"].values == g["time"])), "C19.raster.times", SITE_FP, "time stamps changed", cs)
            # ---- raster: one time slot through `time_idx`
            tsel = {0, nt - 1}
            if 0 in counts: tsel.add(counts.index(0))
            tsel = sorted(tsel)
            if len(tsel) > 2: tsel = rng.sample(tsel, 2)
            for t in tsel:
                ctx.branch("time_idx=" + ("0" if t == 0 else "last" if t == nt - 1 else "middle") + ("(empty)" if counts[t] == 0 else ""))
                try:
                    r1 = R.from_particles(build_ds(g), list(keys), [e.tolist() for e in edges], vdims=vdims, time_idx=t)
                except Exception as e:
                    raster_raised(ctx, e, SITE_FP, "from_particles(time_idx=%d)" % t, dec_used, dict(cs, time_idx=t))
                    continue
                sl, cols, ws = slot(t)
                judge(ctx, SITE_FP, "time_idx=%d" % t, hists(r1, vdims), E, cols, ws, dict(cs, time_idx=t))
            # ---- raster: weights only / other names / decoded time stamps / file name
            extra = rng.choice(["weights_only", "renamed", "datetime", "file", "none"])
            ctx.branch("extra_call=" + extra)
            if extra != "none":
                vd2 = vdims; kw = {}; dsx = build_ds(g); tname = "time"; want_t = g["time"]
                if extra == "weights_only":
                    vd2 = rng.choice([("w",), ("w2", "w"), ("w2",)])
                elif extra == "renamed":
                    dsx = dsx.rename({"particle_count": "pcount", "time": "t", "particle_instance": "inst"})
                    kw = dict(timevar_name="t", countvar_name="pcount")
                elif extra == "datetime":
                    dsx = build_ds(g, time="datetime"); want_t = dsx["time"].values.copy()
                elif extra == "file":
                    fn = os.path.join(tmp, "raster_%d.nc" % c)
                    dsx.to_netcdf(fn); dsx = fn
                    if g["time_units"]:
                        want_t = decoded_times(g, g["time"])
                r2 = None
                try:
                    r2 = R.from_particles(dsx, list(keys), [e.tolist() for e in edges], vdims=vd2, **kw)
                except Exception as e:
                    raster_raised(ctx, e, SITE_FP, "from_particles[%s]" % extra, dec_used, dict(cs, extra=extra, vdims2=list(vd2)))
                if r2 is not None:
                    for t in range(nt):
                        sl, cols, ws = slot(t)
                        judge(ctx, SITE_FP, "[%s] slot %d" % (extra, t), hists(r2, vd2, t), E, cols, ws, dict(cs, extra=extra, vdims2=list(vd2), slot=t))
                    ctx.oracle(bool(r2["time"].values.shape == want_t.shape and np.all(r2["time"].values == want_t)), "C19.raster.times", SITE_FP,
                               "[%s] time stamps changed" % extra, dict(cs, extra=extra))
            # ---- raster from bin centres: ladim_raster (add_edge_info, bounds -> edges, broadcast of per-particle variables)
            gk = rng.sample(["X", "Y", "Z"], rng.randrange(1, 3))
            if rng.random() < 0.3:
                gk.insert(rng.randrange(len(gk) + 1), "grp")
            gcent = {k: (np.array(GRP_CENTRES) if k == "grp" else centers[kd[k]].copy()) for k in gk}
            explicit = [k for k in gk if rng.random() < 0.25]
            grid = xr.Dataset(coords={k: (k, gcent[k]) for k in gk})
            for k in explicit:
                oe = own_edges(gcent[k])
                grid[k + "_bnds"] = ((k, "nv"), np.stack([oe[:-1], oe[1:]], axis=-1))
                grid[k].attrs["bounds"] = k + "_bnds"
            gw = rng.choice([(None,), (None, "w"), (None, "w2", "w")])
            gcs = dict(cs, grid_keys=gk, explicit_bounds=explicit, grid_weights=list(gw))
            gdec = g["decreasing"] is not None and "XYZ"[g["decreasing"]] in gk
            ctx.branch("ladim_raster ndim=%d" % len(gk))
            if "grp" in gk: ctx.branch("ladim_raster per-particle bin variable")
            if explicit: ctx.branch("ladim_raster explicit midway bounds")
            if gdec: ctx.branch("ladim_raster decreasing")
            lr = None
            try:
                lr = R.ladim_raster(build_ds(g), grid, weights=gw)
            except Exception as e:
                raster_raised(ctx, e, SITE_LR, "ladim_raster", gdec, gcs)
            if lr is not None:
                gE = []; okb = True
                for k in gk:
                    bname = lr[k].attrs.get("bounds")
                    if bname is None or bname not in lr.variables:
                        okb = False
                        ctx.oracle(False, "C19.edges.not_midway", "ladim_plugins/utils/rasterize.py::add_edge_info", "no bounds for %r in the raster" % k, gcs)
                        break
                    b = np.asarray(lr[bname].values, dtype=float)
                    e = np.concatenate([b[:, 0], b[-1:, 1]])
                    contiguous = b.shape == (len(gcent[k]), 2) and bool(np.all(b[1:, 0] == b[:-1, 1]))
                    ctx.oracle(contiguous and midway_ok(gcent[k], e), "C19.edges.not_midway", "ladim_plugins/utils/rasterize.py::add_edge_info",
                               "centres %r -> bounds %r" % (gcent[k].tolist(), b.tolist()), gcs)
                    okb = okb and contiguous
                    gE.append([float(v) for v in e])
                if okb:
                    gcol = {k: (g["grp"][pid] if k == "grp" else crd[k]) for k in gk}
                    dims_ok = all(lr["bincount" if v is None else v].dims == ("time",) + tuple(gk) for v in gw)
                    ctx.oracle(dims_ok, "C19.raster.cell_counts", SITE_LR, "raster dimensions %r for grid %r" % (lr["bincount"].dims, gk), gcs)
                    if dims_ok:
                        for t in range(nt):
                            sl = slice(idx[t], idx[t + 1])
                            judge(ctx, SITE_LR, "ladim_raster slot %d" % t, hists(lr, gw, t), gE, [gcol[k][sl] for k in gk],
                                  {k: v[sl] for k, v in wts.items()}, dict(gcs, slot=t))
                    ctx.oracle(bool(lr["time"].values.shape == g["time"].shape and np.all(lr["time"].values == g["time"])), "C19.raster.times", SITE_LR, "time stamps changed", gcs)
            # ---- the files of a split run (ladim `numrec` > 0): consecutive chunks in time, each with the whole particle table, a
            # file-local `particle_instance` dimension and `instance_offset` = number of instances in the preceding files.
            # Each file is a sparse LADiM dataset of its own: its raster conserves the particles of its own time slots.
            if rng.random() < 0.5:
                nch = rng.randrange(1, min(3, nt) + 1)
                cuts = [0] + sorted(rng.sample(range(1, nt), nch - 1)) + [nt]
                base = rng.choice([0, 0, 0, rng.randrange(1, 300)])                  # the run may have files before these
                how = rng.choice(["dataset", "dataset", "file", "ladim_raster"])
                ctx.branch("split run files=%d" % nch); ctx.branch("split run via " + how)
                for j in range(nch):
                    t0, t1 = cuts[j], cuts[j + 1]
                    off = base + int(idx[t0])
                    ctx.branch("split file instance_offset=" + offset_tag(g, off, int(idx[t1] - idx[t0])) + ("(first file)" if j == 0 else "(later file)"))
                    scs = dict(cs, split=dict(cuts=cuts, file=j, instance_offset=off, via=how))

                    def chunk():
                        return build_ds(g, offset=off).isel(time=slice(t0, t1), particle_instance=slice(int(idx[t0]), int(idx[t1])))
                    want_t = g["time"][t0:t1]
                    rs = None
                    if how == "ladim_raster":
                        sk = list(keys); svd = tuple(v for v in vdims)
                        sgrid = xr.Dataset(coords={k: (k, centers[kd[k]].copy()) for k in sk})
                        site = SITE_LR
                        try:
                            rs = R.ladim_raster(chunk(), sgrid, weights=svd)
                        except Exception as e:
                            raster_raised(ctx, e, site, "ladim_raster on file %d of a split run" % j, dec_used, scs)
                        if rs is not None:
                            sE, okb = raster_edges(ctx, rs, sk, {k: centers[kd[k]] for k in sk}, scs)
                            dims_ok = okb and all(rs["bincount" if v is None else v].dims == ("time",) + tuple(sk) for v in svd)
                            ctx.oracle(dims_ok or not okb, "C19.raster.cell_counts", site, "raster dimensions %r for grid %r" % (rs["bincount" if svd[0] is None else svd[0]].dims, sk), scs)
                            if not dims_ok:
                                rs = None
                    else:
                        site = SITE_FP; sE = E
                        src = chunk()
                        if how == "file":
                            fn = os.path.join(tmp, "split_%d_%d.nc" % (c, j))
                            src.to_netcdf(fn); src = fn
                            if g["time_units"]:
                                want_t = decoded_times(g, want_t)
                        try:
                            rs = R.from_particles(src, list(keys), [e.tolist() for e in edges], vdims=vdims)
                        except Exception as e:
                            raster_raised(ctx, e, site, "from_particles on file %d of a split run" % j, dec_used, scs)
                    if rs is None:
                        continue
                    okshape = all(rs["bincount" if v is None else v].values.shape[0] == t1 - t0 for v in vdims)
                    ctx.oracle(okshape, "C19.raster.times", site, "file %d of a split run: %d time slots in the raster, %d in the file"
                               % (j, rs["bincount" if vdims[0] is None else vdims[0]].values.shape[0], t1 - t0), scs)
                    if not okshape:
                        continue
                    for t in range(t0, t1):
                        sl, cols, ws = slot(t)
                        judge(ctx, site, "split run file %d (instance_offset %d) slot %d" % (j, off, t - t0), hists(rs, vdims, t - t0), sE, cols, ws,
                              dict(scs, slot=t - t0, slot_of_run=t))
                    ctx.oracle(bool(rs["time"].values.shape == want_t.shape and np.all(rs["time"].values == want_t)), "C19.raster.times", site,
                               "file %d of a split run: time stamps changed" % j, scs)
            # ---- sqlite
            want = sorted(tuple([float(g["time"][t])] + [float(g[v][i]) for v in INST]) for t in range(nt) for i in range(idx[t], idx[t + 1]))
            wantp = sorted(tuple(float(g[v][i]) for v in PART) for i in range(g["npart"]))
            qi = "select time, %s from particle_instance" % ", ".join(INST)
            qp = "select %s from particle" % ", ".join(PART)

            def judge_sql(prow, irow, what, scs):
                ctx.oracle(len(prow) == g["npart"] and sorted(prow) == wantp, "C19.sqlite.particles", "ladim_plugins/utils/converter.py::add_particle_values",
                           "%s: %d particle rows for %d particles (or wrong values)" % (what, len(prow), g["npart"]), scs)
                ctx.oracle(sorted(irow) == want and len(irow) == n, "C19.sqlite.instances", "ladim_plugins/utils/converter.py::add_instance_values",
                           "%s: %d instance rows for %d instances (or wrong time stamps / values)" % (what, len(irow), n), scs)

            con = sqlite3.connect(":memory:")
            try:
                C.to_sqlite(build_ds(g), con)
                cur = con.cursor()
                prow = cur.execute(qp).fetchall()
                irow = cur.execute(qi).fetchall()
            finally:
                con.close()
            judge_sql(prow, irow, "to_sqlite", cs)
            if drv.available:
                pend.append(("slots", drv.ask("post.slots", L(counts, I), I(n)), counts, cs))
            if rng.random() < 0.25:
                # the file entry point: 1..3 chunks in time of the run, each with the whole particle table
                nch = rng.randrange(1, min(3, nt) + 1)
                cuts = [0] + sorted(rng.sample(range(1, nt), nch - 1)) + [nt]
                ctx.branch("ladim_file_to_sqlite files=%d" % nch)
                ds = build_ds(g)
                sub = os.path.join(tmp, "sql_%d" % c); os.mkdir(sub)
                for j in range(nch):
                    ch = ds.isel(time=slice(cuts[j], cuts[j + 1]), particle_instance=slice(idx[cuts[j]], idx[cuts[j + 1]]))
                    if g["offset"] is not None and g["offset"] + int(idx[cuts[j]]) <= 2 ** 31 - 1:
                        # as ladim's multi-file writer numbers them: the instances stored in the preceding files
                        ch["instance_offset"] = ch["instance_offset"] + np.array(int(idx[cuts[j]]), dtype=ch["instance_offset"].dtype)
                    ch.to_netcdf(os.path.join(sub, "out_%04d.nc" % j))
                fo = os.path.join(sub, "out.sqlite")
                C.ladim_file_to_sqlite(os.path.join(sub, "out_*.nc"), fo)
                con = sqlite3.connect(fo)
                try:
                    cur = con.cursor()
                    prow = cur.execute(qp).fetchall()
                    irow = cur.execute(qi).fetchall()
                finally:
                    con.close()
                judge_sql(prow, irow, "ladim_file_to_sqlite (%d files)" % nch, dict(cs, chunks=cuts))
                shutil.rmtree(sub, ignore_errors=True)
            # ---- settled particles
            st = S.get_settled_particles(build_ds(g))
            last = {}
            for i, p in enumerate(pid.tolist()):
                last[int(p)] = i
            spid = [int(p) for p in st["pid"].values.tolist()]
            got = {p: float(x) for p, x in zip(spid, st["X"].values)}
            ok = set(got) == set(last) and all(same_bits(got[p], crd["X"][last[p]]) for p in last) and len(st["pid"]) == len(last)
            ok = ok and all(v in st.variables and len(st[v].values) == len(spid) and all(same_bits(st[v].values[j], g[v][last[p]]) for j, p in enumerate(spid)) for v in INST)
            ctx.oracle(ok, "C19.settled.not_last_instance", "ladim_plugins/sedimentation/ibm.py::get_settled_particles",
                       "selected instances are not the last per pid", cs)
            okp = len(spid) == len(set(spid)) and all(0 <= p < g["npart"] for p in spid) and \
                all(v in st.variables and len(st[v].values) == len(spid) and all(same_bits(st[v].values[j], g[v][p]) for j, p in enumerate(spid)) for v in PART)
            ctx.oracle(okp, "C19.settled.particle_vars", "ladim_plugins/sedimentation/ibm.py::get_settled_particles", "per-particle variables misaligned", cs)
            if n == 0: ctx.branch("settled: empty dataset")
            if drv.available and n > 0:
                # impl's chosen instance index recovered through a unique per-instance variable
                uid = build_ds(g).assign(uid=("particle_instance", np.arange(n, dtype=float)))
                st2 = S.get_settled_particles(uid)
                pend.append(("settled", drv.ask("post.settled", L(pid, I)), list(zip(st2["pid"].values.tolist(), [int(u) for u in st2["uid"].values])), cs))
    finally:
        shutil.rmtree(tmp, ignore_errors=True)
    if drv.available:
        rep = drv.run()
        for kind, j, impl, cs in pend:
            if kind == "edges":
                t = rep[j][1]
                m = [unF(x) for x in t[1:]]
                ctx.eq("edges.length", len(impl), len(m), cs)
                for a, b in zip(impl, m):
                    ctx.eq_bits("edges", a, b, cs)
            elif kind == "hist":
                bc, shape = impl
                cells = None
                cols = []
                for jj in j:
                    cols.append([int(x) for x in rep[jj][1][1:]])
                model = np.zeros(shape)
                for row in zip(*cols) if cols and cols[0] else []:
                    if all(k >= 0 for k in row):
                        model[tuple(row)] += 1
                ctx.eq("histogram", bc.tolist(), model.tolist(), cs)
            elif kind == "slots":
                t = rep[j][1]
                it = iter(t); ns = int(next(it)); lens = []
                flat = []
                for _ in range(ns):
                    ln = int(next(it)); lens.append(ln)
                    flat += [int(next(it)) for _ in range(ln)]
                ctx.eq("slots.lengths", impl, lens, cs)
                ctx.eq("slots.concat", list(range(sum(impl))), flat, cs)
            elif kind == "settled":
                t = rep[j][1]
                m = [(int(t[1 + 2 * i]), int(t[2 + 2 * i])) for i in range(int(t[0]))]
                ctx.eq("settled", [(int(a), int(b)) for a, b in impl], m, cs)


def replay(payload):
    print("predicate:", payload.get("predicate"), "|", payload.get("detail"))
    return False
