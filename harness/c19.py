"""C19 — post-processing conserves particles.

Correspondence: `rasterize._edges`, the binning of `np.histogramdd` (through `from_particles`), the
time-slot slicing, and `get_settled_particles` against the Lean models; oracle: counts / weights sum to
the particles inside the outer bin edges, edges midway between centres, every particle and every
instance stored exactly once in SQLite with its time stamp, last recorded instance per pid."""
import importlib, sqlite3
import numpy as np
from .common import Driver, F, I, L, unF, same_bits

RULE = ("sparse LADiM datasets: 1..6 time slots (some empty), 0..50 instances, pids with repeats and gaps; monotone bin-centre "
        "grids (increasing, irregular spacing) in 1..3 dimensions with particles inside, on edges and outside; weights. "
        "Non-trivial: dataset with >= 1 instance.")
ASSUMPTIONS = ["np.histogramdd is modelled by its documented binning (half-open bins, last bin closed) and checked against the real call",
               "weighted sums compared with 1e-12 relative tolerance (summation order of histogramdd)"]


def make_dataset(rng):
    import xarray as xr
    nt = rng.randrange(1, 7)
    counts = [rng.choice([0, 0, 1, 2, 5, 9]) for _ in range(nt)]
    n = sum(counts)
    npart = rng.randrange(1, 12)
    pid = []
    for c in counts:
        pid += sorted(rng.sample(range(npart), min(c, npart)) + [rng.randrange(npart) for _ in range(max(0, c - npart))])[:c]
    pid = np.array(pid, dtype=int)
    centers = [np.cumsum([rng.choice([0.5, 1.0, 2.5]) for _ in range(rng.randrange(2, 7))]) + rng.uniform(-5, 5) for _ in range(3)]
    def coord(cs):
        lo = cs[0] - (cs[1] - cs[0]); hi = cs[-1] + (cs[-1] - cs[-2])
        vals = []
        for _ in range(n):
            r = rng.random()
            if r < 0.15: vals.append(float(rng.choice(list(cs))))
            elif r < 0.25: vals.append(float(0.5 * (cs[0] + cs[1])))
            elif r < 0.3: vals.append(float(cs[0] - (cs[1] - cs[0]) / 2))           # exactly on the outer edge
            elif r < 0.35: vals.append(float(cs[-1] + (cs[-1] - cs[-2]) / 2))
            else: vals.append(rng.uniform(lo, hi))
        return np.array(vals)
    X, Y, Z = coord(centers[0]), coord(centers[1]), coord(centers[2])
    w = np.array([rng.choice([1.0, 0.5, 3.25, rng.uniform(0, 10)]) for _ in range(n)])
    ds = xr.Dataset(
        data_vars=dict(
            particle_count=("time", np.array(counts, dtype=int)),
            pid=("particle_instance", pid), X=("particle_instance", X), Y=("particle_instance", Y), Z=("particle_instance", Z),
            w=("particle_instance", w), farmid=("particle", np.arange(npart) + 100.0), release_time=("particle", np.arange(npart) * 10.0)),
        coords=dict(time=("time", np.arange(nt) * 3600.0)))
    return ds, counts, pid, centers, dict(X=X, Y=Y, Z=Z), w


def run(ctx):
    R = importlib.import_module("ladim_plugins.utils.rasterize")
    C = importlib.import_module("ladim_plugins.utils.converter")
    S = importlib.import_module("ladim_plugins.sedimentation.ibm")
    import xarray as xr
    drv = Driver()
    if getattr(ctx, "widened", False):
        drv.available = False
    pend = []
    for c in range(ctx.n(120, 2500)):
        ds, counts, pid, centers, crd, w = make_dataset(ctx.rng)
        n = len(pid); nt = len(counts)
        ndim = ctx.rng.randrange(1, 4)
        keys = ["X", "Y", "Z"][:ndim]
        cs = dict(counts=counts, pid=pid.tolist(), centers=[c_.tolist() for c_ in centers[:ndim]], coords={k: crd[k].tolist() for k in keys}, w=w.tolist())
        ctx.case(key=repr(cs), nontrivial=n > 0, sample=dict(counts=counts, ndim=ndim) if c < 3 else None)
        ctx.branch("ndim=%d" % ndim); ctx.size("slots", nt); ctx.branch("empty_slot" if 0 in counts else "no_empty_slot")
        # ---- edges
        edges = []
        for d in range(ndim):
            e = R._edges(centers[d])
            edges.append(e)
            a = centers[d]
            ok = np.allclose(e[1:-1], 0.5 * (a[:-1] + a[1:]), rtol=0, atol=0) and abs((a[0] - e[0]) - (e[1] - a[0])) <= 1e-12 * (1 + abs(a[0])) \
                and abs((e[-1] - a[-1]) - (a[-1] - e[-2])) <= 1e-12 * (1 + abs(a[-1]))
            ctx.oracle(ok, "C19.edges.not_midway", "ladim_plugins/utils/rasterize.py::_edges", "centres %r -> edges %r" % (a.tolist(), e.tolist()), cs)
            if drv.available:
                pend.append(("edges", drv.ask("post.edges", L(a)), e, cs))
        # ---- raster
        try:
            ras = R.from_particles(ds, keys, [e.tolist() for e in edges], vdims=(None, "w"))
        except Exception as e:
            ctx.oracle(False, "C19.raster.raises", "ladim_plugins/utils/rasterize.py::from_particles", "raised %r" % (e,), cs)
            continue
        bc = ras["bincount"].values; bw = ras["w"].values
        idx = np.cumsum([0] + counts)
        for t in range(nt):
            sl = slice(idx[t], idx[t + 1])
            inside = np.ones(idx[t + 1] - idx[t], bool)
            for d, k in enumerate(keys):
                inside &= (crd[k][sl] >= edges[d][0]) & (crd[k][sl] <= edges[d][-1])
            ctx.oracle(bc[t].sum() == inside.sum(), "C19.raster.count_not_conserved", "ladim_plugins/utils/rasterize.py::from_particles",
                       "slot %d: cells sum to %r, %d particles inside the outer edges" % (t, bc[t].sum(), inside.sum()), dict(cs, slot=t))
            tw = w[sl][inside].sum()
            ctx.oracle(abs(bw[t].sum() - tw) <= 1e-9 * (1 + abs(tw)), "C19.raster.weight_not_conserved", "ladim_plugins/utils/rasterize.py::from_particles",
                       "slot %d: weighted cells sum to %r, total weight inside %r" % (t, bw[t].sum(), tw), dict(cs, slot=t))
            if drv.available:
                js = [drv.ask("post.bins", L(edges[d]), L(crd[k][sl])) for d, k in enumerate(keys)]
                pend.append(("hist", js, (bc[t], [len(e) - 1 for e in edges]), dict(cs, slot=t)))
        ctx.oracle(bool(np.all(ras["time"].values == ds["time"].values)), "C19.raster.times", "ladim_plugins/utils/rasterize.py::from_particles", "time stamps changed", cs)
        # ---- sqlite
        con = sqlite3.connect(":memory:")
        try:
            C.to_sqlite(ds, con)
            cur = con.cursor()
            prow = cur.execute("select * from particle").fetchall()
            irow = cur.execute("select time, pid, X from particle_instance").fetchall()
        finally:
            con.close()
        npart = ds.sizes["particle"]
        ctx.oracle(len(prow) == npart and sorted(r[0] for r in prow) == sorted(ds["farmid"].values.tolist()),
                   "C19.sqlite.particles", "ladim_plugins/utils/converter.py::add_particle_values", "%d particle rows for %d particles" % (len(prow), npart), cs)
        want = []
        for t in range(nt):
            for i in range(idx[t], idx[t + 1]):
                want.append((float(ds["time"].values[t]), float(pid[i]), float(crd["X"][i])))
        ctx.oracle(sorted(irow) == sorted(want) and len(irow) == n, "C19.sqlite.instances", "ladim_plugins/utils/converter.py::add_instance_values",
                   "%d instance rows for %d instances (or wrong time stamps)" % (len(irow), n), cs)
        if drv.available:
            pend.append(("slots", drv.ask("post.slots", L(counts, I), I(n)), counts, cs))
        # ---- settled particles
        if n > 0:
            st = S.get_settled_particles(ds)
            got = {int(p): float(x) for p, x in zip(st["pid"].values, st["X"].values)}
            last = {}
            for i, p in enumerate(pid):
                last[int(p)] = i
            ok = set(got) == set(last) and all(same_bits(got[p], crd["X"][last[p]]) for p in last) and len(st["pid"]) == len(last)
            ctx.oracle(ok, "C19.settled.not_last_instance", "ladim_plugins/sedimentation/ibm.py::get_settled_particles",
                       "selected instances are not the last per pid", cs)
            ctx.oracle(bool(np.all(st["farmid"].values == ds["farmid"].values[st["pid"].values])), "C19.settled.particle_vars",
                       "ladim_plugins/sedimentation/ibm.py::get_settled_particles", "per-particle variables misaligned", cs)
            if drv.available:
                # impl's chosen instance index recovered through a unique per-instance variable
                uid = ds.assign(uid=("particle_instance", np.arange(n, dtype=float)))
                st2 = S.get_settled_particles(uid)
                pend.append(("settled", drv.ask("post.settled", L(pid, I)), list(zip(st2["pid"].values.tolist(), [int(u) for u in st2["uid"].values])), cs))
    if drv.available:
        rep = drv.run()
        for kind, j, impl, cs in pend:
            if kind == "edges":
                t = rep[j][1]
                m = [unF(x) for x in t[1:]]
                ctx.eq("edges.length", len(impl), len(m), cs)
                for a, b in zip(impl, m):
                    ctx.eq_bits("edges", a, b, cs)
            elif kind == "hist":
                bc, shape = impl
                cells = None
                cols = []
                for jj in j:
                    cols.append([int(x) for x in rep[jj][1][1:]])
                model = np.zeros(shape)
                for row in zip(*cols) if cols and cols[0] else []:
                    if all(k >= 0 for k in row):
                        model[tuple(row)] += 1
                ctx.eq("histogram", bc.tolist(), model.tolist(), cs)
            elif kind == "slots":
                t = rep[j][1]
                it = iter(t); ns = int(next(it)); lens = []
                flat = []
                for _ in range(ns):
                    ln = int(next(it)); lens.append(ln)
                    flat += [int(next(it)) for _ in range(ln)]
                ctx.eq("slots.lengths", impl, lens, cs)
                ctx.eq("slots.concat", list(range(sum(impl))), flat, cs)
            elif kind == "settled":
                t = rep[j][1]
                m = [(int(t[1 + 2 * i]), int(t[2 + 2 * i])) for i in range(int(t[0]))]
                ctx.eq("settled", [(int(a), int(b)) for a, b in impl], m, cs)


def replay(payload):
    print("predicate:", payload.get("predicate"), "|", payload.get("detail"))
    return False
