"""C20 — vertical random walks keep a well-mixed tracer well-mixed (variance 2 K dt).

Statistical layer on the implementation (the property prescribes it): uniformity after constant-K
steps with reflecting boundaries against exact binomial tail bounds at a total false-alarm budget of
1e-9 per run; depth-varying LaBolle profiles inside the stability bound against the repository's own
10-bin criterion; displacement variance 2·K·dt for interior particles.  Correspondence: the LaBolle
scheme, `diffuse_const` and the boundary treatment are pinned bit-exactly by C05's chemicals cases
(re-run here on the mixing configurations) and `ladis` by draw replay."""
import math
import numpy as np
from . import ibmrun, c05
from .common import Driver, F, I, unF, RngRecorder
from .stubs import NumState, LinEnv, Obj, real_state

RULE = ("uniformity: N particles on a stratified grid over [0,H], 1..3 steps with step amplitude 0.1H..0.9H, 10 bins, "
        "exact two-sided binomial bound per bin (Bonferroni over all tests of the run, total 1e-9); LaBolle: linear, step "
        "and constant profiles with sub-steps / coarse sampling / cap inside the stability bound, criterion "
        "||post/pre-1|| < 0.1 on 10 bins; variance: N interior particles, sample variance within 7.5 estimator-sigmas of "
        "2*K*dt. Non-trivial: every statistical experiment; distinct by (module, parameters).")
ASSUMPTIONS = ["np.random.rand / randn / normal are uniform / standard normal (numpy legacy generator, trusted)",
               "measure-theoretic step 'piecewise isometry with constant preimage count => uniform law invariant' is cited, not formalised"]
ALPHA_TOTAL = 1e-9
MAX_TESTS = 4000


def binom_ok(k, n, p):
    from scipy.stats import binom
    a = ALPHA_TOTAL / MAX_TESTS / 2
    return not (binom.cdf(k, n, p) < a or binom.sf(k - 1, n, p) < a)


def uniform_test(ctx, label, z, H, site, params, lo=0.0):
    n = len(z)
    edges = lo + np.linspace(0, 1, 11) * (H - lo)
    inside = (z >= lo) & (z <= H)
    cnt = np.histogram(z, bins=edges)[0]
    ok_all = bool(inside.all())
    ctx.oracle(ok_all, "C20.%s.left_column" % label, site, "%d particles outside [%r,%r]" % (int((~inside).sum()), lo, H), params)
    for b in range(10):
        ctx.oracle(binom_ok(int(cnt[b]), n, 0.1), "C20.%s.uniformity" % label, site,
                   "bin %d holds %d of %d particles (expected %.0f +- %.0f)" % (b, cnt[b], n, n * 0.1, math.sqrt(n * 0.09)),
                   dict(params, counts=cnt.tolist()))


def strat(n, lo, hi):
    return lo + (np.arange(n) + 0.5) / n * (hi - lo)


def const_uniformity(ctx):
    N = ctx.n(40000, 400000)
    for rep in range(ctx.n(3, 8)):
        H = ctx.rng.choice([10.0, 40.0, 2.5])
        frac = ctx.rng.choice([0.15, 0.4, 0.8])
        steps = ctx.rng.choice([1, 2, 3])
        dt = ctx.rng.choice([60.0, 600.0])
        # chemicals: amplitude sqrt(2D)*sqrt(3dt) = frac*H
        D = (frac * H) ** 2 / (6 * dt)
        params = dict(module="chemicals", H=H, D=D, dt=dt, steps=steps, N=N, amplitude=frac * H)
        ibm = ibmrun.mod("chemicals").IBM(dict(dt=dt, ibm=dict(vertical_mixing=D, vertical_advection=False, land_collision="freeze")))
        env = LinEnv(h0=H)
        st = NumState(X=np.full(N, 5.0), Y=np.full(N, 5.0), Z=strat(N, 0, H), pid=np.arange(N), alive=np.ones(N, bool), age=np.zeros(N))
        with RngRecorder(ctx.sub_seed()):
            for _ in range(steps):
                ibm.update_ibm(env.grid(), st, env.forcing())
        ctx.case(key=("uni", "chemicals", H, D, dt, steps), nontrivial=True, sample=params if rep == 0 else None)
        ctx.branch("uniformity.chemicals_const")
        uniform_test(ctx, "chemicals_const", st.Z, H, "ladim_plugins/chemicals/ibm.py", params)
        # sedimentation constant mixing (normal draws; |d| < H for 7 sigma: sigma = frac*H/7 ... use frac*H/4, tail mass negligible but reflections handle up to 2H)
        sig = frac * H / 4
        value = sig ** 2 / (2 * dt)
        fn = ibmrun.mod("sedimentation").get_vdiff_fn(value)
        z = strat(N, 0, H)
        with RngRecorder(ctx.sub_seed()):
            for _ in range(steps):
                z = fn(z, np.full(N, H), dt, None)
        params = dict(module="sedimentation", H=H, value=value, dt=dt, steps=steps, N=N, sigma=sig)
        ctx.case(key=("uni", "sed", H, value, dt, steps), nontrivial=True)
        ctx.branch("uniformity.sedimentation_const")
        uniform_test(ctx, "sedimentation_const", z, H, "ladim_plugins/sedimentation/ibm.py", params)
        # sand eel
        Dse = sig ** 2 / (2 * dt)
        ibm = ibmrun.mod("sandeel").IBM(dict(dt=dt, ibm=dict(vertical_mixing=Dse, max_depth=1e4)))
        env = LinEnv(h0=H)
        g = env.grid(); g.grid = Obj(i0=0, j0=0)
        f = env.forcing(); f.forcing = Obj(temp=np.full((1, 8, 8), 7.0))
        st = real_state(dt=dt, X=np.full(N, 5.0), Y=np.full(N, 5.0), Z=strat(N, 0, H), stage=np.full(N, 3.0),
                        hatch_rate=np.full(N, 0.5), active=np.ones(N, bool))
        with RngRecorder(ctx.sub_seed()):
            for _ in range(steps):
                ibm.update_ibm(g, st, f)
        params = dict(module="sandeel", H=H, D=Dse, dt=dt, steps=steps, N=N, sigma=sig)
        ctx.case(key=("uni", "sandeel", H, Dse, dt, steps), nontrivial=True)
        ctx.branch("uniformity.sandeel")
        uniform_test(ctx, "sandeel", st.Z, H, "ladim_plugins/sandeel/ibm.py", params)
        # eel (band [lo, hi])
        lo = ctx.rng.choice([0.0, 5.0]); hi = lo + H
        case = dict(kind="lunar_eel", dt=dt, D=Dse, lo=lo, hi=hi, x=np.full(N, 5.0), y=np.full(N, 5.0), z=strat(N, lo, hi))
        res = None; ibm_e = None; st_e = None
        for _ in range(steps):
            res = ibmrun.eel_run(case, ctx.sub_seed(), None, None, ibm=ibm_e, state=st_e)
            ibm_e, st_e = res["ibm"], res["state"]
        params = dict(module="lunar_eel", lo=lo, hi=hi, D=Dse, dt=dt, steps=steps, N=N, sigma=sig)
        ctx.case(key=("uni", "eel", lo, hi, Dse, dt, steps), nontrivial=True)
        ctx.branch("uniformity.lunar_eel")
        uniform_test(ctx, "lunar_eel", st_e.Z, hi, "ladim_plugins/lunar_eel/ibm.py", params, lo=lo)


def labolle_profiles(ctx):
    """depth-varying diffusivity, inside the module's own stability bound: repository's 10-bin criterion"""
    N = ctx.n(100000, 400000)
    depth = 10.0
    AKs = 0.001
    profs = [
        ("step", lambda z: AKs / 100 + AKs * 99 / 100 * ((depth / 2 < z) & (z < depth / 2 + 1)), dict(dt=100, updates=ctx.n(30, 100))),
        ("step_substeps", lambda z: 10 * AKs / 100 + 10 * AKs * 99 / 100 * ((depth / 2 < z) & (z < depth / 2 + 1)), dict(dt=100, updates=1, vertdiff_dt=1)),
        ("linear", lambda z: 1e-4 + 2e-4 * z, dict(dt=100, updates=ctx.n(20, 60))),
        ("linear_coarse_cap", lambda z: 1e-4 + 2e-4 * z, dict(dt=100, updates=ctx.n(20, 60), vertdiff_dz=1.0, vertdiff_max=1.5e-3)),
        ("constant", lambda z: 0 * z + 5e-4, dict(dt=100, updates=ctx.n(20, 60))),
    ]
    for name, K, cfg in profs:
        conf = dict(land_collision="freeze", vertical_mixing="AKs")
        for k in ("vertdiff_dt", "vertdiff_dz", "vertdiff_max"):
            if k in cfg:
                conf[k] = cfg[k]
        import logging
        logging.disable(logging.WARNING)
        ibm = ibmrun.mod("chemicals").IBM(dict(dt=cfg["dt"], ibm=conf))
        logging.disable(logging.NOTSET)
        forcing = Obj(forcing=Obj(wvel=lambda x, y, z: x * 0, vertdiff=lambda x, y, z, n, _K=K: _K(z)))
        grid = Obj(sample_depth=lambda x, y: x * 0 + depth)
        st = NumState(X=np.ones(N), Y=np.ones(N), Z=np.arange(N) * depth / N, pid=np.arange(N), alive=np.ones(N, bool), age=np.zeros(N))
        bins = np.linspace(0, 1, 11) * depth
        pre = np.histogram(st.Z, bins=bins)[0]
        with RngRecorder(ctx.sub_seed()):
            for _ in range(cfg["updates"]):
                ibm.update_ibm(grid, st, forcing)
        post = np.histogram(st.Z, bins=bins)[0]
        dev = float(np.linalg.norm(np.divide(post, pre) - 1))
        params = dict(profile=name, cfg=cfg, N=N, deviation=dev, post=post.tolist())
        ctx.case(key=("labolle", name, repr(cfg)), nontrivial=True, sample=params)
        ctx.branch("labolle.%s" % name)
        ctx.oracle(dev < 0.1, "C20.chemicals_labolle.well_mixed", "ladim_plugins/chemicals/ibm.py",
                   "profile %s: ||post/pre - 1|| = %.4f >= 0.1" % (name, dev), params)
        ctx.oracle(bool(((st.Z >= 0) & (st.Z <= depth)).all()), "C20.chemicals_labolle.left_column",
                   "ladim_plugins/chemicals/ibm.py", "particles outside the column", params)


def variance_ok(ctx, label, disp, expected, kurt, site, params):
    n = len(disp)
    var = float(np.var(disp, ddof=1))
    tol = 7.5 * math.sqrt((kurt - 1) / n)
    ok = abs(var / expected - 1) <= tol
    ctx.oracle(ok, "C20.%s.variance" % label, site,
               "sample variance %.6g vs 2*K*dt = %.6g (ratio %.4f, tolerance %.4f)" % (var, expected, var / expected, tol),
               dict(params, variance=var, expected=expected))


def variances(ctx):
    N = ctx.n(40000, 300000)
    for rep in range(ctx.n(2, 6)):
        dt = ctx.rng.choice([60.0, 600.0])
        K = ctx.rng.choice([1e-4, 1e-3, 1e-2])
        H = 5000.0
        z0 = np.full(N, 2500.0)
        env = LinEnv(h0=H)
        p = dict(K=K, dt=dt, N=N)
        # chemicals const (uniform dW: kurtosis 1.8)
        ibm = ibmrun.mod("chemicals").IBM(dict(dt=dt, ibm=dict(vertical_mixing=K, vertical_advection=False, land_collision="freeze")))
        st = NumState(X=np.full(N, 5.0), Y=np.full(N, 5.0), Z=z0.copy(), pid=np.arange(N), alive=np.ones(N, bool), age=np.zeros(N))
        with RngRecorder(ctx.sub_seed()):
            ibm.update_ibm(env.grid(), st, env.forcing())
        ctx.case(key=("var", "chem", K, dt), nontrivial=True); ctx.branch("variance.chemicals_const")
        variance_ok(ctx, "chemicals_const", st.Z - z0, 2 * K * dt, 1.8, "ladim_plugins/chemicals/ibm.py", dict(p, module="chemicals"))
        # chemicals labolle with constant profile
        ibm = ibmrun.mod("chemicals").IBM(dict(dt=dt, ibm=dict(vertical_mixing="AKs", vertical_advection=False, land_collision="freeze")))
        env2 = LinEnv(h0=H, kkind=0, k0=K)
        st = NumState(X=np.full(N, 5.0), Y=np.full(N, 5.0), Z=z0.copy(), pid=np.arange(N), alive=np.ones(N, bool), age=np.zeros(N))
        with RngRecorder(ctx.sub_seed()):
            ibm.update_ibm(env2.grid(), st, env2.forcing())
        ctx.case(key=("var", "labolle", K, dt), nontrivial=True); ctx.branch("variance.chemicals_labolle")
        variance_ok(ctx, "chemicals_labolle", st.Z - z0, 2 * K * dt, 1.8, "ladim_plugins/chemicals/ibm.py", dict(p, module="chemicals labolle"))
        # sedimentation const
        fn = ibmrun.mod("sedimentation").get_vdiff_fn(K)
        with RngRecorder(ctx.sub_seed()):
            z = fn(z0.copy(), np.full(N, H), dt, None)
        ctx.case(key=("var", "sed", K, dt), nontrivial=True); ctx.branch("variance.sedimentation")
        variance_ok(ctx, "sedimentation_const", z - z0, 2 * K * dt, 3.0, "ladim_plugins/sedimentation/ibm.py", dict(p, module="sedimentation"))
        # mine
        M = ibmrun.mod("mine")
        ibm = M.IBM(dict(dt=dt, ibm=dict(lifespan=1e12, vertical_mixing=K, taucrit=1000, land_collision="freeze"), output_instance=[], nc_attributes={}))
        st = NumState(X=np.full(N, 5.0), Y=np.full(N, 5.0), Z=z0.copy(), pid=np.arange(N), alive=np.ones(N, bool), age=np.zeros(N),
                      active=np.ones(N), sink_vel=np.full(N, 1e-6), dt=dt, timestep=1)
        with RngRecorder(ctx.sub_seed()):
            ibm.update_ibm(env.grid(), st, Obj(velocity=lambda x, y, z, tstep=0: (x * 0, x * 0), forcing=Obj(wvel=lambda *a: 0)))
        ctx.case(key=("var", "mine", K, dt), nontrivial=True); ctx.branch("variance.mine")
        variance_ok(ctx, "mine", st.Z - z0, 2 * K * dt, 3.0, "ladim_plugins/mine/ibm.py", dict(p, module="mine"))
        # sand eel, eel, egg, lice, shrimp through the shared runners
        for name, mk in (("sandeel", dict(D=K, maxd=1e5)), ("lunar_eel", dict(D=K, lo=0.0, hi=5000.0)),
                         ("egg", dict(D=K)), ("salmon_lice", dict(D=K)), ("shrimp", None)):
            gen, runner = ibmrun.MODULES[name]
            case = gen(ctx.rng, n=N)
            case["dt"] = dt
            if "sdt" in case: case["sdt"] = dt
            zz = 10.0 if name in ("salmon_lice",) else (100.0 if name == "egg" else 2500.0)
            case["z"] = np.full(N, zz)
            if name == "sandeel":
                case.update(D=K, maxd=1e5, env=LinEnv(h0=H), active=np.ones(N, bool), stage=np.full(N, 3.0))
            elif name == "lunar_eel":
                case.update(D=K, lo=0.0, hi=5000.0)
            elif name in ("egg", "salmon_lice"):
                # identical forcing for all particles and salinity above the lice tolerance: the deterministic
                # velocity is the same for every particle, only the mixing term varies
                case["env"] = LinEnv(h0=500.0, t0=8.0, tz=0.0, s0=35.0, sz=0.0)
                kk = K if name == "egg" else min(K, 1e-3)
                case["D"] = kk
                case["buoy"] = np.full(N, 33.0) if name == "egg" else None
                if name == "salmon_lice":
                    case["age"] = np.full(N, 50.0)
            elif name == "shrimp":
                # a distinct coefficient per larval stage; the coefficient of a larva is that of the stage it is IN
                # (integer part of the fractional stage, stages >= 5 share the last one)
                stg = ctx.rng.choice([1.0, 1.75, 2.0, 2.6, 3.9, 4.5, 4.8, 5.0, 5.5])
                case["vm"] = [K * f for f in (1.0, 2.0, 4.0, 8.0, 16.0)]; case["vs"] = [0.0] * 5
                case["stage"] = np.full(N, stg); case["q"] = np.full(N, 0.5)
                case["D"] = case["vm"][min(5, int(stg)) - 1]
            res = runner(case, ctx.sub_seed(), None, None)
            Kuse = case.get("D", K)
            disp = res["after"]["z"] - case["z"]
            ctx.case(key=("var", name, Kuse, dt), nontrivial=True); ctx.branch("variance.%s" % name)
            variance_ok(ctx, name, disp, 2 * Kuse * dt, 3.0, "ladim_plugins/%s/ibm.py" % name, dict(p, module=name, K=Kuse))


def ladis_corr(ctx, drv):
    M = ibmrun.mod("sedimentation")
    pend = []
    for _ in range(ctx.n(200, 3000)):
        kk = ctx.rng.randrange(3); k0 = ctx.rng.choice([1e-4, 1e-3, 1e-2]); k1 = ctx.rng.choice([1e-5, 1e-3]); zs = ctx.rng.choice([1.0, 5.0])
        v0 = ctx.rng.choice([0.0, 1e-3, -1e-3]); v1 = ctx.rng.choice([0.0, 1e-5]); dt = ctx.rng.choice([1.0, 60.0, 600.0])
        n = ctx.rng.randrange(1, 5)
        x0 = np.array([ctx.rng.uniform(0, 10) for _ in range(n)])
        if kk == 0: K = lambda x, t: 0 * x + k0
        elif kk == 1: K = lambda x, t: k0 + k1 * x
        else: K = lambda x, t: np.where(x < zs, k0, k1)
        with RngRecorder(ctx.sub_seed(), ibmrun.tail_injector(ctx.rng)) as rec:
            out = M.ladis(x0, 0.0, dt, lambda x, t: v0 + v1 * x, K)
        ok = rec.schedule() == [("randn", (n,))]
        ctx.case(key=("ladis", kk, k0, k1, zs, v0, v1, dt, repr(x0.tolist())), nontrivial=True)
        ctx.branch("ladis")
        if not ok:
            ctx.disagreement("ladis.draw_schedule", "expected one randn(%d), got %r" % (n, rec.schedule()), dict(x0=x0))
            continue
        ctx.schedule_matches += 1
        if drv.available:
            xi = rec.log[0][3]
            for i in range(n):
                j = drv.ask("sed.ladis", I(kk), F(k0), F(k1), F(zs), F(v0), F(v1), F(dt), F(xi[i]), F(x0[i]))
                pend.append((j, out[i], dict(kk=kk, k0=k0, k1=k1, zs=zs, v0=v0, v1=v1, dt=dt, xi=xi[i], x0=x0[i])))
    if drv.available:
        rep = drv.run()
        for j, impl, cs in pend:
            ctx.eq_bits("ladis", impl, unF(rep[j][1][0]), cs)


def run(ctx):
    const_uniformity(ctx)
    labolle_profiles(ctx)
    variances(ctx)
    drv = Driver()
    if getattr(ctx, "widened", False):
        drv.available = False
    ladis_corr(ctx, drv)
    # scheme pinned bit-exactly (LaBolle predictor/corrector, reflections, sub-steps)
    if not getattr(ctx, "widened", False):
        c05.run(ctx, modules=None, oracle=lambda *a: None)


def replay(payload):
    print("predicate:", payload.get("predicate"), "|", payload.get("detail"))
    return False
