"""C20 — vertical random walks keep a well-mixed tracer well-mixed (variance 2 K dt).

Statistical layer on the implementation (the property prescribes it): uniformity after constant-K
steps with reflecting boundaries against exact binomial tail bounds at a total false-alarm budget of
1e-9 per run; depth-varying LaBolle profiles inside the stability bound against the repository's own
10-bin criterion; displacement variance 2·K·dt for interior particles.  Correspondence: the LaBolle
scheme, `diffuse_const` and the boundary treatment are pinned bit-exactly by C05's chemicals cases
(re-run here on the mixing configurations) and `ladis` by draw replay.  The transport histories (several updates of one
IBM object) are implementation-side oracles only: the driver has no operation for an IBM object with memory."""
import math
import os
import numpy as np
from . import ibmrun, c05
from .common import Driver, F, I, unF, RngRecorder
from .stubs import NumState, LinEnv, Obj, real_state

RULE = ("uniformity: N particles on a stratified grid over [0,H], 1..3 steps with step amplitude 0.1H..0.9H, 10 bins, "
        "exact two-sided binomial bound per bin (Bonferroni over all tests of the run, total 1e-9); LaBolle: linear, step "
        "and constant profiles with sub-steps / coarse sampling / cap inside the stability bound, criterion "
        "||post/pre-1|| < 0.1 on 10 bins; variance: N interior particles, sample variance within 7.5 estimator-sigmas of "
        "2*K*dt. Status flags / histories through IBM.update_ibm (sedimentation, mine): N particles with `active` 0/1/2 "
        "given at release (float / integer array, booleans of the real LADiM State, mine also without the variable) or "
        "assigned by the module in a history (on the bed of a shallow basin -> 1..3 strong-current updates -> carried over "
        "a deep calm basin; or 150 strong-current updates -> the current slackens) plus a freshly released control group; "
        "critical stress absent / off / number / {method: constant} / grain-size raster (bin, poly); mixing number / "
        "{method: constant} / bounded_linear (capped region); ONE observed update in calm / strong / patchy current; per "
        "(origin, status before the step) group of >= 2000 interior suspended particles the sample variance of the random "
        "displacement against 2*K*dt by the exact chi-square bound (same Bonferroni budget); sedimentation IBM uniformity "
        "for stratified clouds of status 1 and 2; sand eel larvae released as such / hatched by the module. "
        "Sub-step lengths (every run, every class): chemicals with vertdiff_dt NOT a divisor of dt (0.08..0.97 dt, first "
        "experiment from a fixed list of fractions) / LARGER than dt (1.02..20 dt) / a divisor (dt/2..dt/10) / equal / "
        "absent, float or integer dt 60..3600 and vertdiff_dt; diffusivity as a forcing variable (any name) constant / "
        "above the cap vertdiff_max / layer-wise constant (1000 m layers, factors 0.25..4) with coarse sampling vertdiff_dz "
        "and/or cap, or a number (diffuse_const); vertical advection absent / off / on with constant w; lifespan; stub or "
        "real LADiM State; 1..3 updates, the last observed; per layer group of N particles (scattered +-50 m round the "
        "layer centre, reach of the bounded increments < half a layer) sample variance of the displacement minus dt*w "
        "against 2*K*dt (K = coefficient in force in the layer) by an exact Bernstein bound for sums of <= m+1 uniform "
        "increments (level 1e-9/4000 per test); LaBolle constant-K uniformity with such sub-steps, coarse sampling and "
        "cap >= K (binomial bound); sedimentation ladis on intervals [t0, t1] with t0 = 0 / != 0, lengths 0.5..600 s, "
        "constant or layer-wise constant K, constant velocity, flat or column array: chi-square bound on 2*K*(t1-t0). "
        "Transport histories (every run): 2..4 updates of ONE IBM instance, N particles well mixed over their local column "
        "(relative depth Z/H on a shuffled stratified grid); between updates the tracker moves all / a random half / none "
        "of them to deeper or shallower water following the terrain (Z/H kept), re-scatters them, leaves 30 % exactly in "
        "place, or replaces a third by new releases (same count); terrain = five flat terraces h..2.5h (h 2.5..40 m, 40 "
        "cells wide) or, where the module does not move particles horizontally itself, a sloping bed; chemicals: EVERY "
        "land_collision (absent / reposition / freeze / coastal_diffusion on a chequerboard coast) x horzdiff_type (absent / "
        "smagorinsky, horzdiff_min/max) pair, mixing a number or a forcing variable (sub-step classes, vertdiff_dz, cap >= "
        "K), step amplitude 0.15..0.8 of the shallowest column, vertical_advection absent / on / off with w = 0, lifespan, "
        "stub or real LADiM State, the first transition of the first history of every pair to another depth; sedimentation "
        "IBM (constant mixing, statuses 1 and 2, two basins, critical stress forms, currents), sand eel larvae (max_depth "
        "below every bed / between bed depths), eel (band; moon up = swims itself / down): normal increments with sigma <= "
        "1/8 column. After EVERY update: every particle inside its column at its CURRENT place (harness terrain function), "
        "Z/H uniform on 10 bins (binomial bound, same budget), < 3 particles within 1e-11 column depths of surface or bed "
        "(false alarm < 1e-16; not sedimentation, which sinks). Mine: variance 2*K*dt (chi-square bound) of the last update "
        "of such a history over 2000..7500 m terraces, land_collision absent / reposition / freeze, with / without `active`. "
        "Behavioural states (every run): salmon lice - N interior lice (depth 10 m +- up to 6 m, step standard deviation <= "
        "0.78 m, dt 60..3600 float / int, vertical_mixing 5e-5..5e-3 or omitted = default), half nauplii (age 0..35) half "
        "copepodids (45..160), in four water masses side by side with surface salinities from 3..35 (first experiment: 12 / "
        "25 / 31 / 35, at night) and temperatures 4..14, optional haline stratification 0.2 / 0.5 per m and thermal -0.1 per m, "
        "timestamps night / day / twilight at 60 / 70 N, 1..2 updates of one instance (last observed), stub or real State; "
        "groups (stage, salinity below / inside / above the stage's tolerance band, avoiding or not by the recorded "
        "tolerance draw, lit or dark with margin) of >= 2000 lice: sample variance of the displacement against 2*K*dt (exact "
        "chi-square bound). Egg - three water masses (temp 2..14, salt 30..35, uniform in depth), egg_buoy = local salinity "
        "+ {0, +-0.2, +-1, +-3} (neutral / sinking / rising), egg_diam 0.5..3 mm (Stokes / Dallavalle), dt 60..3600, K "
        "1e-4..1e-2, eggs round 100 m of the 200 m column; per (water mass, buoyancy) group. Shrimp - five stages with "
        "their own mixing coefficient (K0 x 1..16, shuffled) and swimming speed 0..0.03 m/s, day / night ranges of preferred "
        "depth, larvae further than dt*speed + 9.5 sigma above resp. below both ranges (swim down / up the full step), depth "
        "quantile given or drawn by the module, stage 0 (uninitialised) included, any timestamp; per (stage, side) group. "
        "Mine - vertical_advection on with a constant vertical current +-1e-4..5e-3 m/s, statuses 1 / 2 / no `active`. "
        "Non-trivial: every statistical experiment; distinct by (module, parameters).")
ASSUMPTIONS = ["np.random.rand / randn / normal are uniform / standard normal (numpy legacy generator, trusted)",
               "measure-theoretic step 'piecewise isometry with constant preimage count => uniform law invariant' is cited, not formalised"]
ALPHA_TOTAL = 1e-9
MAX_TESTS = 4000


def binom_ok(k, n, p):
    from scipy.stats import binom
    a = ALPHA_TOTAL / MAX_TESTS / 2
    return not (binom.cdf(k, n, p) < a or binom.sf(k - 1, n, p) < a)


def uniform_test(ctx, label, z, H, site, params, lo=0.0):
    n = len(z)
    edges = lo + np.linspace(0, 1, 11) * (H - lo)
    inside = (z >= lo) & (z <= H)
    cnt = np.histogram(z, bins=edges)[0]
    ok_all = bool(inside.all())
    ctx.oracle(ok_all, "C20.%s.left_column" % label, site, "%d particles outside [%r,%r]" % (int((~inside).sum()), lo, H), params)
    for b in range(10):
        ctx.oracle(binom_ok(int(cnt[b]), n, 0.1), "C20.%s.uniformity" % label, site,
                   "bin %d holds %d of %d particles (expected %.0f +- %.0f)" % (b, cnt[b], n, n * 0.1, math.sqrt(n * 0.09)),
                   dict(params, counts=cnt.tolist()))


def strat(n, lo, hi):
    return lo + (np.arange(n) + 0.5) / n * (hi - lo)


def const_uniformity(ctx):
    N = ctx.n(40000, 400000)
    for rep in range(ctx.n(3, 8)):
        H = ctx.rng.choice([10.0, 40.0, 2.5])
        frac = ctx.rng.choice([0.15, 0.4, 0.8])
        steps = ctx.rng.choice([1, 2, 3])
        dt = ctx.rng.choice([60.0, 600.0])
        # chemicals: amplitude sqrt(2D)*sqrt(3dt) = frac*H
        D = (frac * H) ** 2 / (6 * dt)
        params = dict(module="chemicals", H=H, D=D, dt=dt, steps=steps, N=N, amplitude=frac * H)
        ibm = ibmrun.mod("chemicals").IBM(dict(dt=dt, ibm=dict(vertical_mixing=D, vertical_advection=False, land_collision="freeze")))
        env = LinEnv(h0=H)
        st = NumState(X=np.full(N, 5.0), Y=np.full(N, 5.0), Z=strat(N, 0, H), pid=np.arange(N), alive=np.ones(N, bool), age=np.zeros(N))
        with RngRecorder(ctx.sub_seed()):
            for _ in range(steps):
                ibm.update_ibm(env.grid(), st, env.forcing())
        ctx.case(key=("uni", "chemicals", H, D, dt, steps), nontrivial=True, sample=params if rep == 0 else None)
        ctx.branch("uniformity.chemicals_const")
        uniform_test(ctx, "chemicals_const", st.Z, H, "ladim_plugins/chemicals/ibm.py", params)
        # sedimentation constant mixing (normal draws): sigma = frac*H/8 <= H/10, so a displacement beyond one water depth
        # (which two reflections cannot bring back: the property's proviso) is a >= 10-sigma event, probability < 1e-22 per
        # particle-step (with frac*H/4 it was 5 sigma, i.e. ~1e-3 per run: a false-alarm source found by the r6 review)
        sig = frac * H / 8
        value = sig ** 2 / (2 * dt)
        fn = ibmrun.mod("sedimentation").get_vdiff_fn(value)
        z = strat(N, 0, H)
        with RngRecorder(ctx.sub_seed()):
            for _ in range(steps):
                z = fn(z, np.full(N, H), dt, None)
        params = dict(module="sedimentation", H=H, value=value, dt=dt, steps=steps, N=N, sigma=sig)
        ctx.case(key=("uni", "sed", H, value, dt, steps), nontrivial=True)
        ctx.branch("uniformity.sedimentation_const")
        uniform_test(ctx, "sedimentation_const", z, H, "ladim_plugins/sedimentation/ibm.py", params)
        # sand eel
        Dse = sig ** 2 / (2 * dt)
        ibm = ibmrun.mod("sandeel").IBM(dict(dt=dt, ibm=dict(vertical_mixing=Dse, max_depth=1e4)))
        env = LinEnv(h0=H)
        g = env.grid(); g.grid = Obj(i0=0, j0=0)
        f = env.forcing(); f.forcing = Obj(temp=np.full((1, 8, 8), 7.0))
        st = real_state(dt=dt, X=np.full(N, 5.0), Y=np.full(N, 5.0), Z=strat(N, 0, H), stage=np.full(N, 3.0),
                        hatch_rate=np.full(N, 0.5), active=np.ones(N, bool))
        with RngRecorder(ctx.sub_seed()):
            for _ in range(steps):
                ibm.update_ibm(g, st, f)
        params = dict(module="sandeel", H=H, D=Dse, dt=dt, steps=steps, N=N, sigma=sig)
        ctx.case(key=("uni", "sandeel", H, Dse, dt, steps), nontrivial=True)
        ctx.branch("uniformity.sandeel")
        uniform_test(ctx, "sandeel", st.Z, H, "ladim_plugins/sandeel/ibm.py", params)
        # eel (band [lo, hi])
        lo = ctx.rng.choice([0.0, 5.0]); hi = lo + H
        case = dict(kind="lunar_eel", dt=dt, D=Dse, lo=lo, hi=hi, x=np.full(N, 5.0), y=np.full(N, 5.0), z=strat(N, lo, hi))
        res = None; ibm_e = None; st_e = None
        for _ in range(steps):
            res = ibmrun.eel_run(case, ctx.sub_seed(), None, None, ibm=ibm_e, state=st_e)
            ibm_e, st_e = res["ibm"], res["state"]
        params = dict(module="lunar_eel", lo=lo, hi=hi, D=Dse, dt=dt, steps=steps, N=N, sigma=sig)
        ctx.case(key=("uni", "eel", lo, hi, Dse, dt, steps), nontrivial=True)
        ctx.branch("uniformity.lunar_eel")
        uniform_test(ctx, "lunar_eel", st_e.Z, hi, "ladim_plugins/lunar_eel/ibm.py", params, lo=lo)


def labolle_profiles(ctx):
    """depth-varying diffusivity, inside the module's own stability bound: repository's 10-bin criterion"""
    N = ctx.n(100000, 400000)
    depth = 10.0
    AKs = 0.001
    profs = [
        ("step", lambda z: AKs / 100 + AKs * 99 / 100 * ((depth / 2 < z) & (z < depth / 2 + 1)), dict(dt=100, updates=ctx.n(30, 100))),
        ("step_substeps", lambda z: 10 * AKs / 100 + 10 * AKs * 99 / 100 * ((depth / 2 < z) & (z < depth / 2 + 1)), dict(dt=100, updates=1, vertdiff_dt=1)),
        ("linear", lambda z: 1e-4 + 2e-4 * z, dict(dt=100, updates=ctx.n(20, 60))),
        ("linear_coarse_cap", lambda z: 1e-4 + 2e-4 * z, dict(dt=100, updates=ctx.n(20, 60), vertdiff_dz=1.0, vertdiff_max=1.5e-3)),
        ("constant", lambda z: 0 * z + 5e-4, dict(dt=100, updates=ctx.n(20, 60))),
    ]
    for name, K, cfg in profs:
        conf = dict(land_collision="freeze", vertical_mixing="AKs")
        for k in ("vertdiff_dt", "vertdiff_dz", "vertdiff_max"):
            if k in cfg:
                conf[k] = cfg[k]
        import logging
        logging.disable(logging.WARNING)
        ibm = ibmrun.mod("chemicals").IBM(dict(dt=cfg["dt"], ibm=conf))
        logging.disable(logging.NOTSET)
        forcing = Obj(forcing=Obj(wvel=lambda x, y, z: x * 0, vertdiff=lambda x, y, z, n, _K=K: _K(z)))
        grid = Obj(sample_depth=lambda x, y: x * 0 + depth)
        st = NumState(X=np.ones(N), Y=np.ones(N), Z=np.arange(N) * depth / N, pid=np.arange(N), alive=np.ones(N, bool), age=np.zeros(N))
        bins = np.linspace(0, 1, 11) * depth
        pre = np.histogram(st.Z, bins=bins)[0]
        with RngRecorder(ctx.sub_seed()):
            for _ in range(cfg["updates"]):
                ibm.update_ibm(grid, st, forcing)
        post = np.histogram(st.Z, bins=bins)[0]
        dev = float(np.linalg.norm(np.divide(post, pre) - 1))
        params = dict(profile=name, cfg=cfg, N=N, deviation=dev, post=post.tolist())
        ctx.case(key=("labolle", name, repr(cfg)), nontrivial=True, sample=params)
        ctx.branch("labolle.%s" % name)
        ctx.oracle(dev < 0.1, "C20.chemicals_labolle.well_mixed", "ladim_plugins/chemicals/ibm.py",
                   "profile %s: ||post/pre - 1|| = %.4f >= 0.1" % (name, dev), params)
        ctx.oracle(bool(((st.Z >= 0) & (st.Z <= depth)).all()), "C20.chemicals_labolle.left_column",
                   "ladim_plugins/chemicals/ibm.py", "particles outside the column", params)


def variance_ok(ctx, label, disp, expected, kurt, site, params):
    n = len(disp)
    var = float(np.var(disp, ddof=1))
    tol = 7.5 * math.sqrt((kurt - 1) / n)
    ok = abs(var / expected - 1) <= tol
    ctx.oracle(ok, "C20.%s.variance" % label, site,
               "sample variance %.6g vs 2*K*dt = %.6g (ratio %.4f, tolerance %.4f)" % (var, expected, var / expected, tol),
               dict(params, variance=var, expected=expected))


def variances(ctx):
    N = ctx.n(40000, 300000)
    for rep in range(ctx.n(2, 6)):
        dt = ctx.rng.choice([60.0, 600.0])
        K = ctx.rng.choice([1e-4, 1e-3, 1e-2])
        H = 5000.0
        z0 = np.full(N, 2500.0)
        env = LinEnv(h0=H)
        p = dict(K=K, dt=dt, N=N)
        # chemicals const (uniform dW: kurtosis 1.8)
        ibm = ibmrun.mod("chemicals").IBM(dict(dt=dt, ibm=dict(vertical_mixing=K, vertical_advection=False, land_collision="freeze")))
        st = NumState(X=np.full(N, 5.0), Y=np.full(N, 5.0), Z=z0.copy(), pid=np.arange(N), alive=np.ones(N, bool), age=np.zeros(N))
        with RngRecorder(ctx.sub_seed()):
            ibm.update_ibm(env.grid(), st, env.forcing())
        ctx.case(key=("var", "chem", K, dt), nontrivial=True); ctx.branch("variance.chemicals_const")
        variance_ok(ctx, "chemicals_const", st.Z - z0, 2 * K * dt, 1.8, "ladim_plugins/chemicals/ibm.py", dict(p, module="chemicals"))
        # chemicals labolle with constant profile
        ibm = ibmrun.mod("chemicals").IBM(dict(dt=dt, ibm=dict(vertical_mixing="AKs", vertical_advection=False, land_collision="freeze")))
        env2 = LinEnv(h0=H, kkind=0, k0=K)
        st = NumState(X=np.full(N, 5.0), Y=np.full(N, 5.0), Z=z0.copy(), pid=np.arange(N), alive=np.ones(N, bool), age=np.zeros(N))
        with RngRecorder(ctx.sub_seed()):
            ibm.update_ibm(env2.grid(), st, env2.forcing())
        ctx.case(key=("var", "labolle", K, dt), nontrivial=True); ctx.branch("variance.chemicals_labolle")
        variance_ok(ctx, "chemicals_labolle", st.Z - z0, 2 * K * dt, 1.8, "ladim_plugins/chemicals/ibm.py", dict(p, module="chemicals labolle"))
        # sedimentation const
        fn = ibmrun.mod("sedimentation").get_vdiff_fn(K)
        with RngRecorder(ctx.sub_seed()):
            z = fn(z0.copy(), np.full(N, H), dt, None)
        ctx.case(key=("var", "sed", K, dt), nontrivial=True); ctx.branch("variance.sedimentation")
        variance_ok(ctx, "sedimentation_const", z - z0, 2 * K * dt, 3.0, "ladim_plugins/sedimentation/ibm.py", dict(p, module="sedimentation"))
        # mine
        M = ibmrun.mod("mine")
        ibm = M.IBM(dict(dt=dt, ibm=dict(lifespan=1e12, vertical_mixing=K, taucrit=1000, land_collision="freeze"), output_instance=[], nc_attributes={}))
        st = NumState(X=np.full(N, 5.0), Y=np.full(N, 5.0), Z=z0.copy(), pid=np.arange(N), alive=np.ones(N, bool), age=np.zeros(N),
                      active=np.ones(N), sink_vel=np.full(N, 1e-6), dt=dt, timestep=1)
        with RngRecorder(ctx.sub_seed()):
            ibm.update_ibm(env.grid(), st, Obj(velocity=lambda x, y, z, tstep=0: (x * 0, x * 0), forcing=Obj(wvel=lambda *a: 0)))
        ctx.case(key=("var", "mine", K, dt), nontrivial=True); ctx.branch("variance.mine")
        variance_ok(ctx, "mine", st.Z - z0, 2 * K * dt, 3.0, "ladim_plugins/mine/ibm.py", dict(p, module="mine"))
        # sand eel, eel, egg, lice, shrimp through the shared runners
        for name, mk in (("sandeel", dict(D=K, maxd=1e5)), ("lunar_eel", dict(D=K, lo=0.0, hi=5000.0)),
                         ("egg", dict(D=K)), ("salmon_lice", dict(D=K)), ("shrimp", None)):
            gen, runner = ibmrun.MODULES[name]
            case = gen(ctx.rng, n=N)
            case["dt"] = dt
            if "sdt" in case: case["sdt"] = dt
            zz = 10.0 if name in ("salmon_lice",) else (100.0 if name == "egg" else 2500.0)
            case["z"] = np.full(N, zz)
            if name == "sandeel":
                case.update(D=K, maxd=1e5, env=LinEnv(h0=H), active=np.ones(N, bool), stage=np.full(N, 3.0))
            elif name == "lunar_eel":
                case.update(D=K, lo=0.0, hi=5000.0)
            elif name in ("egg", "salmon_lice"):
                # identical forcing for all particles and salinity above the lice tolerance: the deterministic
                # velocity is the same for every particle, only the mixing term varies
                case["env"] = LinEnv(h0=500.0, t0=8.0, tz=0.0, s0=35.0, sz=0.0)
                kk = K if name == "egg" else min(K, 1e-3)
                case["D"] = kk
                case["buoy"] = np.full(N, 33.0) if name == "egg" else None
                if name == "salmon_lice":
                    case["age"] = np.full(N, 50.0)
            elif name == "shrimp":
                # a distinct coefficient per larval stage; the coefficient of a larva is that of the stage it is IN
                # (integer part of the fractional stage, stages >= 5 share the last one)
                stg = ctx.rng.choice([1.0, 1.75, 2.0, 2.6, 3.9, 4.5, 4.8, 5.0, 5.5])
                case["vm"] = [K * f for f in (1.0, 2.0, 4.0, 8.0, 16.0)]; case["vs"] = [0.0] * 5
                case["stage"] = np.full(N, stg); case["q"] = np.full(N, 0.5)
                case["D"] = case["vm"][min(5, int(stg)) - 1]
            res = runner(case, ctx.sub_seed(), None, None)
            Kuse = case.get("D", K)
            disp = res["after"]["z"] - case["z"]
            ctx.case(key=("var", name, Kuse, dt), nontrivial=True); ctx.branch("variance.%s" % name)
            variance_ok(ctx, name, disp, 2 * Kuse * dt, 3.0, "ladim_plugins/%s/ibm.py" % name, dict(p, module=name, K=Kuse))


# =====================================================================================================================
# Particle status flags and multi-step histories (through the public IBM.update_ibm)
#
# The sedimentation and mine modules carry a per-particle status `active`: 0 = lying on the bed, 1 = in suspension,
# 2 = in suspension after having been buried and resuspended (the marker the modules assign themselves at the end of
# `update_ibm`).  Sand eel: 0 = egg / settled juvenile, 1 = drifting larva (assigned by the development functions).
# The property speaks about the tracer in the water column, i.e. EVERY particle that is in suspension, whatever its
# status flag says about its past and whatever the local bottom stress / critical stress is in the step observed.
# Experiments below: statuses given at release (0/1/2 in a float or integer array, booleans of the real LADiM State,
# for mine also a state without the variable) or produced by the module itself in a history (on the bed -> strong
# current resuspends -> the particle drifts into deep calm water, or the current slackens), then ONE observed update in
# calm / strong / patchy current, with the critical stress absent / a number / a {method: constant} mapping / a
# grain-size raster (bin and poly), the mixing a number / {method: constant} / bounded_linear (capped region, where the
# coefficient is the constant max_diff).
# =====================================================================================================================

KAPPA = 0.41            # von Karman constant of the bounded_linear mixing (module documentation)
DRAG = 0.003            # bottom drag coefficient: ustar^2 = DRAG * |u_bottom|^2, tau = 1000 * ustar^2


def chi2_variance_ok(ctx, label, disp, expected, site, params):
    """displacements that are normal with variance `expected` (all modules here draw randn / normal): (n-1) s^2 /
    expected is chi-square with n-1 degrees of freedom EXACTLY, so the two-sided test at level ALPHA_TOTAL / MAX_TESTS
    has an exact false-alarm probability; it shares the Bonferroni budget of the binomial tests (the run makes far
    fewer than MAX_TESTS statistical tests: about 2100 in the thorough tier, transport histories included; the
    behavioural-state experiments add about 100 (quick) / 300 (thorough))."""
    from scipy.stats import chi2
    n = len(disp)
    var = float(np.var(disp, ddof=1))
    stat = (n - 1) * var / expected
    a = ALPHA_TOTAL / MAX_TESTS / 2
    ok = not (chi2.cdf(stat, n - 1) < a or chi2.sf(stat, n - 1) < a)
    ctx.oracle(ok, "C20.%s.variance" % label, site,
               "group %s: sample variance %.6g of the random displacement of %d interior suspended particles vs 2*K*dt = %.6g "
               "(ratio %.4f; exact chi-square bound, level %.1e)" % (params.get("group"), var, n, expected, var / expected, 2 * a),
               dict(params, variance=var, expected=expected, n=n))


class BasinEnv:
    """shallow basin (x < 10, depth hs) next to a deep one (x >= 10, depth hd); bottom current speed by pattern:
    'calm' = sc everywhere, 'strong' = ss everywhere, 'patchy' = sc south of y = 10 and ss north of it;
    (lon, lat) = (x, y)"""

    def __init__(self, hs, hd, sc, ss):
        self.hs, self.hd, self.sc, self.ss = hs, hd, sc, ss
        self.pattern = "calm"

    def depth(self, x, y):
        return np.where(np.asarray(x, float) < 10.0, self.hs, self.hd)

    def speed(self, x, y):
        y = np.asarray(y, float)
        if self.pattern == "calm":
            return np.zeros_like(y) + self.sc
        if self.pattern == "strong":
            return np.zeros_like(y) + self.ss
        return np.where(y < 10.0, self.sc, self.ss)

    def velocity(self, x, y, z, tstep=0):
        s = self.speed(x, y)
        return s, np.zeros_like(s)

    def grid(self):
        return Obj(sample_depth=self.depth, lonlat=lambda x, y: (np.asarray(x, float) + 0.0, np.asarray(y, float) + 0.0))

    def forcing(self):
        return Obj(velocity=self.velocity, forcing=Obj(wvel=lambda x, y, z, *a, **k: np.zeros_like(np.asarray(z, float))))


def write_grain_raster(ctx, tmp):
    """5 x 5 grain-size raster with cell centres at lon, lat = 0, 5, .., 20 (stub grid: lon = x, lat = y).
    Critical stresses it can produce: bin 0.06 / 0.12 / 0.32, poly between 0.0591 and 0.4416 (grain size 250) or the
    default 0.12: all above tau(0.05 m/s) = 0.0075 and below tau(1 m/s) = 3."""
    import xarray as xr
    c = np.arange(5) * 5.0
    vals = np.array([[ctx.rng.choice([np.nan, 0.0, 30.0, 100.0, 250.0]) for _ in range(5)] for _ in range(5)])
    p = os.path.join(tmp, "grain%d.nc" % ctx.rng.randrange(10 ** 9))
    xr.Dataset({"grain_size": (("latitude", "longitude"), vals)}, coords=dict(latitude=c, longitude=c)).to_netcdf(p)
    return p


def make_flag_state(carrier, arr, dt, timestep):
    """carrier: 'float' / 'int' = stub state whose `active` array keeps 0/1/2; 'bool' = the real LADiM State (coerces
    `active` to booleans); 'none' = a state without the variable (mine only)"""
    arr = {k: np.array(v) for k, v in arr.items()}
    n = len(arr["X"])
    act = arr.pop("active")
    if carrier == "bool":
        return real_state(dt=dt, timestep=timestep, active=act != 0, **arr)
    if carrier == "none":
        return NumState(alive=np.ones(n, bool), pid=np.arange(n), dt=dt, timestep=timestep, **arr)
    return NumState(active=act.astype(float if carrier == "float" else np.int64), alive=np.ones(n, bool), pid=np.arange(n),
                    dt=dt, timestep=timestep, **arr)


def state_arrays(st, carrier):
    d = dict(X=np.array(st["X"], float), Y=np.array(st["Y"], float), Z=np.array(st["Z"], float),
             age=np.array(st["age"], float), sink_vel=np.array(st["sink_vel"], float))
    d["active"] = np.ones(len(d["X"])) if carrier == "none" else np.array(st["active"]).astype(float)
    return d


def flag_history_experiment(ctx, module, tmp):
    rng = ctx.rng
    N = ctx.n(40000, 200000)
    dt = rng.choice([60.0, 600.0])
    K = rng.choice([1e-4, 1e-3, 1e-2])
    sigma = math.sqrt(2 * K * dt)
    site = "ladim_plugins/%s/ibm.py" % module
    M = ibmrun.mod(module)
    # ---- configuration
    if module == "sedimentation":
        carrier = rng.choice(["float", "float", "int", "bool"])
        mixform = rng.choice(["number", "dict", "bounded_linear"])
        mixing = {"number": K, "dict": dict(method="constant", value=K), "bounded_linear": dict(method="bounded_linear", max_diff=K)}[mixform]
        tform = rng.choice(["absent", "number", "dict", "grain_size_bin", "grain_size_poly"])
    else:
        carrier = rng.choice(["float", "float", "int", "bool", "none"])
        mixform = "number"
        mixing = K
        # a state without the `active` variable is a valid set-up only without resuspension (`resuspend` needs it)
        tform = rng.choice(["absent", "off"]) if carrier == "none" else rng.choice(["absent", "off", "number", "number"])
    tc = rng.choice([0.06, 0.12, 0.32, 1.0])
    conf = dict(lifespan=1e12, vertical_mixing=mixing)
    if tform in ("number", "dict"):
        conf["taucrit"] = tc if tform == "number" else dict(method="constant", value=tc)
        s_at = math.sqrt(tc / (1000 * DRAG))
        sc, ss = rng.choice([0.0, 0.3 * s_at, 0.9 * s_at]), rng.choice([1.1 * s_at, 2 * s_at + 0.05])
    elif tform.startswith("grain"):
        conf["taucrit"] = dict(method=tform, source=write_grain_raster(ctx, tmp), varname="grain_size")
        sc, ss = rng.choice([0.0, 0.05]), 1.0
    else:
        if tform == "off":
            conf["taucrit"] = rng.choice([1000, 5000.0])
        sc, ss = rng.choice([0.0, 0.05]), 1.0
    if mixform == "bounded_linear" and sc == 0.0:
        sc = 0.05 if not tform in ("number", "dict") else 0.3 * s_at      # the coefficient is kappa*ustar*(h-z): needs a current
    resusp = tform in ("number", "dict", "grain_size_bin", "grain_size_poly")
    if module == "mine":
        conf["land_collision"] = "freeze"
        if rng.random() < 0.5:
            conf["vertical_advection"] = rng.choice([False, True])       # the stub's vertical velocity is 0
        config = dict(dt=dt, ibm=conf, output_instance=[], nc_attributes={})
    else:
        config = dict(dt=dt, ibm=conf)
    ibm = M.IBM(config)
    hist = rng.choice(["released", "drift", "slack"]) if (resusp and carrier != "none") else "released"
    if mixform == "bounded_linear" and hist == "slack":
        hist = "drift"
    observe = rng.choice(["calm", "calm", "strong", "patchy"])
    hd = 5000.0
    hs = 40 * sigma if hist == "slack" else rng.choice([200.0, 400.0])
    env = BasinEnv(hs, hd, sc, ss)
    grid, forcing = env.grid(), env.forcing()
    rs = np.random.RandomState(ctx.sub_seed())            # bulk per-particle inputs (positions, sinking velocities)
    sinks = [1e-7, 1e-6, 1e-5]
    params = dict(module=module, dt=dt, K=K, N=N, carrier=carrier, mixing=repr(mixing), taucrit=repr(conf.get("taucrit")).replace(tmp + os.sep, ""),
                  calm_speed=sc, strong_speed=ss, history=hist, observed_step=observe, depths=(hs, hd))

    def update(st, rec):
        st.timestep = st.timestep + 1
        ibm.update_ibm(grid, st, forcing)
        del rec.log[:]                                   # long histories: do not keep the draws

    with RngRecorder(ctx.sub_seed()) as rec:
        if hist == "released":
            # statuses as the release file gives them: 1 and 2 in the deep basin's interior, 0 on its bed
            x = rs.uniform(11, 19, N); y = rs.uniform(2, 19, N)
            flag = rs.choice([0.0, 1.0, 2.0], size=N, p=[0.1, 0.45, 0.45])
            z = np.where(flag == 0, hd, rs.uniform(1000.0, 4000.0, N))
            sink = rs.choice(sinks + ([0.0] if module == "sedimentation" else []), size=N)   # 0 = "draw one for me"
            origin = np.where(flag == 0, -1, 0)
            st = make_flag_state(carrier, dict(X=x, Y=y, Z=z, active=flag, age=np.zeros(N), sink_vel=sink), dt, 0)
        else:
            # on the bed of the shallow basin, status 0; the strong current resuspends (the module assigns the statuses)
            x = rs.uniform(2, 9, N); y = rs.uniform(2, 19, N)
            st = make_flag_state(carrier, dict(X=x, Y=y, Z=np.full(N, hs), active=np.zeros(N), age=np.zeros(N),
                                               sink_vel=rs.choice(sinks, size=N)), dt, 0)
            env.pattern = "strong"
            for _ in range(rng.randrange(1, 4) if hist == "drift" else 150):
                update(st, rec)
            a = state_arrays(st, carrier)
            if hist == "drift":
                a["X"] = a["X"] + 9.0                    # the tracker carries them over the deep basin
            # control group: fresh release (status 1) at the same depths and places
            cand = np.flatnonzero(a["active"] != 0)
            M2 = N // 2 if len(cand) else 0
            pick = cand[rs.randint(0, len(cand), M2)] if M2 else np.zeros(0, int)
            for k in a:
                a[k] = np.concatenate([a[k], a[k][pick]])
            a["active"][N:] = 1.0; a["age"][N:] = 0.0
            origin = np.concatenate([np.ones(N, int), np.zeros(M2, int)])
            st = make_flag_state(carrier, a, dt, st.timestep)
        # ---- the observed update
        env.pattern = observe
        b = state_arrays(st, carrier)
        update(st, rec)
        c = state_arrays(st, carrier)
    H = env.depth(b["X"], b["Y"])
    w = c["sink_vel"]                                     # sedimentation draws it for particles released with 0
    disp = c["Z"] - b["Z"] - dt * w                       # random part: the sinking dt*w is deterministic (rounding ~1e-12 m)
    interior = (b["Z"] > 9 * sigma) & (b["Z"] < H - 9 * sigma) & (b["Z"] + dt * w < H - 9 * sigma)
    if mixform == "bounded_linear":
        # coefficient kappa*ustar*(h - z) capped at max_diff: keep particles well inside the capped region (factor 2)
        ustar = math.sqrt(DRAG) * env.speed(b["X"], b["Y"])
        interior &= KAPPA * ustar * (H - b["Z"]) > 2 * K
    suspended = b["active"] != 0
    ctx.case(key=("flags", module, dt, K, carrier, mixform, tform, tc, sc, ss, hist, observe), nontrivial=True, sample=params)
    ctx.branch("flags.%s.history_%s" % (module, hist))
    ctx.branch("flags.%s.taucrit_%s" % (module, tform))
    ctx.branch("flags.%s.mixing_%s" % (module, mixform))
    ctx.branch("flags.%s.carrier_%s" % (module, carrier))
    ctx.branch("flags.%s.observed_%s" % (module, observe))
    tested = 0
    for og, oname in ((0, "released"), (1, "resuspended_by_module")):
        for f in (1.0, 2.0):
            sel = interior & suspended & (origin == og) & (b["active"] == f)
            n = int(sel.sum())
            if n < 2000:
                continue
            tested += 1
            ctx.branch("flags.%s.group_%s_status%d" % (module, oname, int(f)))
            chi2_variance_ok(ctx, "%s_ibm" % module, disp[sel], 2 * K * dt, site,
                             dict(params, group="%s, status %d before the step" % (oname, int(f))))
    if not tested:
        ctx.branch("flags.%s.no_group_large_enough" % module)


def flag_uniformity(ctx):
    """sedimentation IBM with constant mixing (two reflecting boundaries): a well-mixed cloud of particles of status 1 and
    a well-mixed cloud of status 2, each on a stratified grid over [0, H], stay well mixed over 1..3 updates.  The sinking
    velocity cannot be switched off (0 means 'draw one'): it is 1e-12 m/s, i.e. a shift of <= 2e-9 m in total, which
    moves < 0.01 particles across a bin edge in expectation (N * 2e-9 / (H/10)) - far below the resolution of the
    binomial bound."""
    M = ibmrun.mod("sedimentation")
    n = ctx.n(20000, 200000)
    for rep in range(ctx.n(3, 8)):
        rng = ctx.rng
        H = rng.choice([10.0, 40.0, 2.5]); frac = rng.choice([0.15, 0.4, 0.8]); steps = rng.choice([1, 2, 3]); dt = rng.choice([60.0, 600.0])
        sig = frac * H / 8          # >= 10 sigma to leave the column by more than one water depth (see const_uniformity)
        value = sig ** 2 / (2 * dt)
        carrier = rng.choice(["float", "int", "bool"])
        tform = rng.choice(["absent", "number", "dict"])
        tc = rng.choice([0.06, 0.12, 0.32])
        conf = dict(lifespan=1e12, vertical_mixing=value if rng.random() < 0.5 else dict(method="constant", value=value))
        if tform != "absent":
            conf["taucrit"] = tc if tform == "number" else dict(method="constant", value=tc)
        s_at = math.sqrt(tc / (1000 * DRAG))
        env = BasinEnv(H, H, rng.choice([0.0, 0.5 * s_at]), 2 * s_at + 0.05)
        env.pattern = rng.choice(["calm", "calm", "strong", "patchy"])
        flag = np.concatenate([np.ones(n), np.full(n, 2.0)])
        z = np.concatenate([strat(n, 0, H), strat(n, 0, H)])
        rs = np.random.RandomState(ctx.sub_seed())
        st = make_flag_state(carrier, dict(X=rs.uniform(2, 9, 2 * n), Y=rs.uniform(2, 19, 2 * n), Z=z, active=flag, age=np.zeros(2 * n),
                                           sink_vel=np.full(2 * n, 1e-12)), dt, 0)
        ibm = M.IBM(dict(dt=dt, ibm=conf))
        with RngRecorder(ctx.sub_seed()) as rec:
            for _ in range(steps):
                st.timestep = st.timestep + 1
                ibm.update_ibm(env.grid(), st, env.forcing())
                del rec.log[:]
        params = dict(module="sedimentation IBM", H=H, value=value, dt=dt, steps=steps, N=n, sigma=sig, carrier=carrier,
                      taucrit=repr(conf.get("taucrit")), current=env.pattern)
        ctx.case(key=("flaguni", H, value, dt, steps, carrier, tform, tc, env.pattern), nontrivial=True, sample=params if rep == 0 else None)
        zz = np.array(st["Z"], float)
        for g, f in ((slice(0, n), 1), (slice(n, 2 * n), 2)):
            ctx.branch("flags.sedimentation.uniformity_status%d" % f)
            uniform_test(ctx, "sedimentation_ibm", zz[g], H, "ladim_plugins/sedimentation/ibm.py", dict(params, group="status %d at release" % f))


def sandeel_history(ctx):
    """sand eel: the drifting stage is the larva (1 <= stage < 2, active = 1).  Larvae released as such and larvae hatched
    by the module itself in the previous update (eggs at stage 1 - 1e-9) are both in suspension: displacement variance
    2*D*dt for interior ones.  (Existing experiments: stage 3 with the flag forced to 1 only.)"""
    N = ctx.n(40000, 200000)
    M = ibmrun.mod("sandeel")
    for rep in range(ctx.n(2, 5)):
        rng = ctx.rng
        dt = rng.choice([60.0, 600.0]); K = rng.choice([1e-4, 1e-3, 1e-2]); sigma = math.sqrt(2 * K * dt)
        carrier = rng.choice(["bool", "float", "int"])
        H = 5000.0
        rs = np.random.RandomState(ctx.sub_seed())
        kind = rs.choice(4, size=N, p=[0.4, 0.4, 0.1, 0.1])     # 0 egg about to hatch, 1 larva, 2 young egg, 3 settled juvenile
        stage = np.choose(kind, [1 - 1e-9, 0.0, 0.1, 2.5]) + np.where(kind == 1, rs.uniform(1.0, 1.5, N), 0.0)
        act = (kind == 1)
        arrs = dict(X=rs.uniform(2, 19, N), Y=rs.uniform(2, 19, N), Z=rs.uniform(1000.0, 4000.0, N), stage=stage,
                    hatch_rate=rs.uniform(0.01, 1, N))
        if carrier == "bool":
            st = real_state(dt=dt, active=act, **arrs)
        else:
            st = NumState(active=act.astype(float if carrier == "float" else np.int64), alive=np.ones(N, bool), pid=np.arange(N), dt=dt,
                          timestep=0, **arrs)
        env = LinEnv(h0=H)
        g = env.grid(); g.grid = Obj(i0=0, j0=0)
        f = env.forcing(); f.forcing = Obj(temp=np.full((1, 32, 32), 7.0))
        ibm = M.IBM(dict(dt=dt, ibm=dict(vertical_mixing=K, max_depth=1e5)))
        with RngRecorder(ctx.sub_seed()) as rec:
            for _ in range(rng.randrange(1, 4)):
                ibm.update_ibm(g, st, f)
                del rec.log[:]
            z0 = np.array(st["Z"], float); a0 = np.array(st["active"]).astype(float); s0 = np.array(st["stage"], float)
            ibm.update_ibm(g, st, f)
        disp = np.array(st["Z"], float) - z0
        interior = (z0 > 9 * sigma) & (z0 < H - 9 * sigma)
        larva = (s0 >= 1) & (s0 < 1.9)                         # a larva before the step, far from metamorphosis (growth/step < 1e-3)
        params = dict(module="sandeel", dt=dt, K=K, N=N, carrier=carrier)
        ctx.case(key=("flags", "sandeel", dt, K, carrier), nontrivial=True, sample=params if rep == 0 else None)
        ctx.branch("flags.sandeel.carrier_%s" % carrier)
        for kd, name in ((0, "hatched_by_module"), (1, "released_as_larva")):
            sel = interior & larva & (kind == kd)
            if int(sel.sum()) < 2000:
                ctx.branch("flags.sandeel.group_%s_too_small" % name)
                continue
            ctx.branch("flags.sandeel.group_%s" % name)
            chi2_variance_ok(ctx, "sandeel_ibm", disp[sel], 2 * K * dt, "ladim_plugins/sandeel/ibm.py", dict(params, group=name))


def flag_histories(ctx):
    import tempfile, shutil, logging
    tmp = tempfile.mkdtemp(prefix="verif_c20_")
    try:
        for _ in range(ctx.n(8, 30)):
            flag_history_experiment(ctx, "sedimentation", tmp)
        for _ in range(ctx.n(5, 16)):
            flag_history_experiment(ctx, "mine", tmp)
    finally:
        shutil.rmtree(tmp, ignore_errors=True)
    flag_uniformity(ctx)
    sandeel_history(ctx)


# =====================================================================================================================
# Sub-step lengths of the chemicals LaBolle scheme (`vertdiff_dt`) and of the sedimentation solver (`t1 - t0`)
#
# The property's variance clause speaks about ONE step of length dt: whatever the sub-step length the configuration
# asks for - a divisor of dt, NOT a divisor of dt (the last sub-step is shorter), larger than dt (one shortened
# sub-step), equal to dt, absent - the displacement added by one `update_ibm` to a particle that stays inside a region
# of constant diffusivity K, away from the boundaries, has variance 2*K*dt.  Every run makes experiments of every class.
# =====================================================================================================================

def bernstein_radius(n, var, M, a):
    """smallest t with 2*exp(-n*t^2 / (2*var + 2*M*t/3)) <= a.  Bernstein's inequality (non-asymptotic): for n
    independent variables with mean mu, variance <= var and |X - mu| <= M, P(|mean - mu| > t) is at most that."""
    L = math.log(2 / a)
    b = 2 * M * L / 3
    return (b + math.sqrt(b * b + 8 * n * L * var)) / (2 * n)


def uniform_sum_variance_ok(ctx, label, disp, expected, m, site, params):
    """EXACT (non-asymptotic) bound for displacements that are a sum of at most `m` independent centred uniform
    increments whose variances add up to `expected` (what the scheme documents: one uniform increment of variance
    2*K*ddt per sub-step, the ddt adding up to dt; for constant K the predictor is immaterial).

    Normalised d = disp/sqrt(expected) = sum c_i*U_i, U_i uniform on [-1,1], sum c_i^2 = 3, so |d| <= sum c_i <=
    sqrt(3m) (Cauchy-Schwarz); X = d^2 has mean 1, lies in [0, 3m] (|X - 1| <= 3m - 1) and has variance kurt - 1 with
    kurt = 3 - 1.2*sum (c_i^2/3)^2 <= 3 - 1.2/m.  With A = mean(X), B = mean(d): sample variance / expected =
    n/(n-1) * (A - B^2).  Bernstein: |A - 1| <= t and |B| <= u each fail with probability <= a/2, a = ALPHA_TOTAL /
    MAX_TESTS (the Bonferroni share of one test of the run), hence the acceptance interval below has a false-alarm
    probability <= a.  Slack 1e-9: floating-point rounding of Z (ulp(5000 m) = 9e-13 m per operation, a few operations
    per sub-step) relative to displacements of standard deviation >= 0.1 m changes the ratio by < 1e-10."""
    n = len(disp)
    a = ALPHA_TOTAL / MAX_TESTS
    t = bernstein_radius(n, 2.0 - 1.2 / m, 3.0 * m - 1.0, a / 2)
    u = bernstein_radius(n, 1.0, math.sqrt(3.0 * m), a / 2)
    var = float(np.var(disp, ddof=1))
    ratio = var / expected
    lo = n / (n - 1.0) * (1 - t - u * u) - 1e-9
    hi = n / (n - 1.0) * (1 + t) + 1e-9
    ok = lo <= ratio <= hi
    ctx.oracle(ok, "C20.%s.variance" % label, site,
               "group %s: sample variance %.6g of the displacement added by one step to %d interior particles vs 2*K*dt = %.6g "
               "(ratio %.4f, exact Bernstein acceptance interval [%.4f, %.4f] at level %.1e for <= %d uniform increments)"
               % (params.get("group"), var, n, expected, ratio, lo, hi, a, m),
               dict(params, variance=var, expected=expected, n=n))
    return ok


SURE_FRACTIONS = [0.3, 0.4, 0.45, 0.7, 0.6, 0.8, 0.35]     # vertdiff_dt / dt, none the inverse of an integer
SURE_MULTIPLES = [1.5, 2.0, 6.0, 10.0]


def pick_substep(ctx, cls, rep, dt):
    """(vertdiff_dt or None, number of sub-steps of one step of length dt) for a class of sub-step lengths"""
    rng = ctx.rng
    if cls == "default":
        return None, 1
    if cls == "equal":
        return dt, 1
    if cls == "dividing":
        k = rng.choice([2, 3, 4, 5, 8, 10])
        v = dt / k
        if isinstance(dt, int) and dt % k == 0 and rng.random() < 0.5:
            v = dt // k
        return v, k
    if cls == "larger":
        f = SURE_MULTIPLES[rng.randrange(len(SURE_MULTIPLES))] if rep == 0 else round(rng.uniform(1.02, 20.0), 2)
        v = dt * f
        if isinstance(dt, int) and rng.random() < 0.5:
            v = int(math.ceil(v))
        return v, 1
    # not a divisor of dt, smaller than dt
    while True:
        r = SURE_FRACTIONS[rng.randrange(len(SURE_FRACTIONS))] if rep == 0 else round(rng.uniform(0.08, 0.97), 3)
        v = dt * r
        if isinstance(dt, int) and rng.random() < 0.5:
            v = max(1, int(v))
        q = dt / v
        if abs(q - round(q)) > 1e-3:
            return v, int(math.ceil(q))


def substep_variance_experiment(ctx, cls, rep, N):
    rng = ctx.rng
    site = "ladim_plugins/chemicals/ibm.py"
    dt = rng.choice([60.0, 100.0, 600.0, 3600.0, 100, 600])
    vdt, m = pick_substep(ctx, cls, rep, dt)
    K = rng.choice([1e-4, 1e-3, 1e-2])
    kinds = ["constant", "constant", "capped", "layered", "layered_coarse", "layered_capped", "scalar"]
    # the first experiment of every class is on the LaBolle scheme (the one that has sub-steps)
    kind = rng.choice(kinds[:-1]) if rep == 0 else rng.choice(kinds)
    H, thick = 5000.0, 1000.0
    name = rng.choice(["AKs", "vertdiff", "Kz"])
    conf = dict(land_collision="freeze", vertical_mixing=name)
    if vdt is not None:
        conf["vertdiff_dt"] = vdt
    factors = [1.0, 4.0, 0.25, 2.0, 0.5]
    cap = None
    dz = 0.0
    if kind == "scalar":
        # a number: `diffuse_const`, which takes one increment per step whatever vertdiff_dt says
        conf["vertical_mixing"] = K
        m = 1
        layersK = [K] * 5
    elif kind == "constant":
        layersK = [K] * 5
    elif kind == "capped":
        # the forcing's coefficient is larger than the cap everywhere: the coefficient in force is the cap
        cap = K
        layersK = [K * rng.choice([3.0, 10.0])] * 5
        if rng.random() < 0.5:
            dz = rng.choice([1.0, 10.0])
    else:
        rng.shuffle(factors)
        layersK = [K * f for f in factors]
        if kind == "layered_coarse":
            dz = rng.choice([0.5, 1.0, 10.0])
        if kind == "layered_capped":
            cap = K * rng.choice([0.5, 1.0, 3.0])
            if rng.random() < 0.5:
                dz = rng.choice([1.0, 10.0])
    if cap is not None:
        conf["vertdiff_max"] = cap
    if dz:
        conf["vertdiff_dz"] = dz
    Keff = [k if cap is None else min(k, cap) for k in layersK]          # the coefficient in force in each layer
    adv = rng.choice([None, False, True])
    w = rng.choice([0.0, 1e-4, -1e-4]) if adv in (None, True) else rng.choice([0.0, 1e-4])
    if adv is not None:
        conf["vertical_advection"] = adv
    weff = w if adv in (None, True) else 0.0                             # module default: vertical advection on
    if rng.random() < 0.3:
        conf["lifespan"] = 1e12
    steps = rng.choice([1, 1, 2, 3])
    # groups of N particles around the centres of distinct layers (one group if the diffusivity is the same everywhere)
    glayers = [2] if kind in ("scalar", "constant", "capped") else sorted(rng.sample(range(5), 2))
    # particles stay inside their layer during all `steps` updates: total reach of the bounded increments, sinking and
    # the initial scatter (50 m), plus the coarse-sampling distance, is less than half a layer
    reach = steps * (max(math.sqrt(3.0 * (m + 1) * 2 * Keff[l] * dt) for l in glayers) + abs(weff) * dt) + 50.0 + 2 * dz
    assert reach < thick / 2, (reach, kind, dt, vdt, K)
    rs = np.random.RandomState(ctx.sub_seed())
    grp = np.repeat(np.arange(len(glayers)), N)
    z0 = np.concatenate([thick * l + thick / 2 + rs.uniform(-50.0, 50.0, N) for l in glayers])
    n = len(z0)
    layersK_arr = np.array(layersK)

    def vertdiff(x, y, z, nm, _K=layersK_arr, _name=name):
        assert nm == _name
        return _K[np.clip((np.asarray(z, float) // thick).astype(int), 0, 4)]

    forcing = Obj(forcing=Obj(wvel=lambda x, y, z, *a, **k: np.zeros_like(np.asarray(z, float)) + w, vertdiff=vertdiff))
    grid = Obj(sample_depth=lambda x, y: np.asarray(x, float) * 0 + H)
    carrier = rng.choice(["stub", "real"])
    if carrier == "real":
        st = real_state(dt=dt, X=np.full(n, 5.0), Y=np.full(n, 5.0), Z=z0.copy(), age=np.zeros(n))
    else:
        st = NumState(X=np.full(n, 5.0), Y=np.full(n, 5.0), Z=z0.copy(), pid=np.arange(n), alive=np.ones(n, bool), age=np.zeros(n))
    import logging
    logging.disable(logging.WARNING)                     # the module's stability warning concerns depth-varying profiles
    try:
        ibm = ibmrun.mod("chemicals").IBM(dict(dt=dt, ibm=conf))
    finally:
        logging.disable(logging.NOTSET)
    with RngRecorder(ctx.sub_seed()) as rec:
        for _ in range(steps):
            before = np.array(st["Z"], float)
            ibm.update_ibm(grid, st, forcing)
            del rec.log[:]
    after = np.array(st["Z"], float)
    disp = after - before - weff * dt                    # the sinking/rising dt*w is deterministic
    params = dict(module="chemicals", dt=dt, vertdiff_dt=vdt, substep_class=cls, profile=kind, ibm=dict(conf), N=N, steps=steps,
                  layer_K=layersK, wvel=w, state=carrier, depth=H, layer_thickness=thick)
    ctx.case(key=("substep", cls, dt, vdt, K, kind, repr(sorted(conf.items(), key=str)), steps, carrier), nontrivial=True,
             sample=params if rep == 0 and cls in ("nondividing", "larger") else None)
    ctx.branch("substep.variance.%s" % cls)
    ctx.branch("substep.profile.%s" % kind)
    ctx.branch("substep.state_%s" % carrier)
    ctx.branch("substep.advection_%s" % adv)
    for g, l in enumerate(glayers):
        sel = grp == g
        label = "chemicals_const_substeps" if kind == "scalar" else "chemicals_labolle_substeps"
        uniform_sum_variance_ok(ctx, label, disp[sel], 2 * Keff[l] * dt, m + 1, site,
                                dict(params, group="layer %d (%g..%g m), K in force %g" % (l, l * thick, (l + 1) * thick, Keff[l]),
                                     K=Keff[l]))


def substep_uniformity_experiment(ctx, cls, rep):
    """constant diffusivity given as a forcing variable (LaBolle scheme) with sub-steps, two reflecting boundaries:
    every sub-step is a reflected shift of amplitude < H, so a well-mixed cloud stays well mixed EXACTLY (binomial
    bound).  Amplitude of the longest sub-step = frac*H."""
    rng = ctx.rng
    N = ctx.n(40000, 400000)
    dt = rng.choice([60.0, 100.0, 600.0, 100])
    vdt, m = pick_substep(ctx, cls, rep, dt)
    H = rng.choice([10.0, 40.0, 2.5]); frac = rng.choice([0.15, 0.4, 0.8]); steps = rng.choice([1, 2, 3])
    longest = min(float(vdt), float(dt))
    K = (frac * H) ** 2 / (6 * longest)
    conf = dict(land_collision="freeze", vertical_mixing="AKs", vertical_advection=False, vertdiff_dt=vdt)
    if rng.random() < 0.5:
        conf["vertdiff_dz"] = rng.choice([0.1, 1.0])
    if rng.random() < 0.5:
        conf["vertdiff_max"] = K * rng.choice([1.0, 2.0])            # not below K: the coefficient in force is K
    import logging
    logging.disable(logging.WARNING)
    try:
        ibm = ibmrun.mod("chemicals").IBM(dict(dt=dt, ibm=conf))
    finally:
        logging.disable(logging.NOTSET)
    forcing = Obj(forcing=Obj(wvel=lambda x, y, z: x * 0, vertdiff=lambda x, y, z, nm: np.asarray(z, float) * 0 + K))
    grid = Obj(sample_depth=lambda x, y: np.asarray(x, float) * 0 + H)
    st = NumState(X=np.full(N, 5.0), Y=np.full(N, 5.0), Z=strat(N, 0, H), pid=np.arange(N), alive=np.ones(N, bool), age=np.zeros(N))
    with RngRecorder(ctx.sub_seed()) as rec:
        for _ in range(steps):
            ibm.update_ibm(grid, st, forcing)
            del rec.log[:]
    params = dict(module="chemicals labolle", H=H, K=K, dt=dt, vertdiff_dt=vdt, substep_class=cls, ibm=dict(conf), steps=steps, N=N,
                  amplitude_longest_substep=frac * H)
    ctx.case(key=("substep_uni", cls, H, K, dt, vdt, steps, repr(sorted(conf.items()))), nontrivial=True)
    ctx.branch("substep.uniformity.%s" % cls)
    uniform_test(ctx, "chemicals_labolle_substeps", np.array(st.Z, float), H, "ladim_plugins/chemicals/ibm.py", params)


def ladis_step_lengths(ctx):
    """sedimentation solver `ladis(x0, t0, t1, v, K)`: the step is the interval [t0, t1], of any length and starting at
    any time; constant (or layer-wise constant) K, constant velocity: displacement - v*(t1-t0) is normal with variance
    2*K*(t1-t0) exactly (chi-square bound).  Particles sit >= 400 m = 57 standard deviations inside their layer (the
    chance that a normal draw carries one of 1e5 particles out of it is < 1e-300)."""
    M = ibmrun.mod("sedimentation")
    N = ctx.n(100000, 300000)
    for rep in range(ctx.n(3, 10)):
        rng = ctx.rng
        t0 = rng.choice([0.0, 0.0, 600.0, 86400.0, 1.0e6, 7.5])
        length = rng.choice([1.0, 45.0, 60.0, 100.0, 600.0, 0.5])
        t1 = t0 + length
        K = rng.choice([1e-4, 1e-3, 1e-2])
        v0 = rng.choice([0.0, 1e-3, -1e-3])
        factors = [1.0, 4.0, 0.25, 2.0, 0.5]
        layered = rng.random() < 0.5
        if layered:
            rng.shuffle(factors)
        else:
            factors = [1.0] * 5
        Kl = np.array([K * f for f in factors])
        l = rng.randrange(5)
        rs = np.random.RandomState(ctx.sub_seed())
        x0 = 1000.0 * l + 500.0 + rs.uniform(-50.0, 50.0, N)
        shape = rng.choice(["flat", "column"])
        xin = x0.copy() if shape == "flat" else x0.copy().reshape(N, 1)
        with RngRecorder(ctx.sub_seed()) as rec:
            out = M.ladis(xin, t0, t1, lambda x, t: 0 * x + v0, lambda x, t: Kl[np.clip((x // 1000.0).astype(int), 0, 4)])
            del rec.log[:]
        out = np.asarray(out, float).reshape(-1)
        step = t1 - t0
        params = dict(module="sedimentation ladis", t0=t0, t1=t1, K=float(Kl[l]), layer_K=Kl.tolist(), v=v0, N=N, shape=shape,
                      group="layer %d" % l)
        ctx.case(key=("ladis_len", t0, t1, K, v0, tuple(factors), l, shape), nontrivial=True, sample=params if rep == 0 else None)
        ctx.branch("substep.ladis.t0_%s" % ("zero" if t0 == 0 else "nonzero"))
        chi2_variance_ok(ctx, "sedimentation_ladis", out - x0 - v0 * step, 2 * float(Kl[l]) * step, "ladim_plugins/sedimentation/ibm.py", params)


def substeps(ctx):
    N = ctx.n(100000, 300000)
    for cls in ("nondividing", "larger", "dividing", "equal", "default"):
        for rep in range(ctx.n(6, 12) if cls in ("nondividing", "larger") else ctx.n(2, 5)):
            substep_variance_experiment(ctx, cls, rep, N)
    for cls in ("nondividing", "larger", "dividing"):
        for rep in range(ctx.n(1, 4)):
            substep_uniformity_experiment(ctx, cls, rep)
    ladis_step_lengths(ctx)


# =====================================================================================================================
# Transport histories: what the IBM OBJECT keeps between updates
#
# The property speaks about "vertical mixing steps" applied to a tracer that is uniform over the water column - every
# step of a run, not only the first one an IBM object makes.  In a run ONE IBM instance is updated again and again and
# between two updates the tracker carries the particles horizontally, to other water depths; particles die / are
# released (the State compacts and appends its arrays).  Whatever the module keeps on `self` between updates (stored
# positions of the land-collision treatment, lazily evaluated fields, ...), the reflecting bed of an update is the bed
# at the place where the particle IS in that update.
#
# Histories below: a cloud that is uniform over the local column [0, H(x, y)] (relative depth Z/H on a stratified
# grid), 2..4 updates of ONE instance; between updates the tracker (played by the harness) moves the particles
# horizontally - all / a random half / none of them - to deeper or shallower water FOLLOWING THE TERRAIN (Z/H is
# kept, so the cloud is still exactly uniform over the new column when the next update starts), re-scatters them at
# the same depth, leaves a part where it was, or replaces a part of the cloud by newly released particles (same
# particle count, other particles).  Terrain: flat terraces of different depths (40 cells wide, particles stay > 1 cell
# from the edges: horizontal moves the module makes ITSELF - Smagorinsky diffusion, re-seeding within the cell - never
# change the depth), or a sloping bed when the module does not move particles horizontally.  Chemicals: EVERY
# land_collision option (absent = reposition / reposition / freeze / coastal_diffusion) x horzdiff_type (absent /
# smagorinsky) in every run.  After EVERY update: every particle inside its local column and the relative depth Z/H
# uniform on 10 bins (exact: each (sub-)step is a symmetric shift of amplitude < H followed by the two reflections, a
# measure-preserving map of [0, H] for every single particle, so Z/H is uniform on [0, 1] for every particle whatever
# its H; bound: Poisson-binomial counts, binomial tail bound, same Bonferroni budget as the other tests).
# The depth used by the oracle is the harness's own terrain function at the particle's CURRENT position.
# Neighbours with a bed-dependent or position-independent second boundary: sedimentation IBM (constant mixing), sand eel
# (bed or max_depth, whichever is shallower), eel (fixed band; swims horizontally itself when the moon is up);
# mine (one reflecting boundary): displacement variance of interior particles in the last update of such a history.
# =====================================================================================================================

TERRACE_W = 40.0          # width of a terrace [grid cells]
TERRACE_N = 5


class Terrain:
    """kind 'terraces': depth depths[floor(x / 40)] (flat terraces side by side along x);
    kind 'slope': depth h0 + hx * x"""

    def __init__(self, kind, depths=None, h0=0.0, hx=0.0):
        self.kind, self.depths, self.h0, self.hx = kind, (None if depths is None else np.array(depths, float)), h0, hx

    def band(self, x):
        return np.clip(np.floor(np.asarray(x, float) / TERRACE_W).astype(int), 0, TERRACE_N - 1)

    def depth(self, x, y):
        x = np.asarray(x, float)
        if self.kind == "terraces":
            return self.depths[self.band(x)]
        return self.h0 + self.hx * x

    def hmin(self):
        return float(self.depths.min()) if self.kind == "terraces" else float(self.h0)          # hx >= 0, x >= 0

    def edge_distance(self, x):
        """distance [cells] to the nearest terrace edge"""
        r = np.asarray(x, float) % TERRACE_W
        return np.minimum(r, TERRACE_W - r)

    def describe(self):
        return dict(kind=self.kind, depths=self.depths.tolist()) if self.kind == "terraces" else dict(kind=self.kind, h0=self.h0, hx=self.hx)


def pick_terraces(rng, pool):
    """five different depths between h and 2.5 h, in random order along x (h from `pool`): the amplitude of a mixing step,
    a fraction of the SHALLOWEST column, is a visible fraction of every column"""
    h = rng.choice(pool)
    d = [h * f for f in rng.sample([1.0, 1.15, 1.4, 1.6, 2.0, 2.5], TERRACE_N)]
    return Terrain("terraces", depths=d)


class Cloud:
    """the particle arrays of a run, in a stub state of the repository's unit tests ('stub') or in the real LADiM State
    ('real'); the tracker's side of the interface: read, assign new arrays, remove and append particles"""

    def __init__(self, carrier, dt, arrays, scalars=None):
        self.carrier = carrier
        n = len(arrays["X"])
        self.next_pid = n
        if carrier == "real":
            self.st = real_state(dt=dt, **dict(scalars or {}), **{k: np.array(v) for k, v in arrays.items()})
        else:
            self.st = NumState(pid=np.arange(n), alive=np.ones(n, bool), dt=dt, **dict(dict(timestep=0), **(scalars or {})),
                               **{k: np.array(v) for k, v in arrays.items()})

    def get(self, k):
        return np.array(self.st[k])

    def set(self, k, v):
        self.st[k] = np.array(v)

    def replace(self, drop, new):
        """remove the particles flagged in `drop` and append the particles `new` (dict of arrays; variables not given: 0)"""
        m = len(new["X"])
        if self.carrier == "real":
            self.st.remove(drop)
            self.st.append({k: np.array(v) for k, v in new.items()})
        else:
            d = self.st.__dict__["_d"]
            keep = ~drop
            for k in list(d):
                v = d[k]
                if isinstance(v, np.ndarray) and v.shape == drop.shape:
                    if k == "pid":
                        add = np.arange(self.next_pid, self.next_pid + m)
                    elif k == "alive":
                        add = np.ones(m, bool)
                    elif k in new:
                        add = np.array(new[k]).astype(v.dtype)
                    else:
                        add = np.zeros(m, v.dtype)
                    d[k] = np.concatenate([v[keep], add])
        self.next_pid += m


TRANSPORTS = ["deeper", "shallower", "split", "scatter", "partly_stay", "turnover", "other_depth"]


def transport(cloud, terrain, kind, rs, extra_new=None, col=None):
    """the tracker between two updates.  `col(x, y)` = depth of the column the tracer occupies (default: the water depth);
    terrain-following: Z/col is kept.  Returns a description for the failing-input record."""
    col = col or terrain.depth
    X, Y, Z = cloud.get("X"), cloud.get("Y"), cloud.get("Z")
    n = len(X)
    Ho = col(X, Y)
    info = dict(kind=kind)
    if terrain.kind == "slope":
        # common shift, per-particle shift, or none for a part; x stays inside [5, 195]
        if kind in ("deeper", "shallower", "other_depth"):
            d = rs.uniform(10.0, 60.0) * (1 if kind != "shallower" else -1)
            dx = np.full(n, d)
        elif kind == "partly_stay":
            dx = np.where(rs.uniform(size=n) < 0.3, 0.0, rs.uniform(-30.0, 30.0, n))
        else:
            dx = rs.uniform(-40.0, 40.0, n)
        Xn = X + dx
        Xn = np.where((Xn < 5.0) | (Xn > 195.0), X - dx, Xn)
        Xn = np.clip(Xn, 5.0, 195.0)
        Yn = Y + (rs.uniform(-1.0, 1.0, n) if kind != "partly_stay" else np.where(dx == 0.0, 0.0, 0.5))
        info["shift"] = [float(dx.min()), float(dx.max())]
    else:
        b = terrain.band(X)
        order = np.argsort(terrain.depths)                   # bands from the shallowest to the deepest
        rank = np.empty(TERRACE_N, int); rank[order] = np.arange(TERRACE_N)
        r = rank[b]
        if kind == "deeper":
            tr = np.minimum(r + rs.randint(1, 3), TERRACE_N - 1)
            tr = np.where(tr == r, r - 1, tr)
        elif kind == "shallower":
            tr = np.maximum(r - rs.randint(1, 3), 0)
            tr = np.where(tr == r, r + 1, tr)
        elif kind == "split":
            # a random half to deeper, the other half to shallower water (at the ends: the only direction there is)
            up = rs.uniform(size=n) < 0.5
            tr = np.where(up, r + 1, r - 1)
            tr = np.where(tr < 0, 1, np.where(tr > TERRACE_N - 1, TERRACE_N - 2, tr))
        elif kind == "other_depth":
            tr = (r + rs.randint(1, TERRACE_N, n)) % TERRACE_N       # every particle to some other terrace
        else:
            tr = r
        tb = order[tr]
        Xn = X + TERRACE_W * (tb - b)
        Yn = Y.copy()
        if kind == "scatter":
            Xn = Xn + rs.uniform(-1.0, 1.0, n); Yn = Yn + rs.uniform(-1.0, 1.0, n)
        elif kind == "partly_stay":
            mv = rs.uniform(size=n) >= 0.3                       # 30 % are exactly where the last update left them
            Xn = np.where(mv, Xn + rs.uniform(-1.0, 1.0, n), Xn); Yn = np.where(mv, Yn + rs.uniform(-1.0, 1.0, n), Yn)
        elif kind != "turnover":
            Xn = Xn + rs.uniform(-0.5, 0.5); Yn = Yn + rs.uniform(-0.5, 0.5)   # the same drift for all
        info["bands"] = sorted(set(tb.tolist()))
    Hn = col(Xn, Yn)
    # terrain-following: relative depth kept.  (Z/Ho)*Hn <= Hn in floating point too (Z <= Ho, rounding is monotone)
    Zn = (Z / Ho) * Hn
    cloud.set("X", Xn); cloud.set("Y", Yn); cloud.set("Z", Zn)
    if kind == "turnover":
        # a random third of the cloud leaves the simulation, as many particles are released, well mixed over the column
        # of one place: the particle COUNT is the same, the particles behind the array positions are not
        drop = rs.uniform(size=n) < 1.0 / 3
        m = int(drop.sum())
        if terrain.kind == "slope":
            xr = np.full(m, rs.uniform(20.0, 180.0)) + rs.uniform(-3.0, 3.0, m)
        else:
            xr = TERRACE_W * rs.randint(0, TERRACE_N) + TERRACE_W / 2 + rs.uniform(-4.0, 4.0, m)
        yr = rs.uniform(6.0, 14.0, m)
        new = dict(X=xr, Y=yr, Z=rs.uniform(0.0, 1.0, m) * col(xr, yr))
        if extra_new:
            new.update({k: np.full(m, v) for k, v in extra_new.items()})
        cloud.replace(drop, new)
        info["replaced"] = m
    return info


def relative_uniform_test(ctx, label, cloud, col, site, params, lo=None, boundary_layer=True):
    """every (living) particle inside its column [lo, col(x, y)] at its CURRENT place, relative depth uniform on 10 bins"""
    X, Y, Z = cloud.get("X"), cloud.get("Y"), cloud.get("Z")
    alive = cloud.get("alive").astype(bool)
    X, Y, Z = X[alive], Y[alive], Z[alive]
    H = col(X, Y)
    L = np.zeros_like(H) if lo is None else np.zeros_like(H) + lo
    inside = (Z >= L) & (Z <= H)
    n = len(Z)
    bad = np.flatnonzero(~inside)
    ctx.oracle(len(bad) == 0, "C20.%s.left_column" % label, site,
               "%d of %d particles outside their local water column, e.g. Z = %r where the column is [%r, %r] (X = %r)"
               % (len(bad), n, *((float(Z[bad[0]]), float(L[bad[0]]), float(H[bad[0]]), float(X[bad[0]])) if len(bad) else (0, 0, 0, 0))),
               params)
    s = (Z - L) / (H - L)
    # no point mass AT a boundary: the layers within 1e-11 column depths of the surface and of the bed (>= 1000 ulp of
    # Z) together hold a fraction 2e-11 of a well-mixed tracer; three or more of n <= 4e5 particles there has
    # probability < (n * 2e-11)^3 / 6 < 1e-16 (binomial tail; negligible against the Bonferroni budget ALPHA_TOTAL).
    # Not for the sedimentation module: its sinking velocity cannot be switched off, so it lays particles on the bed.
    if boundary_layer:
        eps = 1e-11
        k = int(np.count_nonzero(inside & ((s <= eps) | (s >= 1 - eps))))
        ctx.oracle(k < 3, "C20.%s.boundary_layer" % label, site,
                   "%d of %d particles within 1e-11 column depths of the surface or the bed (a well-mixed tracer has %.1e there)"
                   % (k, n, n * 2 * eps), dict(params, at_surface=int(np.count_nonzero(inside & (s <= eps))),
                                               at_bed=int(np.count_nonzero(inside & (s >= 1 - eps)))))
    cnt = np.histogram(s, bins=np.linspace(0, 1, 11))[0]
    for b in range(10):
        ctx.oracle(binom_ok(int(cnt[b]), n, 0.1), "C20.%s.uniformity" % label, site,
                   "relative depth bin %d (%.1f..%.1f of the local column) holds %d of %d particles (expected %.0f +- %.0f)"
                   % (b, b / 10, (b + 1) / 10, cnt[b], n, n * 0.1, math.sqrt(n * 0.09)),
                   dict(params, counts=cnt.tolist()))


LAND_OPTIONS = ["absent", "reposition", "freeze", "coastal_diffusion"]
HORZ_OPTIONS = ["absent", "smagorinsky"]


def chem_transport_history(ctx, land, horz, rep):
    rng = ctx.rng
    site = "ladim_plugins/chemicals/ibm.py"
    N = ctx.n(20000, 100000)
    dt = rng.choice([60.0, 600.0, 100])
    nupd = rng.choice([2, 3, 3, 4])
    moves_itself = horz == "smagorinsky" or land == "coastal_diffusion"
    # a sloping bed only where the module does not move particles horizontally itself (re-seeding of `reposition`
    # concerns particles the tracker left where they were: none on the slope)
    slope = (not moves_itself) and rng.random() < 0.3
    if slope:
        h0 = rng.choice([5.0, 12.0, 40.0])
        terrain = Terrain("slope", h0=h0, hx=rng.choice([0.02, 0.1, 0.5]) * h0 / 10)
    else:
        terrain = pick_terraces(rng, [2.5, 10.0, 14.0, 40.0])
    frac = rng.choice([0.15, 0.4, 0.8])
    amp = frac * terrain.hmin()                                  # amplitude of the longest (sub-)step < the shallowest column
    mixing = rng.choice(["number", "forcing"])
    conf = dict()
    if land != "absent":
        conf["land_collision"] = land
    if horz != "absent":
        conf["horzdiff_type"] = horz
        if rng.random() < 0.5:
            conf["horzdiff_max"] = rng.choice([0.5, 5.0])
        if rng.random() < 0.5:
            conf["horzdiff_min"] = rng.choice([0.05, 0.3])
    adv = rng.choice(["absent", True, False])                    # the vertical velocity of this water is 0
    if adv != "absent":
        conf["vertical_advection"] = adv
    if rng.random() < 0.3:
        conf["lifespan"] = 1e12
    cls = "default"
    if mixing == "number":
        K = amp ** 2 / (6 * dt)
        conf["vertical_mixing"] = K
    else:
        cls = rng.choice(["default", "equal", "dividing", "nondividing", "larger"])
        vdt, _m = pick_substep(ctx, cls, 1, dt)
        K = amp ** 2 / (6 * min(float(dt), float(dt if vdt is None else vdt)))
        conf["vertical_mixing"] = rng.choice(["AKs", "vertdiff"])
        if vdt is not None:
            conf["vertdiff_dt"] = vdt
        if rng.random() < 0.4:
            conf["vertdiff_dz"] = rng.choice([0.1, 1.0])
        if rng.random() < 0.4:
            conf["vertdiff_max"] = K * rng.choice([1.0, 2.0])    # not below K: the coefficient in force is K
    A = rng.choice([0.2, 1.0])                                   # horizontal diffusivity [m2/s]; metric 200 m
    # reach of the module's own horizontal moves per update: sqrt(2A)*sqrt(3dt)/200 <= 0.3 cells (Smagorinsky) + 1 cell
    # (re-seeding within the cell round(X) +- 0.5) + 1 cell (the tracker's scatter); start within 5 cells of a terrace
    # centre: after 4 updates still > 1 cell from the edges (checked below)
    coastal = lambda x, y: (np.round(np.asarray(x, float)) + np.round(np.asarray(y, float))) % 2 == 0   # chequerboard
    g = Obj(sample_depth=terrain.depth, sample_metric=lambda x, y: (np.zeros(len(x)) + 200.0, np.zeros(len(x)) + 200.0),
            ingrid=lambda x, y: np.ones(len(x), bool), is_close_to_land=coastal)
    g.grid = g
    name = conf["vertical_mixing"]
    forcing = Obj(forcing=Obj(wvel=lambda x, y, z, *a, **k: np.zeros_like(np.asarray(z, float)),
                              vertdiff=lambda x, y, z, nm: np.zeros_like(np.asarray(z, float)) + K,
                              horzdiff=lambda x, y, z: np.zeros_like(np.asarray(z, float)) + A))
    rs = np.random.RandomState(ctx.sub_seed())
    if slope:
        x0 = rs.uniform(20.0, 180.0) + rs.uniform(-5.0, 5.0, N)
    else:
        x0 = TERRACE_W * rng.randrange(TERRACE_N) + TERRACE_W / 2 + rs.uniform(-5.0, 5.0, N)
    y0 = rs.uniform(5.0, 15.0, N)
    carrier = rng.choice(["stub", "real"])
    cloud = Cloud(carrier, dt, dict(X=x0, Y=y0, Z=strat(N, 0.0, 1.0)[rs.permutation(N)] * terrain.depth(x0, y0), age=np.zeros(N)))
    import logging
    logging.disable(logging.WARNING)
    try:
        ibm = ibmrun.mod("chemicals").IBM(dict(dt=dt, ibm=conf))
    finally:
        logging.disable(logging.NOTSET)
    history = []
    params = dict(module="chemicals", dt=dt, ibm=dict(conf), K=K, N=N, state=carrier, terrain=terrain.describe(),
                  amplitude_longest_substep=amp, horizontal_diffusivity=A, substep_class=cls, history=history)
    ctx.case(key=("transport", "chemicals", land, horz, dt, repr(sorted(conf.items(), key=str)), repr(terrain.describe()), nupd, carrier),
             nontrivial=True, sample=params if (land, horz, rep) == ("freeze", "smagorinsky", 0) else None)
    ctx.branch("transport.chemicals.land_%s.horzdiff_%s" % (land, horz))
    ctx.branch("transport.chemicals.mixing_%s" % mixing)
    ctx.branch("transport.chemicals.terrain_%s" % terrain.kind)
    ctx.branch("transport.chemicals.state_%s" % carrier)
    with RngRecorder(ctx.sub_seed()) as rec:
        for u in range(nupd):
            if u:
                # the first transition of the first history of every option pair goes to another depth
                kinds = ["deeper", "shallower", "split", "other_depth"] if (rep == 0 and u == 1) else TRANSPORTS
                if slope and land != "freeze":
                    # on the slope the tracker moves EVERY particle (a particle left where it was would be re-seeded
                    # within its cell by `reposition`, to another depth, and clamped: not a mixing step)
                    kinds = [k for k in kinds if k != "partly_stay"]
                kind = kinds[rng.randrange(len(kinds))]
                history.append(transport(cloud, terrain, kind, rs, extra_new=dict(age=0.0)))
                ctx.branch("transport.chemicals.move_%s" % kind)
            ibm.update_ibm(g, cloud.st, forcing)
            del rec.log[:]
            history.append("update %d" % (u + 1))
            if terrain.kind == "terraces":
                assert terrain.edge_distance(cloud.get("X")).min() > 1.0        # generator sanity, see above
            relative_uniform_test(ctx, "chemicals_transport", cloud, terrain.depth, site, dict(params, history=list(history)))
    ctx.branch("transport.chemicals.updates_%d" % nupd)


def sed_transport_history(ctx, rep):
    """sedimentation IBM, constant mixing (two reflections): statuses 1 and 2, two basins of different depth"""
    rng = ctx.rng
    M = ibmrun.mod("sedimentation")
    n = ctx.n(20000, 100000)
    dt = rng.choice([60.0, 600.0])
    hs, hd = rng.choice([(2.5, 10.0), (10.0, 14.0), (14.0, 16.0), (40.0, 400.0)])
    # normal increments: sigma <= hs/8, so an increment beyond one column depth (where two reflections are no longer
    # enough) is an 8-sigma event: < 1e-15 per particle and step
    sig = rng.choice([0.15, 0.3, 0.5]) * hs / 4
    value = sig ** 2 / (2 * dt)
    carrier = rng.choice(["float", "int", "bool"])
    tform = rng.choice(["absent", "number", "dict"])
    tc = rng.choice([0.06, 0.12, 0.32])
    conf = dict(lifespan=1e12, vertical_mixing=value if rng.random() < 0.5 else dict(method="constant", value=value))
    if tform != "absent":
        conf["taucrit"] = tc if tform == "number" else dict(method="constant", value=tc)
    s_at = math.sqrt(tc / (1000 * DRAG))
    env = BasinEnv(hs, hd, rng.choice([0.0, 0.5 * s_at]), 2 * s_at + 0.05)
    env.pattern = rng.choice(["calm", "calm", "strong", "patchy"])
    rs = np.random.RandomState(ctx.sub_seed())
    start_deep = rng.random() < 0.5
    x = rs.uniform(2, 9, 2 * n) + (9.0 if start_deep else 0.0)
    y = rs.uniform(2, 19, 2 * n)
    flag = np.concatenate([np.ones(n), np.full(n, 2.0)])
    z = np.concatenate([strat(n, 0, 1.0), strat(n, 0, 1.0)]) * env.depth(x, y)
    # sinking cannot be switched off (0 = 'draw one'): 1e-12 m/s, see flag_uniformity
    st = make_flag_state(carrier, dict(X=x, Y=y, Z=z, active=flag, age=np.zeros(2 * n), sink_vel=np.full(2 * n, 1e-12)), dt, 0)
    ibm = M.IBM(dict(dt=dt, ibm=conf))
    nupd = rng.choice([2, 3, 4])
    history = []
    params = dict(module="sedimentation IBM", depths=(hs, hd), value=value, dt=dt, N=n, sigma=sig, carrier=carrier,
                  taucrit=repr(conf.get("taucrit")), current=env.pattern, history=history)
    ctx.case(key=("transport", "sedimentation", hs, hd, value, dt, nupd, carrier, tform, tc, env.pattern, start_deep), nontrivial=True,
             sample=params if rep == 0 else None)
    ctx.branch("transport.sedimentation")
    with RngRecorder(ctx.sub_seed()) as rec:
        for u in range(nupd):
            if u:
                X, Y, Z = np.array(st["X"], float), np.array(st["Y"], float), np.array(st["Z"], float)
                kind = rng.choice(["all", "all", "half", "scatter"])
                Ho = env.depth(X, Y)
                mv = np.ones(len(X), bool) if kind == "all" else (rs.uniform(size=len(X)) < 0.5 if kind == "half" else np.zeros(len(X), bool))
                Xn = np.where(mv, np.where(X < 10.0, X + 9.0, X - 9.0), X)
                if kind == "scatter":
                    Xn = np.where(X < 10.0, rs.uniform(2, 9, len(X)), rs.uniform(11, 18, len(X)))
                st["X"] = Xn
                st["Z"] = (Z / Ho) * env.depth(Xn, Y)
                history.append("tracker: %s to the other basin" % kind)
                ctx.branch("transport.sedimentation.move_%s" % kind)
            st.timestep = st.timestep + 1
            ibm.update_ibm(env.grid(), st, env.forcing())
            del rec.log[:]
            history.append("update %d" % (u + 1))
            for grp, f in ((slice(0, n), 1), (slice(n, 2 * n), 2)):
                sub = Obj(get=lambda k, _g=grp: np.array(st[k])[_g])
                relative_uniform_test(ctx, "sedimentation_transport", sub, env.depth, "ladim_plugins/sedimentation/ibm.py",
                                      dict(params, history=list(history), group="status %d at release" % f), boundary_layer=False)


def sandeel_transport_history(ctx, rep):
    """sand eel larvae (the drifting stage): lower boundary = bed or max_depth, whichever is shallower"""
    rng = ctx.rng
    M = ibmrun.mod("sandeel")
    N = ctx.n(20000, 100000)
    dt = rng.choice([60.0, 600.0])
    terrain = pick_terraces(rng, [8.0, 14.0, 40.0])
    maxd = rng.choice([1e4, 1e4, float(np.sort(terrain.depths)[2])])      # below every bed / the middle one of the bed depths
    col = lambda x, y: np.minimum(maxd, terrain.depth(x, y))
    hmin = min(maxd, terrain.hmin())
    sig = rng.choice([0.15, 0.3, 0.5]) * hmin / 4                # 8-sigma argument of sed_transport_history
    D = sig ** 2 / (2 * dt)
    rs = np.random.RandomState(ctx.sub_seed())
    x0 = TERRACE_W * rng.randrange(TERRACE_N) + TERRACE_W / 2 + rs.uniform(-5.0, 5.0, N)
    y0 = rs.uniform(5.0, 15.0, N)
    carrier = rng.choice(["stub", "real"])
    cloud = Cloud(carrier, dt, dict(X=x0, Y=y0, Z=strat(N, 0.0, 1.0)[rs.permutation(N)] * col(x0, y0),
                                    stage=rs.uniform(1.0, 1.5, N), hatch_rate=rs.uniform(0.01, 1, N),
                                    active=np.ones(N, bool) if carrier == "real" else np.ones(N)))
    g = Obj(sample_depth=terrain.depth, grid=Obj(i0=0, j0=0))
    f = Obj(field=lambda x, y, z, name: np.zeros_like(np.asarray(z, float)) + 7.0, forcing=Obj(temp=np.full((1, 32, 256), 7.0)))
    ibm = M.IBM(dict(dt=dt, ibm=dict(vertical_mixing=D, max_depth=maxd)))
    nupd = rng.choice([2, 3, 4])
    history = []
    params = dict(module="sandeel", dt=dt, D=D, max_depth=maxd, N=N, sigma=sig, state=carrier, terrain=terrain.describe(), history=history)
    ctx.case(key=("transport", "sandeel", dt, D, maxd, repr(terrain.describe()), nupd, carrier), nontrivial=True, sample=params if rep == 0 else None)
    ctx.branch("transport.sandeel.max_depth_%s" % ("below_bed" if maxd > 1e3 else "between_beds"))
    with RngRecorder(ctx.sub_seed()) as rec:
        for u in range(nupd):
            if u:
                kind = TRANSPORTS[rng.randrange(len(TRANSPORTS))]
                history.append(transport(cloud, terrain, kind, rs, extra_new=dict(stage=1.2, hatch_rate=0.5, active=1), col=col))
                ctx.branch("transport.sandeel.move_%s" % kind)
            ibm.update_ibm(g, cloud.st, f)
            del rec.log[:]
            history.append("update %d" % (u + 1))
            relative_uniform_test(ctx, "sandeel_transport", cloud, col, "ladim_plugins/sandeel/ibm.py", dict(params, history=list(history)))


def eel_transport_history(ctx, rep):
    """eel: fixed band [lo, hi] wherever the eel is; it swims horizontally itself when the moon is up, the tracker moves it too"""
    rng = ctx.rng
    N = ctx.n(20000, 100000)
    dt = rng.choice([60.0, 600.0])
    lo = rng.choice([0.0, 5.0, 100.0]); hi = lo + rng.choice([2.5, 10.0, 40.0])
    sig = rng.choice([0.15, 0.3, 0.5]) * (hi - lo) / 4
    D = sig ** 2 / (2 * dt)
    moon = rng.random() < 0.5
    rs = np.random.RandomState(ctx.sub_seed())
    case = dict(kind="lunar_eel", dt=dt, D=D, lo=lo, hi=hi, moon=moon, x=rs.uniform(5, 15, N), y=rs.uniform(10, 18, N),
                z=strat(N, lo, hi)[rs.permutation(N)], int_limits=(rng.random() < 0.3 and float(lo).is_integer() and float(hi).is_integer()))
    nupd = rng.choice([2, 3, 4])
    history = []
    params = dict(module="lunar_eel", lo=lo, hi=hi, D=D, dt=dt, N=N, sigma=sig, moon_up=moon, history=history)
    ctx.case(key=("transport", "eel", lo, hi, D, dt, moon, nupd), nontrivial=True, sample=params if rep == 0 else None)
    ctx.branch("transport.lunar_eel.moon_%s" % ("up" if moon else "down"))
    ibm_e = st_e = None
    for u in range(nupd):
        if u:
            st_e["X"] = np.clip(np.array(st_e["X"], float) + rs.uniform(-2.0, 2.0, N), 2.0, 18.0)
            st_e["Y"] = np.clip(np.array(st_e["Y"], float) + rs.uniform(-2.0, 2.0, N), 4.0, 18.0)
            history.append("tracker: scatter")
        res = ibmrun.eel_run(case, ctx.sub_seed(), None, None, ibm=ibm_e, state=st_e)
        ibm_e, st_e = res["ibm"], res["state"]
        history.append("update %d" % (u + 1))
        uniform_test(ctx, "lunar_eel_transport", np.array(st_e["Z"], float), hi, "ladim_plugins/lunar_eel/ibm.py",
                     dict(params, history=list(history)), lo=lo)


def mine_transport_variance(ctx, rep):
    """mine (one reflecting boundary): interior particles over deep terraces, the displacement the LAST update of a
    transport history adds has variance 2*K*dt (exact chi-square bound; sinking dt*w is deterministic)"""
    rng = ctx.rng
    M = ibmrun.mod("mine")
    N = ctx.n(20000, 100000)
    dt = rng.choice([60.0, 600.0]); K = rng.choice([1e-4, 1e-3, 1e-2]); sigma = math.sqrt(2 * K * dt)
    terrain = pick_terraces(rng, [2000.0, 3000.0])
    land = rng.choice(["absent", "reposition", "freeze"])
    carrier = rng.choice(["stub", "real"])
    has_active = rng.random() < 0.7
    conf = dict(lifespan=1e12, vertical_mixing=K, taucrit=rng.choice([1000, 5000.0]))
    if land != "absent":
        conf["land_collision"] = land
    rs = np.random.RandomState(ctx.sub_seed())
    x0 = TERRACE_W * rng.randrange(TERRACE_N) + TERRACE_W / 2 + rs.uniform(-5.0, 5.0, N)
    y0 = rs.uniform(5.0, 15.0, N)
    arr = dict(X=x0, Y=y0, Z=rs.uniform(0.3, 0.7, N) * terrain.depth(x0, y0), age=np.zeros(N), sink_vel=rs.choice([1e-7, 1e-6, 1e-5], size=N))
    if has_active:
        arr["active"] = np.ones(N, bool) if carrier == "real" else np.ones(N)
    cloud = Cloud(carrier, dt, arr)
    g = Obj(sample_depth=terrain.depth, lonlat=lambda x, y: (np.asarray(x, float) + 0.0, np.asarray(y, float) + 0.0))
    f = Obj(velocity=lambda x, y, z, tstep=0: (np.zeros(len(x)), np.zeros(len(x))), forcing=Obj(wvel=lambda x, y, z, *a, **k: np.zeros(len(x))))
    ibm = M.IBM(dict(dt=dt, ibm=conf, output_instance=[], nc_attributes={}))
    nupd = rng.choice([2, 3, 4])
    history = []
    params = dict(module="mine", dt=dt, K=K, N=N, ibm=dict(conf), state=carrier, active_variable=has_active or carrier == "real", terrain=terrain.describe(), history=history)
    ctx.case(key=("transport", "mine", dt, K, land, carrier, has_active, repr(terrain.describe()), nupd), nontrivial=True, sample=params if rep == 0 else None)
    ctx.branch("transport.mine.land_%s" % land)
    with RngRecorder(ctx.sub_seed()) as rec:
        for u in range(nupd):
            if u:
                kind = TRANSPORTS[rng.randrange(len(TRANSPORTS))]
                extra = dict(age=0.0, sink_vel=1e-6)
                if has_active:
                    extra["active"] = 1
                history.append(transport(cloud, terrain, kind, rs, extra_new=extra))
                ctx.branch("transport.mine.move_%s" % kind)
            cloud.st.timestep = cloud.st.timestep + 1
            z0 = cloud.get("Z"); w = cloud.get("sink_vel"); H = terrain.depth(cloud.get("X"), cloud.get("Y"))
            ibm.update_ibm(g, cloud.st, f)
            del rec.log[:]
            history.append("update %d" % (u + 1))
    disp = cloud.get("Z") - z0 - dt * w
    interior = (z0 > 9 * sigma) & (z0 + dt * w < H - 9 * sigma)
    chi2_variance_ok(ctx, "mine_transport", disp[interior], 2 * K * dt, "ladim_plugins/mine/ibm.py",
                     dict(params, history=list(history), group="all interior particles, last update"))


def transport_histories(ctx):
    for rep in range(ctx.n(1, 3)):
        for land in LAND_OPTIONS:
            for horz in HORZ_OPTIONS:
                chem_transport_history(ctx, land, horz, rep)
    for rep in range(ctx.n(2, 5)):
        sed_transport_history(ctx, rep)
        sandeel_transport_history(ctx, rep)
        eel_transport_history(ctx, rep)
        mine_transport_variance(ctx, rep)


# =====================================================================================================================
# Behavioural states of the "velocity + mixing" modules (salmon lice, egg, shrimp; mine with vertical advection)
#
# These modules add the random-walk term to a DETERMINISTIC vertical velocity that depends on the particle's state
# and on the water it is in: lice swim down in too fresh water (nauplii below 32 - 2u, copepodids below 28 - 8u, u
# the louse's random tolerance) and up towards light; eggs rise / sink / float with their buoyancy relative to the
# water (Stokes or Dallavalle regime by egg size); shrimp larvae swim towards a stage- and daytime-dependent preferred
# depth; mine particles sink and follow the vertical current.  The variance clause of the property speaks about the
# displacement ADDED BY THE MIXING of one step, for every interior particle - whatever it is doing otherwise.  The
# experiments above observed one behavioural state per module only (oceanic water of salinity 35, copepodids, one egg
# buoyancy, shrimp that do not swim).  Here: clouds of interior particles in several water masses side by side (and
# haline stratification), all behavioural states at once; per group of particles whose deterministic displacement is
# the SAME by the module's documentation (so that the sample variance, which is free of the mean, needs no model of
# the velocity) the sample variance of the displacement of one update against 2*K*dt, exact chi-square bound (the
# increments are normal), same Bonferroni budget.  Groups are formed from the inputs by the harness's own water
# functions (never by calling the module); groups smaller than 2000 are skipped (tagged).
# =====================================================================================================================

LICE_SWIM = 5e-4          # swimming speed of the lice [m/s] (module documentation), used for the interior margin only
MIN_GROUP = 2000


class WaterMasses:
    """water masses side by side along x (band = floor(x / 10), `nb` bands), each with its own surface temperature /
    salinity, plus common vertical gradients: temp = T[band] + tz*z, salt = S[band] + sz*z; (lon, lat) the same
    for all particles; depth 500 m everywhere"""

    def __init__(self, T, S, tz=0.0, sz=0.0, lon=5.0, lat=60.0):
        self.T, self.S, self.tz, self.sz, self.lon, self.lat = np.array(T, float), np.array(S, float), tz, sz, lon, lat

    def band(self, x):
        return np.clip(np.floor(np.asarray(x, float) / 10.0).astype(int), 0, len(self.S) - 1)

    def temp(self, x, z):
        return self.T[self.band(x)] + self.tz * np.asarray(z, float)

    def salt(self, x, z):
        return self.S[self.band(x)] + self.sz * np.asarray(z, float)

    def field(self, x, y, z, name):
        if name == "temp":
            return self.temp(x, z)
        if name == "salt":
            return self.salt(x, z)
        raise KeyError(name)

    def lonlat(self, x, y, method="bilinear"):
        x = np.asarray(x, float)
        return np.zeros_like(x) + self.lon, np.zeros_like(x) + self.lat

    def grid(self):
        g = Obj(sample_depth=lambda x, y: np.zeros_like(np.asarray(x, float)) + 500.0, lonlat=self.lonlat, xy2ll=self.lonlat)
        g.grid = g
        return g

    def forcing(self):
        return Obj(field=self.field, forcing=Obj(wvel=lambda x, y, z, *a, **k: np.zeros_like(np.asarray(z, float))))

    def describe(self):
        return dict(surface_temp_by_band=self.T.tolist(), surface_salt_by_band=self.S.tolist(), dtemp_dz=self.tz, dsalt_dz=self.sz,
                    band_width=10.0, lon=self.lon, lat=self.lat)


def behaviour_state(carrier, dt, timestamp, arrays):
    """real LADiM State or the stub state of the repository's unit tests"""
    arrays = {k: np.array(v) for k, v in arrays.items()}
    n = len(arrays["X"])
    if carrier == "real":
        return real_state(dt=dt, timestamp=timestamp, **arrays)
    return NumState(pid=np.arange(n), alive=np.ones(n, bool), dt=dt, timestep=0, timestamp=timestamp, **arrays)


# (dt, K): standard deviation sqrt(2*K*dt) of one step <= 0.78 m, so that the 20 m lice column has an interior
LICE_STEPS = [(60.0, 1e-3), (120.0, 1e-3), (300.0, 1e-3), (600.0, 3e-4), (600.0, 1e-4), (60.0, 5e-3), (3600.0, 5e-5),
              (60, 1e-3), (600, 2e-4), (100.0, 2e-3)]
LICE_TIMES = ["2022-01-01T00:00:00", "2022-01-15T23:00:00", "2020-06-15T12:00:00", "2020-03-15T12:00:00", "2020-09-15T09:00:00",
              "2020-03-15T06:00:00", "2020-09-15T18:00:00", "2020-12-15T12:00:00", "2020-06-15T00:00:00", "2020-03-15T05:00:00"]


def lice_behaviour_experiment(ctx, rep):
    """salmon lice: nauplii and copepodids in oceanic / brackish / river water (side by side, optionally with a fresh
    surface layer), by night / day / twilight.  Group = (stage, salinity class, avoids the water or not, lit or not):
      salinity class 'below' = fresher than the lowest tolerance of the stage (30 nauplii, 20 copepodids): every louse
        avoids; 'above' = at least the highest tolerance (32 / 28): none avoids; 'band' = in between: the louse avoids
        iff salinity < its tolerance 32 - 2u resp. 28 - 8u, u = the uniform draw the module requests for it (recorded);
      lit = light at the louse's depth surface_light*exp(-0.2 z) >= 0.01 (margin: >= 0.0125 lit, <= 0.008 dark,
        in between not used).
    Within a group the documented deterministic velocity is one number (+swim, -swim or 0)."""
    rng = ctx.rng
    site = "ladim_plugins/salmon_lice/ibm.py"
    M = ibmrun.mod("salmon_lice")
    N = ctx.n(60000, 240000)
    dt, K = LICE_STEPS[rng.randrange(len(LICE_STEPS))] if rep else (600.0, 3e-4)
    sigma = math.sqrt(2 * K * dt)
    steps = rng.choice([1, 1, 2])
    # interior: every update moves a louse by at most swim*dt + 9.5 sigma (a normal draw beyond 9.5: < 3e-21 per draw)
    half = 10.0 - steps * (9.5 * sigma + LICE_SWIM * dt) - 0.01
    if half < 0.25:
        steps = 1
        half = 10.0 - (9.5 * sigma + LICE_SWIM * dt) - 0.01
    assert half > 0.25, (dt, K)
    pool = [3.0, 12.0, 19.0, 22.0, 25.0, 27.0, 29.0, 30.5, 31.5, 33.0, 35.0]
    if rep == 0:
        S = [12.0, 25.0, 31.0, 35.0]                       # river plume, brackish (both bands), oceanic
    else:
        S = [rng.choice(pool) for _ in range(4)]
    sz = rng.choice([0.0, 0.0, 0.2, 0.5]) if rep else 0.0  # fresh layer on top: salinity increases downwards
    water = WaterMasses(T=[rng.choice([4.0, 8.0, 14.0]) for _ in range(4)], S=S, tz=rng.choice([0.0, -0.1]), sz=sz,
                        lon=rng.choice([5.0, 20.0]), lat=rng.choice([60.0, 70.0]))
    ts = np.datetime64(LICE_TIMES[rng.randrange(len(LICE_TIMES))] if rep else LICE_TIMES[0])
    conf = dict(vertical_mixing=K)
    if K == 1e-3 and rng.random() < 0.5:
        conf = dict()                                       # the module's default coefficient
    carrier = rng.choice(["real", "stub"])
    rs = np.random.RandomState(ctx.sub_seed())
    x = rs.uniform(1.0, 39.0, N); y = rs.uniform(2.0, 18.0, N)
    z = 10.0 + rs.uniform(-half, half, N)
    naup = rs.uniform(size=N) < 0.5
    # degree-days: nauplii 0..35, copepodids 45..160; one update adds temp*dt/86400 <= 0.6: nobody changes stage or dies
    age = np.where(naup, rs.uniform(0.0, 35.0, N), rs.uniform(45.0, 160.0, N))
    st = behaviour_state(carrier, dt, ts, dict(X=x, Y=y, Z=z, age=age, days=rs.uniform(0, 20, N), super=np.full(N, 1000.0),
                                                temp=np.zeros(N), salt=np.zeros(N)))
    ibm = M.IBM(dict(dt=dt, ibm=conf))
    grid, forcing = water.grid(), water.forcing()
    with RngRecorder(ctx.sub_seed()) as rec:
        for _ in range(steps):
            del rec.log[:]
            z0 = np.array(st["Z"], float)
            ibm.update_ibm(grid, st, forcing)
        sched = rec.schedule()
        u = rec.log[0][3].copy() if (len(rec.log) and rec.log[0][0] == "rand" and rec.log[0][2] == (N,)) else None
    z1 = np.array(st["Z"], float)
    disp = z1 - z0
    salt0 = water.salt(x, z0)
    light0 = np.asarray(ibmrun.lice_surface_light()(ts, *water.lonlat(x, y)), float)
    Eb = light0 * np.exp(-0.2 * z0)
    lit = np.where(Eb >= 0.0125, 1, np.where(Eb <= 0.008, 0, -1))
    lo_tol = np.where(naup, 30.0, 20.0); hi_tol = np.where(naup, 32.0, 28.0)
    cls = np.where(salt0 < lo_tol - 1e-9, 0, np.where(salt0 >= hi_tol + 1e-9, 2, 1))          # below / band / above
    if u is not None:
        tol = np.where(naup, 32.0 - 2.0 * u, 28.0 - 8.0 * u)
        avoid = np.where(np.abs(salt0 - tol) < 1e-9, -1, (salt0 < tol).astype(int))
    else:
        avoid = np.where(cls == 0, 1, np.where(cls == 2, 0, -1))                               # band: not decidable
    params = dict(module="salmon_lice", dt=dt, K=K, ibm=dict(conf), N=N, updates=steps, state=carrier, timestamp=str(ts),
                  water=water.describe(), depth_range=[10.0 - half, 10.0 + half], surface_light=float(light0[0]),
                  draw_schedule=repr(sched))
    ctx.case(key=("behaviour", "salmon_lice", dt, K, repr(sorted(conf.items())), repr(water.describe()), str(ts), steps, carrier),
             nontrivial=True, sample=params if rep == 0 else None)
    ctx.branch("behaviour.salmon_lice.state_%s" % carrier)
    ctx.branch("behaviour.salmon_lice.water_%s" % ("stratified" if sz else "uniform_in_depth"))
    ctx.branch("behaviour.salmon_lice.updates_%d" % steps)
    ctx.branch("behaviour.salmon_lice.mixing_%s" % ("given" if conf else "default"))
    # generator sanity (not an oracle): the cloud stayed inside the open column (no reflection, no cap)
    interior = (z1 > 0.005) & (z1 < 19.995) & (z1 != 19.0)
    tested = 0
    for s_name, s_sel in (("nauplius", naup), ("copepodid", ~naup)):
        for c, c_name in enumerate(("below_tolerance", "tolerance_band", "above_tolerance")):
            for a, a_name in ((1, "avoiding"), (0, "not_avoiding")):
                if (c == 0 and a == 0) or (c == 2 and a == 1):
                    continue
                for l, l_name in ((1, "lit"), (0, "dark")):
                    sel = s_sel & (cls == c) & (avoid == a) & (lit == l) & interior
                    n = int(sel.sum())
                    if n < MIN_GROUP:
                        continue
                    tested += 1
                    ctx.branch("behaviour.salmon_lice.%s.%s.%s.%s" % (s_name, c_name, a_name, l_name))
                    chi2_variance_ok(ctx, "salmon_lice_behaviour", disp[sel], 2 * K * dt, site,
                                     dict(params, group="%s, salinity %s (%.2f..%.2f), %s the water, %s" % (
                                         s_name, c_name.replace("_", " "), float(salt0[sel].min()), float(salt0[sel].max()), a_name.replace("_", " "), l_name),
                                          example=dict(X=float(x[sel][0]), Z_before=float(z0[sel][0]), Z_after=float(z1[sel][0]),
                                                       age=float(age[sel][0]), salt=float(salt0[sel][0]))))
    if not tested:
        ctx.branch("behaviour.salmon_lice.no_group_large_enough")


def egg_behaviour_experiment(ctx, rep):
    """eggs lighter than / heavier than / as dense as the water of their water mass (egg_buoy = the salinity of neutral
    buoyancy, given relative to the local salinity), small and large eggs (Stokes / Dallavalle regime); water masses of
    different temperature and salinity side by side, uniform in depth, so that all eggs of a (water mass, buoyancy)
    group have the same terminal velocity.  Column [0, 200 m]; eggs start round 100 m."""
    rng = ctx.rng
    site = "ladim_plugins/egg/ibm.py"
    M = ibmrun.mod("egg")
    dt, K = rng.choice([(60.0, 1e-3), (60.0, 1e-2), (600.0, 1e-4), (600.0, 1e-3), (600.0, 5e-3), (3600.0, 1e-4), (3600.0, 1e-3), (600, 1e-2)])
    sigma = math.sqrt(2 * K * dt)                           # <= 3.5 m
    diam = rng.choice([0.0005, 0.0011, 0.0014, 0.003])
    nb = 3
    water = WaterMasses(T=[rng.choice([2.0, 6.0, 10.0, 14.0]) for _ in range(nb)], S=[rng.choice([30.0, 32.0, 34.0, 35.0]) for _ in range(nb)])
    deltas = [0.0] + rng.sample([-3.0, -1.0, -0.2, 0.2, 1.0, 3.0], 3 if ctx.tier != "thorough" else 5)
    per = ctx.n(3000, 10000)
    # terminal velocity: density difference <= 3 salinity units (~2.4 kg/m3), egg <= 3 mm: |W| < 0.005 m/s in both
    # regimes (Stokes: d^2 g drho / (18 mu) with mu >= 1.2e-3: 0.0033 for 1.4 mm, which is the largest Stokes egg here;
    # Dallavalle 3 mm: 0.0038); bound used for the interior margin: 0.01 m/s (checked after the run)
    WMAX = 0.01
    half = 100.0 - 9.5 * sigma - WMAX * dt - 1.0
    assert half > 10.0, (dt, K)
    rs = np.random.RandomState(ctx.sub_seed())
    groups = [(b, d) for b in range(nb) for d in deltas]
    gid = np.repeat(np.arange(len(groups)), per)
    N = len(gid)
    band = np.array([g[0] for g in groups])[gid]; delta = np.array([g[1] for g in groups])[gid]
    order = rs.permutation(N)
    gid, band, delta = gid[order], band[order], delta[order]
    x = band * 10.0 + rs.uniform(1.0, 9.0, N); y = rs.uniform(2.0, 18.0, N)
    z0 = 100.0 + rs.uniform(-half, half, N)
    buoy = water.S[band] + delta
    carrier = rng.choice(["real", "stub"])
    st = behaviour_state(carrier, dt, np.datetime64("2020-03-01T00:00:00"),
                         dict(X=x, Y=y, Z=z0.copy(), age=rs.uniform(0, 50, N), egg_buoy=buoy, temp=np.zeros(N), salt=np.zeros(N)))
    ibm = M.IBM(dict(dt=dt, ibm=dict(vertical_mixing=K, egg_diam=diam)))
    with RngRecorder(ctx.sub_seed()) as rec:
        ibm.update_ibm(water.grid(), st, water.forcing())
        del rec.log[:]
    z1 = np.array(st["Z"], float)
    disp = z1 - z0
    params = dict(module="egg", dt=dt, K=K, egg_diam=diam, N=N, state=carrier, water=water.describe(), depth_range=[100.0 - half, 100.0 + half])
    ctx.case(key=("behaviour", "egg", dt, K, diam, repr(water.describe()), tuple(deltas), carrier), nontrivial=True, sample=params if rep == 0 else None)
    ctx.branch("behaviour.egg.state_%s" % carrier)
    ctx.branch("behaviour.egg.diameter_%g" % diam)
    for g, (b, d) in enumerate(groups):
        sel = gid == g
        mean_w = float(disp[sel].mean()) / dt
        assert abs(mean_w) < 0.8 * WMAX, ("generator sanity: terminal velocity larger than the margin assumes", mean_w, diam, d)
        ctx.branch("behaviour.egg.%s" % ("neutral" if d == 0 else ("heavier_sinking" if d > 0 else "lighter_rising")))
        chi2_variance_ok(ctx, "egg_behaviour", disp[sel], 2 * K * dt, site,
                         dict(params, group="water mass %d (temp %g, salt %g), egg_buoy %g (%+g): mean velocity %.3g m/s" % (
                             b, water.T[b], water.S[b], water.S[b] + d, d, mean_w)))


def shrimp_behaviour_experiment(ctx, rep):
    """shrimp larvae that SWIM (vertical_speed > 0) towards their preferred depth, day or night, every pelagic stage with
    its own mixing coefficient and speed: larvae far above their preferred range (swim down the full dt*speed) and far
    below it (swim up), 'far' = further than dt*speed + 9.5 standard deviations from BOTH the day and the night range of
    their stage, so that the swimming displacement is the same number for the whole (stage, side) group whatever the
    time of day and the depth quantile.  Quantiles given at release or left 0 (the module draws them).  Larvae next to
    their preferred depth (where the module stops them there) are not part of these groups."""
    rng = ctx.rng
    site = "ladim_plugins/shrimp/ibm.py"
    dt = rng.choice([60.0, 600.0, 1800.0, 600])
    K0 = rng.choice([1e-4, 5e-4, 1e-3])
    fac = [1.0, 2.0, 4.0, 8.0, 16.0]; rng.shuffle(fac)
    vm = [K0 * f for f in fac]
    vs = [rng.choice([1e-3, 1e-2, 0.03, 0.0]) for _ in range(5)]
    if all(v == 0 for v in vs) or rep == 0:
        vs[rng.randrange(5)] = 1e-2
    reach = [9.5 * math.sqrt(2 * vm[k] * dt) + vs[k] * dt + 1.0 for k in range(5)]
    top = 2 * max(reach) + 10.0                              # the shallowest preferred depth: room above it for the 'above' groups
    mind_d = [top + rng.choice([0.0, 20.0, 60.0]) for _ in range(5)]; maxd_d = [m + rng.choice([0.0, 10.0, 50.0]) for m in mind_d]
    mind_n = [top + rng.choice([0.0, 5.0, 30.0]) for _ in range(5)]; maxd_n = [m + rng.choice([0.0, 5.0, 30.0]) for m in mind_n]
    per = ctx.n(2500, 8000)
    rs = np.random.RandomState(ctx.sub_seed())
    k = np.repeat(np.arange(5), 2 * per); side = np.tile(np.repeat([0, 1], per), 5)       # 0 above (shallower), 1 below (deeper)
    N = len(k)
    order = rs.permutation(N); k, side = k[order], side[order]
    # stage 0 = "not initialised" (the module makes it 1); fractional parts <= 0.9: growth of one update (< 0.01) does not
    # carry a larva into the next stage
    stage = (k + 1) + rs.choice([0.0, 0.3, 0.75, 0.9], size=N)
    stage = np.where((k == 0) & (rs.uniform(size=N) < 0.3), 0.0, stage)
    rk = np.array(reach)[k]
    shallow = np.minimum(np.array(mind_d), np.array(mind_n))[k]; deep = np.maximum(np.array(maxd_d), np.array(maxd_n))[k]
    za = 9.5 * np.sqrt(2 * np.array(vm)[k] * dt) + 0.5       # surface margin (the reflecting surface is a boundary)
    zb = shallow - rk                                        # the whole range of preferred depths is out of reach
    assert (zb - za).min() > 5.0
    z_above = za + rs.uniform(0.0, 1.0, N) * (zb - za)
    z_below = deep + rk + rs.uniform(0.0, 50.0, N)
    z0 = np.where(side == 0, z_above, z_below)
    q = np.where(rs.uniform(size=N) < 0.4, 0.0, rs.uniform(0.001, 1.0, N))
    month, hour = rng.choice([1, 3, 6, 9, 12]), rng.choice([0, 3, 6, 9, 12, 15, 18, 21])
    ts = np.datetime64("2020-%02d-15T%02d:00:00" % (month, hour))
    case = dict(kind="shrimp", env=LinEnv(h0=5000.0, t0=rng.choice([2.0, 5.0, 7.0, 12.0]), tz=0.0, s0=34.5, sz=0.0, lon0=rng.choice([5.0, 20.0]),
                                          lat0=rng.choice([60.0, 70.0])),
                dt=dt, ts=ts, vm=vm, vs=vs, mind_d=mind_d, maxd_d=maxd_d, mind_n=mind_n, maxd_n=maxd_n,
                x=rs.uniform(2.0, 18.0, N), y=rs.uniform(2.0, 18.0, N), z=z0.copy(), stage=stage, q=q, age=rs.uniform(0, 50, N),
                int_dt=isinstance(dt, int))
    res = ibmrun.shrimp_run(case, ctx.sub_seed(), None, None)
    z1 = np.array(res["after"]["z"], float)
    disp = z1 - z0
    params = dict(module="shrimp", dt=dt, vertical_mixing=vm, vertical_speed=vs, mindepth_day=mind_d, maxdepth_day=maxd_d, mindepth_night=mind_n,
                  maxdepth_night=maxd_n, timestamp=str(ts), N=N, temp=case["env"].t0)
    ctx.case(key=("behaviour", "shrimp", dt, tuple(vm), tuple(vs), tuple(mind_d), tuple(maxd_d), tuple(mind_n), tuple(maxd_n), str(ts)),
             nontrivial=True, sample=params if rep == 0 else None)
    for kk in range(5):
        for sd, sname in ((0, "above_preferred_swims_down"), (1, "below_preferred_swims_up")):
            sel = (k == kk) & (side == sd)
            if vm[kk] == 0 or int(sel.sum()) < MIN_GROUP:
                continue
            ctx.branch("behaviour.shrimp.%s.%s" % (sname, "swimming" if vs[kk] > 0 else "speed_zero"))
            chi2_variance_ok(ctx, "shrimp_behaviour", disp[sel], 2 * vm[kk] * dt, site,
                             dict(params, K=vm[kk], group="stage %d larvae %s (speed %g m/s, depths %.1f..%.1f m; mean displacement %.3f m)" % (
                                 kk + 1, sname.replace("_", " "), vs[kk], float(z0[sel].min()), float(z0[sel].max()), float(disp[sel].mean()))))


def mine_advection_experiment(ctx, rep):
    """mine particles with vertical_advection on in a vertical current (constant upwelling / downwelling w): the
    deterministic displacement dt*(sink_vel + w) is removed per particle (sink_vel is an input) / by the sample mean
    (w); statuses 1 and 2, with / without the variable `active`"""
    rng = ctx.rng
    Mm = ibmrun.mod("mine")
    N = ctx.n(20000, 100000)
    dt = rng.choice([60.0, 600.0]); K = rng.choice([1e-4, 1e-3, 1e-2]); sigma = math.sqrt(2 * K * dt)
    w = rng.choice([1e-3, -1e-3, 1e-4, -1e-4, 5e-3])
    H = 5000.0
    has_active = rng.random() < 0.7
    carrier = rng.choice(["real", "stub"])
    conf = dict(lifespan=1e12, vertical_mixing=K, vertical_advection=True, land_collision=rng.choice(["freeze", "reposition"]))
    if rng.random() < 0.5:
        conf["taucrit"] = rng.choice([1000, 5000.0])
    rs = np.random.RandomState(ctx.sub_seed())
    arr = dict(X=rs.uniform(2, 18, N), Y=rs.uniform(2, 18, N), Z=rs.uniform(1000.0, 4000.0, N), age=np.zeros(N),
               sink_vel=rs.choice([1e-7, 1e-6, 1e-5, 1e-3], size=N))
    flag = rs.choice([1, 2], size=N)
    if has_active:
        arr["active"] = np.ones(N, bool) if carrier == "real" else flag.astype(float)
    cloud = Cloud(carrier, dt, arr)
    g = Obj(sample_depth=lambda x, y: np.zeros(len(x)) + H, lonlat=lambda x, y: (np.asarray(x, float) + 0.0, np.asarray(y, float) + 0.0))
    f = Obj(velocity=lambda x, y, z, tstep=0: (np.zeros(len(x)), np.zeros(len(x))),
            forcing=Obj(wvel=lambda x, y, z, *a, **k: np.zeros(len(x)) + w))
    ibm = Mm.IBM(dict(dt=dt, ibm=conf, output_instance=[], nc_attributes={}))
    z0 = cloud.get("Z").astype(float); sink = cloud.get("sink_vel").astype(float)
    cloud.st.timestep = 1
    with RngRecorder(ctx.sub_seed()) as rec:
        ibm.update_ibm(g, cloud.st, f)
        del rec.log[:]
    disp = cloud.get("Z").astype(float) - z0 - dt * sink
    params = dict(module="mine", dt=dt, K=K, ibm=dict(conf), N=N, state=carrier, active_variable=has_active, wvel=w, depth=H)
    ctx.case(key=("behaviour", "mine", dt, K, w, repr(sorted(conf.items(), key=str)), carrier, has_active), nontrivial=True, sample=params if rep == 0 else None)
    ctx.branch("behaviour.mine.vertical_current_%s" % ("down" if w > 0 else "up"))
    groups = [(1, flag == 1), (2, flag == 2)] if (has_active and carrier != "real") else [(1, np.ones(N, bool))]
    for fl, sel in groups:
        chi2_variance_ok(ctx, "mine_behaviour", disp[sel], 2 * K * dt, "ladim_plugins/mine/ibm.py",
                         dict(params, group="status %d, vertical current %g m/s" % (fl, w)))


def behaviour_variances(ctx):
    for rep in range(ctx.n(5, 14)):
        lice_behaviour_experiment(ctx, rep)
    for rep in range(ctx.n(3, 6)):
        egg_behaviour_experiment(ctx, rep)
    for rep in range(ctx.n(3, 8)):
        shrimp_behaviour_experiment(ctx, rep)
    for rep in range(ctx.n(2, 5)):
        mine_advection_experiment(ctx, rep)



def ladis_corr(ctx, drv):
    M = ibmrun.mod("sedimentation")
    pend = []
    for _ in range(ctx.n(200, 3000)):
        kk = ctx.rng.randrange(3); k0 = ctx.rng.choice([1e-4, 1e-3, 1e-2]); k1 = ctx.rng.choice([1e-5, 1e-3]); zs = ctx.rng.choice([1.0, 5.0])
        v0 = ctx.rng.choice([0.0, 1e-3, -1e-3]); v1 = ctx.rng.choice([0.0, 1e-5]); dt = ctx.rng.choice([1.0, 60.0, 600.0])
        n = ctx.rng.randrange(1, 5)
        x0 = np.array([ctx.rng.uniform(0, 10) for _ in range(n)])
        if kk == 0: K = lambda x, t: 0 * x + k0
        elif kk == 1: K = lambda x, t: k0 + k1 * x
        else: K = lambda x, t: np.where(x < zs, k0, k1)
        with RngRecorder(ctx.sub_seed(), ibmrun.tail_injector(ctx.rng)) as rec:
            out = M.ladis(x0, 0.0, dt, lambda x, t: v0 + v1 * x, K)
        ok = rec.schedule() == [("randn", (n,))]
        ctx.case(key=("ladis", kk, k0, k1, zs, v0, v1, dt, repr(x0.tolist())), nontrivial=True)
        ctx.branch("ladis")
        if not ok:
            ctx.disagreement("ladis.draw_schedule", "expected one randn(%d), got %r" % (n, rec.schedule()), dict(x0=x0))
            continue
        ctx.schedule_matches += 1
        if drv.available:
            xi = rec.log[0][3]
            for i in range(n):
                j = drv.ask("sed.ladis", I(kk), F(k0), F(k1), F(zs), F(v0), F(v1), F(dt), F(xi[i]), F(x0[i]))
                pend.append((j, out[i], dict(kk=kk, k0=k0, k1=k1, zs=zs, v0=v0, v1=v1, dt=dt, xi=xi[i], x0=x0[i])))
    if drv.available:
        rep = drv.run()
        for j, impl, cs in pend:
            ctx.eq_bits("ladis", impl, unF(rep[j][1][0]), cs)


def run(ctx):
    const_uniformity(ctx)
    labolle_profiles(ctx)
    variances(ctx)
    drv = Driver()
    if getattr(ctx, "widened", False):
        drv.available = False
    ladis_corr(ctx, drv)
    # scheme pinned bit-exactly (LaBolle predictor/corrector, reflections, sub-steps)
    if not getattr(ctx, "widened", False):
        c05.run(ctx, modules=None, oracle=lambda *a: None)
    # status flags / multi-step histories through IBM.update_ibm (last, so that the inputs of the experiments above are
    # the same as before these were added)
    flag_histories(ctx)
    # sub-step lengths (vertdiff_dt dividing / not dividing / larger than dt; ladis intervals): after everything else, same reason
    substeps(ctx)
    # several updates of ONE IBM instance with horizontal transport to other water depths in between (last, same reason)
    transport_histories(ctx)
    # behavioural states of the velocity + mixing modules (water masses, stages, light, buoyancy, swimming): last, same reason
    behaviour_variances(ctx)


def replay(payload):
    print("predicate:", payload.get("predicate"), "|", payload.get("detail"))
    return False
