"""C09 — development never runs backwards and switches behaviour at its thresholds.

Correspondence: sand-eel egg/larval development (real `update_ibm`, stub forcing) and `hatch_time` (real
scipy RectBivariateSpline) against the Lean model (explicit quadratic x piecewise-linear table), shrimp
stage/length and larvae weight/age through the shared IBM runners.  Oracle: monotone stages, rate =
published rate x dt, activity flag switching exactly at stages 1 / 2 / 6, length table, hatch switch."""
import math
import numpy as np
from . import ibmrun, c05
from .common import Driver, F, B, unF, close, RngRecorder
from .stubs import real_state, LinEnv, Obj

RULE = ("sand eel: stages across 0..2.2 incl. just below/at 1 and 2, hatch rates 0..1 (0 = to be drawn), bottom and "
        "ambient temperatures -2..25, dt 1 s..2 d, single updates and histories up to completion; hatch_time on a "
        "rate x temperature grid incl. outside [2,10]; shrimp and larvae/saithe through the shared runners. "
        "Non-trivial: >=1 particle.")
ASSUMPTIONS = ["exp/pow/log results compared with relative tolerance 1e-9"]
SITE = "ladim_plugins/sandeel/ibm.py"


def sandeel_dev_case(rng, n=None):
    n = rng.randrange(1, 9) if n is None else n
    dt = rng.choice([1.0, 600.0, 3600.0, 86400.0, 172800.0])
    stage = np.array([rng.choice([0.0, 0.5, 0.999999, 1.0, 1.0 - 1e-12, 1.5, 1.9999, 2.0, 2.2, rng.uniform(0, 2.2)]) for _ in range(n)])
    hatch = np.array([rng.choice([rng.uniform(0.001, 1.0), 0.5, 1.0, 1e-6]) for _ in range(n)])
    active = np.array([(1 <= s < 2) for s in stage])
    bt = rng.choice([-2.0, 2.0, 3.0, 4.0, 5.5, 7.0, 9.0, 10.0, 25.0])
    temp = rng.choice([-1.0, 0.0, 6.0, 12.0, 25.0])
    if rng.random() < 0.3:
        # exact-threshold eggs: stage + dt/(days*86400) == 1.0 exactly (activation uses `>= 1`)
        M = __import__("importlib").import_module("ladim_plugins.sandeel.ibm")
        days = M.hatch_time(hatch, np.full(n, bt))
        for i in range(n):
            inc = dt / (days[i] * 60 * 60 * 24)
            for cand in (1.0 - inc, np.nextafter(1.0 - inc, 0.0), np.nextafter(1.0 - inc, 2.0)):
                if 0 <= cand < 1 and cand + inc == 1.0:
                    stage[i] = cand; active[i] = False
                    break
    return dict(dt=dt, stage=stage, hatch=hatch, active=active, bt=bt, temp=temp, n=n)


def sandeel_dev_run(case, seed, ibm=None, state=None):
    n = case["n"]
    M = ibmrun.mod("sandeel")
    ibm = ibm or M.IBM(dict(dt=case["dt"], ibm=dict(vertical_mixing=0.0, max_depth=1000.0)))
    env = LinEnv(h0=100.0, t0=case["temp"], tz=0.0)
    g = env.grid(); g.grid = Obj(i0=0, j0=0)
    f = env.forcing(); f.forcing = Obj(temp=np.full((1, 8, 8), case["bt"]))
    state = state or real_state(dt=case["dt"], X=np.full(n, 3.0), Y=np.full(n, 3.0), Z=np.full(n, 10.0),
                                stage=case["stage"].copy(), hatch_rate=case["hatch"].copy(), active=case["active"].copy())
    before = dict(stage=state["stage"].copy(), active=state.active.copy(), hatch=state["hatch_rate"].copy())
    with RngRecorder(seed):
        ibm.update_ibm(g, state, f)
    after = dict(stage=state["stage"].copy(), active=state.active.copy(), hatch=state["hatch_rate"].copy())
    return before, after, ibm, state


def sandeel(ctx, drv):
    M = ibmrun.mod("sandeel")
    pend = []

    def check_step(case, before, after, tag):
        n = case["n"]
        days = M.hatch_time(after["hatch"], np.full(n, case["bt"])) if n else np.zeros(0)
        for i in range(n):
            cs = dict(case={k: (v.tolist() if isinstance(v, np.ndarray) else v) for k, v in case.items()}, particle=i,
                      before={k: v[i] for k, v in before.items()}, after={k: v[i] for k, v in after.items()})
            s0, s1 = before["stage"][i], after["stage"][i]
            ctx.oracle(s1 >= s0, "C09.sandeel.stage_decreased", SITE, "stage %r -> %r" % (s0, s1), cs)
            if s0 < 1:
                inc = case["dt"] / (days[i] * 60 * 60 * 24)
                s_egg = s0 + inc
                ctx.oracle(days[i] > 0, "C09.sandeel.hatch_time_nonpositive", SITE, "hatch time %r" % days[i], cs)
                if not (1 <= s_egg < 2):
                    ctx.oracle(close(s1, s_egg, 1e-12), "C09.sandeel.egg_rate", SITE,
                               "stage %r + dt/(days*86400)=%r expected %r got %r" % (s0, inc, s_egg, s1), cs)
                    ctx.oracle(bool(after["active"][i]) == (s1 >= 1), "C09.sandeel.egg_activation", SITE,
                               "stage' %r active' %r" % (s1, after["active"][i]), cs)
            if 1 <= s1 and 1 <= (s0 if s0 >= 1 else s0 + case["dt"] / (days[i] * 86400)) < 2:
                ctx.oracle(bool(after["active"][i]) == (s1 < 2), "C09.sandeel.larva_activity", SITE,
                           "stage' %r active' %r" % (s1, after["active"][i]), cs)
            if s0 >= 2:
                ctx.oracle(s1 == s0 and bool(after["active"][i]) == bool(before["active"][i]), "C09.sandeel.metamorphosed_changed",
                           SITE, "stage %r -> %r" % (s0, s1), cs)
            if drv.available:
                j = drv.ask("dev.sandeel", F(case["bt"]), F(case["temp"]), F(after["hatch"][i]), F(case["dt"]), F(s0),
                            B(before["active"][i]))
                pend.append((j, s1, bool(after["active"][i]), cs))

    for c in range(ctx.n(150, 3000)):
        case = sandeel_dev_case(ctx.rng)
        before, after, _, _ = sandeel_dev_run(case, ctx.sub_seed())
        ctx.case(key=("sandeel", repr({k: (v.tolist() if isinstance(v, np.ndarray) else v) for k, v in case.items()})),
                 nontrivial=True, sample=dict(dt=case["dt"], bt=case["bt"], n=case["n"]) if c == 0 else None)
        ctx.branch("sandeel.single")
        check_step(case, before, after, "single")
    # histories up to completion
    for h in range(ctx.n(6, 60)):
        case = sandeel_dev_case(ctx.rng, n=4)
        case["stage"] = np.array([0.0, 0.3, 0.9, 1.2]); case["active"] = np.array([False, False, False, True])
        case["dt"] = ctx.rng.choice([86400.0, 43200.0, 172800.0]); case["bt"] = ctx.rng.choice([4.0, 7.0, 9.5]); case["temp"] = ctx.rng.choice([8.0, 12.0])
        ibm = None; state = None
        for s in range(ctx.n(120, 400)):
            before, after, ibm, state = sandeel_dev_run(case, ctx.sub_seed(), ibm, state)
            ctx.case(key=("sandeel_hist", h, s), nontrivial=True)
            ctx.branch("sandeel.history_step")
            check_step(case, before, after, "hist")
            case = dict(case, stage=after["stage"].copy(), active=after["active"].copy(), hatch=after["hatch"].copy())
            if np.all(after["stage"] >= 2):
                ctx.branch("sandeel.history_completed")
                break
    # hatch_time against the spline and the table
    tab = {(0.0, 2.0): 61, (0.0, 4.0): 51, (0.0, 7.0): 39, (0.0, 10.0): 25, (0.5, 2.0): 82, (0.5, 4.0): 67, (0.5, 7.0): 48,
           (0.5, 10.0): 30, (1.0, 2.0): 135, (1.0, 4.0): 116, (1.0, 7.0): 82, (1.0, 10.0): 55}
    for (r, t), v in tab.items():
        got = float(M.hatch_time(np.array([r]), np.array([t]))[0])
        ctx.case(key=("hatch_tab", r, t), nontrivial=True)
        ctx.oracle(close(got, v, 1e-9), "C09.sandeel.hatch_table", SITE, "hatch_time(%r,%r)=%r, table %r" % (r, t, got, v), dict(rate=r, temp=t))
    hp = []
    for _ in range(ctx.n(400, 6000)):
        r = ctx.rng.choice([0.0, 1.0, 0.5, ctx.rng.random()]); t = ctx.rng.choice([-3.0, 2.0, 4.0, 7.0, 10.0, 30.0, ctx.rng.uniform(0, 12)])
        got = float(M.hatch_time(np.array([r]), np.array([t]))[0])
        ctx.case(key=("hatch", r, t), nontrivial=True); ctx.branch("sandeel.hatch_time")
        ctx.oracle(got > 0, "C09.sandeel.hatch_time_nonpositive", SITE, "hatch_time(%r,%r)=%r" % (r, t, got), dict(rate=r, temp=t))
        if drv.available:
            hp.append((drv.ask("dev.hatchtime", F(r), F(t)), got, dict(rate=r, temp=t)))
    if drv.available:
        rep = drv.run()
        for j, s1, a1, cs in pend:
            st, t = rep[j]
            ctx.eq_close("sandeel.stage", s1, unF(t[0]), cs, rel=1e-9, abs_=1e-12)
            # the activity flag may legitimately differ when the stage is within tolerance of a threshold
            ms = unF(t[0])
            if min(abs(ms - 1), abs(ms - 2)) > 1e-9:
                ctx.eq("sandeel.active", a1, t[1] == "1", cs)
        for j, got, cs in hp:
            ctx.eq_close("sandeel.hatch_time", got, unF(rep[j][1][0]), cs, rel=1e-9)


def oracle(ctx, name, case, res):
    b, a, n = res["before"], res["after"], res["n"]
    site = "ladim_plugins/%s/ibm.py" % name
    TAB = [6.371, 7.480, 9.144, 11.433, 12.088, 13.175]
    for i in range(n):
        cs = dict(module=name, case=ibmrun.case_summary(case), particle=i,
                  before={k: v[i] for k, v in b.items()}, after={k: v[i] for k, v in a.items()})
        if name == "shrimp":
            s0 = res["meta"]["stage0"][i]; s1 = a["stage"][i]
            ctx.oracle(1 <= s1 <= 6, "C09.shrimp.stage_range", site, "stage' %r" % s1, cs)
            if s0 <= 6:
                ctx.oracle(s1 >= s0, "C09.shrimp.stage_decreased", site, "stage %r -> %r" % (s0, s1), cs)
            t = min(max(a["temp"][i], 3), 8)
            want = s0 + (case["dt"] / 86400) * t / (34.98593627 + 4.12176015 * t)
            if 1 <= want <= 6 and s0 >= 1:
                ctx.oracle(close(s1, want, 1e-12), "C09.shrimp.stage_rate", site, "stage %r -> %r expected %r" % (s0, s1, want), cs)
            ctx.oracle(bool(a["active"][i]) == (s1 < 6), "C09.shrimp.active_iff_lt_6", site, "stage' %r active' %r" % (s1, a["active"][i]), cs)
            k = int(math.floor(s1))
            if s1 == k:
                ctx.oracle(close(a["length"][i], TAB[k - 1], 1e-12), "C09.shrimp.length_table", site,
                           "stage %r length %r table %r" % (s1, a["length"][i], TAB[k - 1]), cs)
            ctx.oracle(TAB[0] <= a["length"][i] <= TAB[5], "C09.shrimp.length_range", site, "length %r" % a["length"][i], cs)
        else:
            hd = float(case["sp"]["hatch_day"]); init = float(case["sp"]["init_larvae_weight"])
            is_egg = b["age"][i] <= hd
            if is_egg:
                ctx.oracle(a["weight"][i] == b["weight"][i], "C09.%s.egg_grew" % name, site,
                           "egg (age %r <= %r) changed weight %r -> %r" % (b["age"][i], hd, b["weight"][i], a["weight"][i]), cs)
            elif a["temp"][i] >= 0:      # the property quantifies over non-negative temperatures for the degree-day clocks
                ctx.oracle(a["weight"][i] >= init, "C09.%s.weight_floor" % name, site,
                           "larva weight' %r < init %r" % (a["weight"][i], init), cs)
                if True:
                    ctx.oracle(a["weight"][i] > max(b["weight"][i], init) * (1 - 1e-15), "C09.%s.growth_negative" % name, site,
                               "weight %r -> %r at temp %r" % (b["weight"][i], a["weight"][i], a["temp"][i]), cs)
            if a["temp"][i] >= 0:
                ctx.oracle(a["age"][i] >= b["age"][i], "C09.%s.age_decreased" % name, site, "age", cs)


def shrimp_length(ctx, drv):
    M = ibmrun.mod("shrimp")
    if not drv.available:
        return
    pend = []
    for _ in range(ctx.n(200, 3000)):
        s = ctx.rng.choice([1.0, 2.0, 3.0, 4.0, 5.0, 6.0, ctx.rng.uniform(1, 6)])
        tab_len = [6.371, 7.480, 9.144, 11.433, 12.088, 13.175]
        impl = float(np.interp(s, [1, 2, 3, 4, 5, 6], tab_len))
        pend.append((drv.ask("dev.shrimplen", F(s)), impl, dict(stage=s)))
        ctx.case(key=("shrimplen", s), nontrivial=True)
    rep = drv.run()
    for j, impl, cs in pend:
        ctx.eq_bits("shrimp.length(np.interp contract)", impl, unF(rep[j][1][0]), cs)


def run(ctx):
    drv = Driver()
    if getattr(ctx, "widened", False):
        drv.available = False
    sandeel(ctx, drv)
    shrimp_length(ctx, drv)
    c05.run(ctx, modules=["shrimp", "larvae", "saithe"], oracle=oracle)


def replay(payload):
    print("predicate:", payload.get("predicate"), "|", payload.get("detail"))
    return False
