"""C09 — development never runs backwards and switches behaviour at its thresholds.

Correspondence: sand-eel egg/larval development (real `update_ibm`, stub forcing) and `hatch_time` (real
scipy RectBivariateSpline) against the Lean model (explicit quadratic x piecewise-linear table), shrimp
stage/length and larvae weight/age through the shared IBM runners.  Oracle: monotone stages, rate =
published rate x dt, activity flag switching exactly at stages 1 / 2 / 6, length table, hatch switch."""
import math
import numpy as np
from . import ibmrun, c05
from .common import Driver, F, B, unF, close, RngRecorder
from .stubs import real_state, LinEnv, Obj

RULE = ("sand eel: stages across 0..2.2 incl. just below/at 1 and 2, hatch rates 0..1 incl. exactly 0 (= drawn by the "
        "first update, tails injected), bottom and ambient temperatures -2..25, dt 1 s..2 d (int or float in the "
        "configuration), initial `active` flag consistent with the stage or arbitrary (LADiM's default is 1); half of "
        "the cases heterogeneous: per-particle positions on a 3-level 7x10 bottom-temperature field that varies "
        "differently along X and Y, sub-grid offsets i0 in {0,1,3} / j0 in {0,1,2}, positions next to cell borders, "
        "ambient temperature varying with the particle depth; single updates and histories (random start stages, "
        "hatch rates incl. 0, dt 1 h..2 d, temperatures changing between steps) run up to completion; hatch_time on a "
        "rate x temperature grid incl. outside [2,10] and 2-D arguments; shrimp through the shared runner plus start "
        "stages above 6 (the repository's example releases stage 7) and histories up to stage 6 with the temperature "
        "changing between steps; larvae/saithe through the shared runner plus dt 1 s / 1 d / 2 d and overridden "
        "init_larvae_weight / egg_diam (larvae). Non-trivial: >=1 particle.")
ASSUMPTIONS = ["exp/pow/log results compared with relative tolerance 1e-9 against the model; implementation-side "
               "oracles that redo the published formula with numpy's own exp/log/power use 1e-12 (a few ulp between "
               "the scalar and the vectorised libm routines)",
               "larvae/saithe depth after the update is compared with 2e-6 relative to the distance travelled "
               "(the velocity array of the code is float32)"]
SITE = "ladim_plugins/sandeel/ibm.py"

FIELD_SHAPE = (3, 7, 10)        # levels, ny, nx of the heterogeneous bottom-temperature field (nx != ny)


# ============================================================================================ sand eel
def sandeel_field(case):
    """bottom-temperature field of a case: level 0 is the bottom level (ROMS order); the other levels differ"""
    h = case.get("hetero")
    if not h:
        return np.full((1, 8, 8), case["bt"])
    nl, ny, nx = FIELD_SHAPE
    jj, ii = np.meshgrid(np.arange(ny), np.arange(nx), indexing="ij")
    f0 = h["a"] + h["bx"] * ii + h["cy"] * jj
    return np.stack([f0 + 9.5 * k + 0.25 * k * ii for k in range(nl)])


def sandeel_temps(case):
    """(bottom temperature, ambient temperature) of every particle, from the construction of the case (the cell a
    particle was placed in), not from the implementation's index arithmetic"""
    n = case["n"]
    h = case.get("hetero")
    if not h:
        return np.full(n, float(case["bt"])), np.full(n, float(case["temp"]))
    bt = np.array([h["a"] + h["bx"] * int(i) + h["cy"] * int(j) for i, j in zip(h["ci"], h["cj"])], dtype=float)
    return bt, case["temp"] + h["tz"] * h["Z"]


def sandeel_dev_case(rng, n=None):
    n = rng.randrange(1, 9) if n is None else n
    dt = rng.choice([1.0, 600.0, 3600.0, 86400.0, 172800.0])
    stage = np.array([rng.choice([0.0, 0.5, 0.999999, 1.0, 1.0 - 1e-12, 1.5, 1.9999, 2.0, 2.2, rng.uniform(0, 2.2)]) for _ in range(n)])
    hatch = np.array([rng.choice([rng.uniform(0.001, 1.0), 0.5, 1.0, 1e-6, 0.0]) for _ in range(n)])
    active = np.array([(1 <= s < 2) for s in stage])
    bt = rng.choice([-2.0, 2.0, 3.0, 4.0, 5.5, 7.0, 9.0, 10.0, 25.0])
    temp = rng.choice([-1.0, 0.0, 6.0, 12.0, 25.0])
    case = dict(dt=dt, stage=stage, hatch=hatch, active=active, bt=bt, temp=temp, n=n)
    if rng.random() < 0.5:
        # every particle in its own cell of a field that varies differently along X and Y, on a sub-grid with
        # offsets; `ci`, `cj` are the cell the particle is placed in, the position is up to half a cell away from
        # the cell centre (never exactly on a border, where "nearest cell" is not defined)
        nl, ny, nx = FIELD_SHAPE
        i0 = rng.choice([0, 1, 3]); j0 = rng.choice([0, 1, 2])
        ci = np.array([rng.randrange(nx) for _ in range(n)]); cj = np.array([rng.randrange(ny) for _ in range(n)])
        off = lambda: rng.choice([0.0, 0.3, -0.3, 0.5 - 1e-9, -0.5 + 1e-9, rng.uniform(-0.49, 0.49)])
        X = np.array([i0 + ci[k] + off() for k in range(n)]); Y = np.array([j0 + cj[k] + off() for k in range(n)])
        Z = np.array([rng.choice([0.0, 5.0, 10.0, 37.5, rng.uniform(0, 80)]) for _ in range(n)])
        case["hetero"] = dict(i0=i0, j0=j0, ci=ci, cj=cj, X=X, Y=Y, Z=Z, a=rng.choice([-2.0, 1.0, 4.0, 8.0, 20.0]),
                              bx=rng.choice([0.37, -0.5, 1.3]), cy=rng.choice([0.21, -0.8, 2.0]),
                              tz=rng.choice([0.05, -0.02, 0.3]))
    if rng.random() < 0.4:
        # the flag is whatever the release file / LADiM's default (1) left there
        case["active"] = np.array([rng.random() < 0.5 for _ in range(n)])
        case["free_active"] = True
    case["int_dt"] = rng.random() < 0.3
    if rng.random() < 0.3:
        # exact-threshold eggs: stage + dt/(days*86400) == 1.0 exactly (activation uses `>= 1`)
        M = __import__("importlib").import_module("ladim_plugins.sandeel.ibm")
        btp, _ = sandeel_temps(case)
        days = M.hatch_time(hatch, btp)
        for i in range(n):
            if hatch[i] == 0:
                continue                      # the rate is not known before the update
            inc = dt / (days[i] * 60 * 60 * 24)
            for cand in (1.0 - inc, np.nextafter(1.0 - inc, 0.0), np.nextafter(1.0 - inc, 2.0)):
                if 0 <= cand < 1 and cand + inc == 1.0:
                    stage[i] = cand
                    if not case.get("free_active"):
                        case["active"][i] = False
                    break
    if rng.random() < 0.2:
        # exact-threshold larvae: the growth step lands on stage 2.0 exactly (deactivation uses `< 2`); found by
        # bisection on the start stage with the implementation's own growth function, then among the neighbouring doubles
        M = __import__("importlib").import_module("ladim_plugins.sandeel.ibm")
        _, tmp = sandeel_temps(case)
        for i in range(n):
            if 1 <= stage[i] < 2:
                cand = larva_landing_on_2(M, float(tmp[i]), dt)
                if cand is not None:
                    stage[i] = cand
                    case["exact_2"] = True
    return case


def larva_landing_on_2(M, temp, dt):
    def f(s):
        st = np.array([s]); act = np.array([True])
        M.larval_development(np.array([temp]), st, act, dt)
        return st[0]
    lo, hi = 1.0, float(np.nextafter(2.0, 0.0))
    if f(lo) >= 2 or f(hi) < 2:
        return None
    for _ in range(60):
        mid = 0.5 * (lo + hi)
        if f(mid) >= 2:
            hi = mid
        else:
            lo = mid
    c = lo
    for _ in range(6):
        c = float(np.nextafter(c, 0.0))
    for _ in range(16):
        if f(c) == 2.0:
            return c
        c = float(np.nextafter(c, 3.0))
    return None


def sandeel_dev_run(case, seed, ibm=None, state=None, inject=None):
    n = case["n"]
    M = ibmrun.mod("sandeel")
    ibm = ibm or M.IBM(dict(dt=ibmrun.cfg_dt(case), ibm=dict(vertical_mixing=0.0, max_depth=1000.0)))
    h = case.get("hetero")
    env = LinEnv(h0=100.0, t0=case["temp"], tz=h["tz"] if h else 0.0)
    g = env.grid(); g.grid = Obj(i0=h["i0"] if h else 0, j0=h["j0"] if h else 0)
    f = env.forcing(); f.forcing = Obj(temp=sandeel_field(case))
    if state is None:
        X, Y, Z = (h["X"].copy(), h["Y"].copy(), h["Z"].copy()) if h else (np.full(n, 3.0), np.full(n, 3.0), np.full(n, 10.0))
        state = real_state(dt=case["dt"], X=X, Y=Y, Z=Z,
                           stage=case["stage"].copy(), hatch_rate=case["hatch"].copy(), active=case["active"].copy())
    before = dict(stage=state["stage"].copy(), active=state.active.copy(), hatch=state["hatch_rate"].copy())
    with RngRecorder(seed, inject):
        ibm.update_ibm(g, state, f)
    after = dict(stage=state["stage"].copy(), active=state.active.copy(), hatch=state["hatch_rate"].copy())
    return before, after, ibm, state


def sandeel_larval_step(s, temp, dt):
    """one larval growth step as published (Christensen et al. 2008, doi:10.1139/F08-073, as quoted in the code's
    docstring): length L = L0 + (stage - 1)(Lm - L0), dL/dt = exp(l0 + l1 T) (L/L0)^gamma (1 - L/Linf) mm/day"""
    Lm, L0, Linf = 40.0, 7.73, 218.0
    L = L0 + (s - 1) * (Lm - L0)
    lamb = np.exp(-1.725 + 0.136 * temp)
    Ln = L + lamb * np.power(L / L0, 0.316) * (1 - L / Linf) * dt / 86400
    return float(1 + (Ln - L0) / (Lm - L0))


def sandeel_summary(case):
    out = {}
    for k, v in case.items():
        if isinstance(v, dict):
            v = {a: (b.tolist() if isinstance(b, np.ndarray) else b) for a, b in v.items()}
        out[k] = v.tolist() if isinstance(v, np.ndarray) else v
    return out


def quad3(d0, d1, d2, r):
    """the parabola through (0, d0), (0.5, d1), (1, d2)"""
    return d0 * (r - 0.5) * (r - 1) / 0.5 + d1 * r * (r - 1) / (-0.25) + d2 * r * (r - 0.5) / 0.5


def hatch_time_published(r, t):
    """Smigielski et al. (1984) table as the docstring of `hatch_time` reads it: second order in the rate direction,
    linear in temperature, temperature limited to the tabulated range"""
    days = [[61, 51, 39, 25], [82, 67, 48, 30], [135, 116, 82, 55]]
    T = [2.0, 4.0, 7.0, 10.0]
    t = min(10.0, max(2.0, t))
    q = [quad3(days[0][k], days[1][k], days[2][k], r) for k in range(4)]
    k = 0 if t < 4 else (1 if t < 7 else 2)
    return q[k] + (q[k + 1] - q[k]) * (t - T[k]) / (T[k + 1] - T[k])


def sandeel(ctx, drv):
    M = ibmrun.mod("sandeel")
    pend = []

    def check_step(case, before, after, tag):
        n = case["n"]
        btp, tmp = sandeel_temps(case)
        days = M.hatch_time(after["hatch"], btp) if n else np.zeros(0)
        summ = sandeel_summary(case)
        for i in range(n):
            cs = dict(case=summ, particle=i, bottom_temp=float(btp[i]), ambient_temp=float(tmp[i]),
                      before={k: v[i] for k, v in before.items()}, after={k: v[i] for k, v in after.items()})
            s0, s1 = before["stage"][i], after["stage"][i]
            ctx.oracle(s1 >= s0, "C09.sandeel.stage_decreased", SITE, "stage %r -> %r" % (s0, s1), cs)
            # the hatch rate is the particle's own constant: drawn once (0 = not drawn yet), then kept
            h0, h1 = before["hatch"][i], after["hatch"][i]
            if h0 != 0:
                ctx.oracle(h1 == h0, "C09.sandeel.hatch_rate_changed", SITE, "hatch rate %r -> %r" % (h0, h1), cs)
            else:
                ctx.branch("sandeel.hatch_rate_drawn")
                ctx.oracle(0 <= h1 <= 1, "C09.sandeel.hatch_rate_outside_0_1", SITE, "hatch rate drawn: %r" % h1, cs)
            if s0 < 1:
                inc = case["dt"] / (days[i] * 60 * 60 * 24)
                s_egg = s0 + inc
                ctx.oracle(days[i] > 0, "C09.sandeel.hatch_time_nonpositive", SITE, "hatch time %r" % days[i], cs)
                if not (1 <= s_egg < 2):
                    ctx.oracle(close(s1, s_egg, 1e-12), "C09.sandeel.egg_rate", SITE,
                               "stage %r + dt/(days*86400)=%r expected %r got %r" % (s0, inc, s_egg, s1), cs)
                    ctx.oracle(bool(after["active"][i]) == (s1 >= 1), "C09.sandeel.egg_activation", SITE,
                               "stage' %r active' %r" % (s1, after["active"][i]), cs)
                    if before["active"][i]:
                        ctx.branch("sandeel.egg_flagged_active_before")
            if 1 <= s1 and 1 <= (s0 if s0 >= 1 else s0 + case["dt"] / (days[i] * 86400)) < 2:
                ctx.oracle(bool(after["active"][i]) == (s1 < 2), "C09.sandeel.larva_activity", SITE,
                           "stage' %r active' %r" % (s1, after["active"][i]), cs)
            s_lar = s0 if s0 >= 1 else s0 + case["dt"] / (days[i] * 60 * 60 * 24)
            if 1 <= s_lar < 2:
                # larval stage advances by the published growth rate (at the ambient temperature) times dt; an egg
                # that hatches in this update is a larva for the rest of it.  1e-12: numpy exp/power, scalar vs array
                want = sandeel_larval_step(s_lar, tmp[i], case["dt"])
                ctx.oracle(close(s1, want, 1e-12, 0.0), "C09.sandeel.larva_rate", SITE,
                           "larva at stage %r, %r degC, dt %r: stage' %r, published growth gives %r" % (s_lar, tmp[i], case["dt"], s1, want), cs)
            if s0 >= 2:
                ctx.oracle(s1 == s0 and bool(after["active"][i]) == bool(before["active"][i]), "C09.sandeel.metamorphosed_changed",
                           SITE, "stage %r -> %r" % (s0, s1), cs)
            if drv.available:
                j = drv.ask("dev.sandeel", F(btp[i]), F(tmp[i]), F(after["hatch"][i]), F(case["dt"]), F(s0),
                            B(before["active"][i]))
                pend.append((j, s1, bool(after["active"][i]), cs,
                             (float(s0 + case["dt"] / (days[i] * 60 * 60 * 24)), float(tmp[i]), case["dt"]) if s0 < 1 else None))
        if case.get("hetero"):
            ctx.branch("sandeel.heterogeneous_temperatures")
            if case["hetero"]["i0"] or case["hetero"]["j0"]:
                ctx.branch("sandeel.subgrid_offset")
        if case.get("free_active"):
            ctx.branch("sandeel.arbitrary_initial_flag")
        if case.get("int_dt"):
            ctx.branch("sandeel.integer_dt")
        k2 = int(np.sum((before["stage"] < 2) & (after["stage"] == 2.0)))
        if k2:
            ctx.branch("sandeel.larva_lands_on_stage_2_exactly", k2)

    for c in range(ctx.n(300, 4000)):
        case = sandeel_dev_case(ctx.rng)
        inj = ibmrun.tail_injector(ctx.rng) if ctx.rng.random() < 0.5 else None
        before, after, _, _ = sandeel_dev_run(case, ctx.sub_seed(), inject=inj)
        ctx.case(key=("sandeel", repr(sandeel_summary(case))),
                 nontrivial=True, sample=dict(dt=case["dt"], bt=case["bt"], n=case["n"]) if c == 0 else None)
        ctx.branch("sandeel.single")
        check_step(case, before, after, "single")
    # histories up to completion
    for h in range(ctx.n(8, 80)):
        case = sandeel_dev_case(ctx.rng, n=4)
        if h % 2 == 0:
            case["stage"] = np.array([0.0, 0.3, 0.9, 1.2])
        else:
            case["stage"] = np.array([ctx.rng.choice([0.0, 0.999, 1.0, 1.7, ctx.rng.uniform(0, 1.5)]) for _ in range(4)])
            ctx.branch("sandeel.history_random_start")
        if not case.get("free_active"):
            case["active"] = (case["stage"] >= 1) & (case["stage"] < 2)
        case["dt"] = ctx.rng.choice([86400.0, 43200.0, 172800.0, 172800.0, 3600.0])
        case["bt"] = ctx.rng.choice([4.0, 7.0, 9.5, -2.0, 25.0]); case["temp"] = ctx.rng.choice([8.0, 12.0, 3.0, 20.0])
        if case.get("hetero"):
            case["hetero"] = dict(case["hetero"], a=case["bt"])
        ibm = None; state = None
        for s in range(ctx.n(400, 3000)):
            before, after, ibm, state = sandeel_dev_run(case, ctx.sub_seed(), ibm, state)
            ctx.case(key=("sandeel_hist", h, s), nontrivial=True)
            ctx.branch("sandeel.history_step")
            check_step(case, before, after, "hist")
            case = dict(case, stage=after["stage"].copy(), active=after["active"].copy(), hatch=after["hatch"].copy())
            if np.all(after["stage"] >= 2):
                ctx.branch("sandeel.history_completed")
                break
            if ctx.rng.random() < 0.1:
                # the water changes between two updates
                case["bt"] = ctx.rng.choice([4.0, 7.0, 9.5, -2.0, 1.0, 12.0]); case["temp"] = ctx.rng.choice([8.0, 12.0, 3.0, 20.0, 0.0])
                if case.get("hetero"):
                    case["hetero"] = dict(case["hetero"], a=case["bt"])
                ctx.branch("sandeel.history_temperature_changed")
    # hatch_time against the spline and the table
    tab = {(0.0, 2.0): 61, (0.0, 4.0): 51, (0.0, 7.0): 39, (0.0, 10.0): 25, (0.5, 2.0): 82, (0.5, 4.0): 67, (0.5, 7.0): 48,
           (0.5, 10.0): 30, (1.0, 2.0): 135, (1.0, 4.0): 116, (1.0, 7.0): 82, (1.0, 10.0): 55}
    for (r, t), v in tab.items():
        got = float(M.hatch_time(np.array([r]), np.array([t]))[0])
        ctx.case(key=("hatch_tab", r, t), nontrivial=True)
        ctx.oracle(close(got, v, 1e-9), "C09.sandeel.hatch_table", SITE, "hatch_time(%r,%r)=%r, table %r" % (r, t, got, v), dict(rate=r, temp=t))
    hp = []
    for _ in range(ctx.n(400, 6000)):
        r = ctx.rng.choice([0.0, 1.0, 0.5, ctx.rng.random()]); t = ctx.rng.choice([-3.0, 2.0, 4.0, 7.0, 10.0, 30.0, ctx.rng.uniform(0, 12)])
        got = float(M.hatch_time(np.array([r]), np.array([t]))[0])
        ctx.case(key=("hatch", r, t), nontrivial=True); ctx.branch("sandeel.hatch_time")
        ctx.oracle(got > 0, "C09.sandeel.hatch_time_nonpositive", SITE, "hatch_time(%r,%r)=%r" % (r, t, got), dict(rate=r, temp=t))
        # between the table entries: second order in the rate, linear in temperature (1e-9: the B-spline evaluation of
        # FITPACK against the closed form, same tolerance as for the table entries themselves)
        want = hatch_time_published(r, t)
        ctx.oracle(close(got, want, 1e-9), "C09.sandeel.hatch_interpolation", SITE,
                   "hatch_time(%r,%r)=%r, table interpolation %r" % (r, t, got, want), dict(rate=r, temp=t))
        if t < 2 or t > 10:
            # outside the tabulated range the nearest tabulated temperature applies (same evaluation, hence exact)
            edge = 2.0 if t < 2 else 10.0
            ge = float(M.hatch_time(np.array([r]), np.array([edge]))[0])
            ctx.branch("sandeel.hatch_time_outside_table")
            ctx.oracle(got == ge, "C09.sandeel.hatch_outside_table", SITE,
                       "hatch_time(%r,%r)=%r but hatch_time(%r,%r)=%r" % (r, t, got, r, edge, ge), dict(rate=r, temp=t))
        if drv.available:
            hp.append((drv.ask("dev.hatchtime", F(r), F(t)), got, dict(rate=r, temp=t)))
    for _ in range(ctx.n(10, 100)):
        # array arguments of any shape: element by element the same as one at a time
        shp = ctx.rng.choice([(2, 3), (3, 1), (1, 4), (2, 2, 2), (0,), (5,)])
        k = int(np.prod(shp))
        R = np.array([ctx.rng.choice([0.0, 1.0, ctx.rng.random()]) for _ in range(k)]).reshape(shp)
        T = np.array([ctx.rng.choice([-3.0, 2.0, 30.0, ctx.rng.uniform(0, 12)]) for _ in range(k)]).reshape(shp)
        got = M.hatch_time(R, T)
        ctx.case(key=("hatch_nd", repr(R.tolist()), repr(T.tolist())), nontrivial=k > 0); ctx.branch("sandeel.hatch_time_array_argument")
        one = np.array([float(M.hatch_time(np.array([r]), np.array([t]))[0]) for r, t in zip(R.ravel(), T.ravel())]).reshape(shp)
        ctx.oracle(np.shape(got) == shp and bool(np.all(np.asarray(got) == one)), "C09.sandeel.hatch_time_array", SITE,
                   "hatch_time on arrays of shape %r differs from the element-wise values" % (shp,),
                   dict(rate=R.tolist(), temp=T.tolist(), got=np.asarray(got).tolist(), elementwise=one.tolist()))
    if drv.available:
        rep = drv.run()
        for j, s1, a1, cs, egg in pend:
            st, t = rep[j]
            ms = unF(t[0])
            if egg is not None and abs(egg[0] - 1) <= 1e-9 and not close(s1, ms, 1e-9, 1e-12) and (
                    close(ms, egg[0], 1e-9, 1e-12) or close(ms, sandeel_larval_step(max(egg[0], 1.0), egg[1], egg[2]), 1e-9, 1e-12)):
                # the model's hatch time agrees with the spline to 1e-9 only: an egg that lands on stage 1 within that
                # tolerance may be on the other side of the threshold in the model (hatched / not hatched in this
                # update).  These particles are judged exactly by the implementation-side predicates egg_rate,
                # egg_activation, larva_rate and larva_activity above.
                ctx.branch("sandeel.model_on_other_side_of_stage_1")
                continue
            ctx.eq_close("sandeel.stage", s1, unF(t[0]), cs, rel=1e-9, abs_=1e-12)
            # the activity flag may legitimately differ when the stage is within tolerance of a threshold
            ms = unF(t[0])
            if min(abs(ms - 1), abs(ms - 2)) > 1e-9:
                ctx.eq("sandeel.active", a1, t[1] == "1", cs)
        for j, got, cs in hp:
            ctx.eq_close("sandeel.hatch_time", got, unF(rep[j][1][0]), cs, rel=1e-9)


# ============================================================================ shrimp, larvae, saithe
TAB = [6.371, 7.480, 9.144, 11.433, 12.088, 13.175]
LEN_PEND = []        # (stage', length') of the implementation, for the model's length table


def shrimp_table_length(s):
    """length at a (fractional) stage: the tabulated lengths of stages 1..6 (Ouellet and Allard 2006), linear in between"""
    k = min(int(math.floor(s)), 5)
    return TAB[k - 1] + (TAB[k] - TAB[k - 1]) * (s - k)


def folkvord_weight(temp, w0, dt):
    """weight after `dt` seconds of growth at the published rate (Folkvord 2005, doi:10.1139/f05-008), starting at w0"""
    w = np.log(w0)
    gr_percent = 1.08 + temp * (1.79 + w * (-0.074 + w * (-0.0965 + w * 0.0112)))
    gr = np.log(1 + 0.01 * gr_percent)
    return float(w0 + (np.exp(gr * dt / 86400) - 1) * w0)


def folkvord_length(weight):
    """larval length [mm] from dry weight [mg], equation (6) of Folkvord (2005)"""
    w = np.log(weight)
    return np.exp(2.296 + w * (0.277 - w * 0.005128))


def expected_depths(name, case, res):
    """Where the vertical behaviour puts every particle: eggs (age <= hatch day before ageing) move with their
    buoyancy velocity, larvae swim with `swim_speed` body lengths per second towards their preferred light; plus
    the recorded mixing draw; then the module's depth limits.  Returns (z_if_egg, z_if_larva, scale) or None."""
    n = res["n"]
    if n == 0:
        return None
    D = 1e-4 if name == "saithe" else case["D"]
    xi = res.get("xi")
    if D and xi is None:
        return None
    from ladim_plugins.utils import light, density, viscosity
    L = ibmrun.mod("larvae")
    b, a, sp = res["before"], res["after"], case["sp"]
    dt = float(case["dt"])
    T, S = a["temp"], a["salt"]
    w_egg = L.sinkvel_egg(mu_w=viscosity(T, S), dens_w=density(T, S), dens_egg=density(T, case["buoy"]),
                          diam_egg=sp["egg_diam"])
    lon, lat = case["env"].lonlat(case["x"], case["y"])
    k = 0.2 if name == "saithe" else case["k"]
    Eb = light(case["ts"], lon, lat, depth=b["z"], extinction_coef=k)
    with np.errstate(all="ignore"):
        w_lar = sp["swim_speed"] * 0.001 * folkvord_length(np.maximum(a["weight"], 1e-300)) * np.sign(Eb - sp["light"])
    noise = (np.asarray(xi, dtype=float) * np.sqrt(2 * D / dt)) if D else np.zeros(n)
    lo, hi = float(sp["min_depth"]), float(sp["max_depth"])
    ze = b["z"] + (w_egg + noise) * dt
    zl = b["z"] + (w_lar + noise) * dt
    scale = 1 + np.abs(b["z"]) + (np.maximum(np.abs(w_egg), np.abs(w_lar)) + np.abs(noise)) * dt
    ze = np.maximum(ze, 0) if name == "saithe" else np.clip(ze, lo, hi)
    zl = np.clip(zl, lo, hi)
    return ze, zl, scale


def oracle(ctx, name, case, res):
    b, a, n = res["before"], res["after"], res["n"]
    site = "ladim_plugins/%s/ibm.py" % name
    if name == "shrimp":
        if n and np.any(res["meta"]["stage0"] > 6):
            ctx.branch("shrimp.start_stage_above_6")
    else:
        if case["dt"] >= 86400:
            ctx.branch("%s.dt_of_days" % name)
        if case["dt"] == 1.0:
            ctx.branch("%s.dt_one_second" % name)
        if "init_larvae_weight" in case["over"]:
            ctx.branch("larvae.init_larvae_weight_overridden")
        if "egg_diam" in case["over"]:
            ctx.branch("larvae.egg_diam_overridden")
        zexp = expected_depths(name, case, res)
    for i in range(n):
        cs = dict(module=name, case=ibmrun.case_summary(case), particle=i,
                  before={k: v[i] for k, v in b.items()}, after={k: v[i] for k, v in a.items()})
        if name == "shrimp":
            s0 = res["meta"]["stage0"][i]; s1 = a["stage"][i]
            ctx.oracle(1 <= s1 <= 6, "C09.shrimp.stage_range", site, "stage' %r" % s1, cs)
            if s0 <= 6:
                ctx.oracle(s1 >= s0, "C09.shrimp.stage_decreased", site, "stage %r -> %r" % (s0, s1), cs)
            t = min(max(a["temp"][i], 3), 8)
            want = s0 + (case["dt"] / 86400) * t / (34.98593627 + 4.12176015 * t)
            if 1 <= want <= 6 and s0 >= 1:
                ctx.oracle(close(s1, want, 1e-12), "C09.shrimp.stage_rate", site, "stage %r -> %r expected %r" % (s0, s1, want), cs)
            if want >= 6 and s0 >= 1:
                # development is complete at stage 6: the stage stays there (same arithmetic as the code, hence exact)
                ctx.branch("shrimp.reaches_or_is_past_stage_6")
                ctx.oracle(s1 == 6, "C09.shrimp.stage_cap", site, "stage %r + increment = %r >= 6 but stage' %r" % (s0, want, s1), cs)
            ctx.oracle(bool(a["active"][i]) == (s1 < 6), "C09.shrimp.active_iff_lt_6", site, "stage' %r active' %r" % (s1, a["active"][i]), cs)
            k = int(math.floor(s1))
            if s1 == k:
                ctx.oracle(close(a["length"][i], TAB[k - 1], 1e-12), "C09.shrimp.length_table", site,
                           "stage %r length %r table %r" % (s1, a["length"][i], TAB[k - 1]), cs)
            ctx.oracle(TAB[0] <= a["length"][i] <= TAB[5], "C09.shrimp.length_range", site, "length %r" % a["length"][i], cs)
            if 1 <= s1 <= 6:
                # the tabulated length for the (fractional) stage; 1e-12: order of the operations of the linear
                # interpolation is not part of the statement
                wl = shrimp_table_length(s1)
                ctx.oracle(close(a["length"][i], wl, 1e-12, 0.0), "C09.shrimp.length_for_stage", site,
                           "stage' %r length' %r, table (linear between stages) %r" % (s1, a["length"][i], wl), cs)
                LEN_PEND.append((float(s1), float(a["length"][i]), cs))
        else:
            hd = float(case["sp"]["hatch_day"]); init = float(case["sp"]["init_larvae_weight"])
            is_egg = b["age"][i] <= hd
            if is_egg:
                ctx.oracle(a["weight"][i] == b["weight"][i], "C09.%s.egg_grew" % name, site,
                           "egg (age %r <= %r) changed weight %r -> %r" % (b["age"][i], hd, b["weight"][i], a["weight"][i]), cs)
            elif a["temp"][i] >= 0:      # the property quantifies over non-negative temperatures for the degree-day clocks
                ctx.oracle(a["weight"][i] >= init, "C09.%s.weight_floor" % name, site,
                           "larva weight' %r < init %r" % (a["weight"][i], init), cs)
                if True:
                    ctx.oracle(a["weight"][i] > max(b["weight"][i], init) * (1 - 1e-15), "C09.%s.growth_negative" % name, site,
                               "weight %r -> %r at temp %r" % (b["weight"][i], a["weight"][i], a["temp"][i]), cs)
                # growth starts from the initial larval weight and follows the published rate over dt (1e-12: numpy
                # exp/log, scalar vs array, and the order of `GR * dt / 86400`)
                w0 = max(b["weight"][i], init)
                ww = folkvord_weight(a["temp"][i], w0, float(case["dt"]))
                ctx.oracle(close(a["weight"][i], ww, 1e-12, 0.0), "C09.%s.larva_growth" % name, site,
                           "larva weight %r (floor %r) at %r degC over %r s -> %r, published growth gives %r"
                           % (b["weight"][i], init, a["temp"][i], case["dt"], a["weight"][i], ww), cs)
            if a["temp"][i] >= 0:
                ctx.oracle(a["age"][i] >= b["age"][i], "C09.%s.age_decreased" % name, site, "age", cs)
                # the degree-day clock advances by temperature x time step (in days); same arithmetic as the code
                wa = b["age"][i] + a["temp"][i] * case["sdt"] / 86400
                ctx.oracle(a["age"][i] == wa, "C09.%s.age_rate" % name, site,
                           "age %r at %r degC over %r s -> %r expected %r" % (b["age"][i], a["temp"][i], case["sdt"], a["age"][i], wa), cs)
            if zexp is not None:
                # buoyancy-driven up to the hatch threshold, swimming after it.  Tolerance 2e-6 of the distance
                # scale: the code keeps the velocity in a float32 array
                ze, zl, scale = zexp
                tol = 2e-6 * scale[i]
                if is_egg:
                    ctx.oracle(abs(a["z"][i] - ze[i]) <= tol, "C09.%s.egg_not_buoyancy_driven" % name, site,
                               "egg (age %r <= %r): Z %r -> %r, buoyancy gives %r (swimming would give %r)"
                               % (b["age"][i], hd, b["z"][i], a["z"][i], ze[i], zl[i]), cs)
                else:
                    ctx.oracle(abs(a["z"][i] - zl[i]) <= tol, "C09.%s.larva_not_swimming" % name, site,
                               "larva (age %r > %r): Z %r -> %r, swimming gives %r (buoyancy would give %r)"
                               % (b["age"][i], hd, b["z"][i], a["z"][i], zl[i], ze[i]), cs)
                if abs(ze[i] - zl[i]) > 2 * tol:
                    ctx.branch("%s.behaviours_distinguishable" % name)


def shrimp_case9(rng, n=None):
    """the shared shrimp generator plus start stages above 6 (ladim_plugins/shrimp/particles.rls releases stage 7)"""
    case = ibmrun.shrimp_case(rng, n)
    st = case["stage"].copy()
    for i in range(len(st)):
        if rng.random() < 0.12:
            st[i] = rng.choice([6.5, 7.0])
    case["stage"] = st
    return case


def larvae_gen9(module):
    """the shared larvae / saithe generator plus time steps of 1 s, 1 d, 2 d and (larvae) an overridden initial
    larval weight / egg diameter"""
    def gen(rng, n=None):
        case = ibmrun.larvae_case(rng, n, module)
        if rng.random() < 0.3:
            case["dt"] = case["sdt"] = rng.choice([1.0, 86400.0, 172800.0])
        if module == "larvae" and rng.random() < 0.4:
            over = dict(case["over"]); sp = dict(case["sp"])
            over["init_larvae_weight"] = sp["init_larvae_weight"] = rng.choice([0.05, 0.2, 1.0])
            if rng.random() < 0.5:
                over["egg_diam"] = sp["egg_diam"] = rng.choice([0.001, 0.0016])
            case["over"] = over; case["sp"] = sp
        return case
    return gen


def shrimp_histories(ctx, drv):
    """shrimp from release to the end of development (stage 6), the water temperature changing on the way"""
    pend = []
    use = drv if drv.available else None
    for h in range(ctx.n(5, 60)):
        case = shrimp_case9(ctx.rng, n=ctx.rng.randrange(1, 6))
        n = len(case["x"])
        case["stage"] = np.array([ctx.rng.choice([0.0, 1.0, 1.0, ctx.rng.uniform(1, 4), 5.5]) for _ in range(n)])
        case["dt"] = ctx.rng.choice([86400.0, 100000.0, 172800.0])
        ibm = None; state = None
        for s in range(200):
            res = ibmrun.shrimp_run(case, ctx.sub_seed(), use, None, ibm=ibm, state=state)
            ibm, state = res["ibm"], res["state"]
            ctx.case(key=("shrimp", "long_hist", h, s, repr(ibmrun.case_summary(case))), nontrivial=True)
            ctx.branch("shrimp.long_history_step")
            oracle(ctx, "shrimp", case, res)
            pend.append((case, res))
            case = c05.refresh_case("shrimp", case, res)
            if np.all(res["after"]["stage"] == 6):
                ctx.branch("shrimp.long_history_completed")
                break
            if ctx.rng.random() < 0.25:
                case["env"].t0 = ctx.rng.choice([-1.5, 0.0, 2.9, 4.0, 8.0, 15.0])
                ctx.branch("shrimp.long_history_temperature_changed")
    if use is not None:
        replies = drv.run()
        for case, res in pend:
            if "finish" in res:
                res["finish"](replies)
            c05.compare(ctx, "shrimp", case, res, c05.KEYS["shrimp"])


def shrimp_length(ctx, drv):
    M = ibmrun.mod("shrimp")
    if not drv.available:
        return
    pend = []
    for _ in range(ctx.n(200, 3000)):
        s = ctx.rng.choice([1.0, 2.0, 3.0, 4.0, 5.0, 6.0, ctx.rng.uniform(1, 6)])
        tab_len = [6.371, 7.480, 9.144, 11.433, 12.088, 13.175]
        impl = float(np.interp(s, [1, 2, 3, 4, 5, 6], tab_len))
        pend.append((drv.ask("dev.shrimplen", F(s)), impl, dict(stage=s)))
        ctx.case(key=("shrimplen", s), nontrivial=True)
    rep = drv.run()
    for j, impl, cs in pend:
        ctx.eq_bits("shrimp.length(np.interp contract)", impl, unF(rep[j][1][0]), cs)


def shrimp_length_of_implementation(ctx, drv):
    """the lengths the implementation stored, against the model's table at the implementation's stage"""
    if not drv.available or not LEN_PEND:
        return
    idx = [drv.ask("dev.shrimplen", F(s)) for s, _, _ in LEN_PEND]
    rep = drv.run()
    for j, (s, l, cs) in zip(idx, LEN_PEND):
        st, t = rep[j]
        if st != "ok":
            ctx.disagreement("shrimp.length", "model has no length for stage %r: %s" % (s, t), cs)
        else:
            ctx.eq_bits("shrimp.length", l, unF(t[0]), cs)


def run(ctx):
    drv = Driver()
    if getattr(ctx, "widened", False):
        drv.available = False
    del LEN_PEND[:]
    sandeel(ctx, drv)
    shrimp_length(ctx, drv)
    c05.run(ctx, modules=["shrimp", "larvae", "saithe"], oracle=oracle,
            gens=dict(shrimp=shrimp_case9, larvae=larvae_gen9("larvae"), saithe=larvae_gen9("saithe")))
    shrimp_histories(ctx, drv)
    shrimp_length_of_implementation(ctx, drv)


def replay(payload):
    print("predicate:", payload.get("predicate"), "|", payload.get("detail"))
    return False
