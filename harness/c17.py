"""C17 — release positions are uniformly distributed over the release area.

Statistical layer on the implementation (the property prescribes it): per-polygon counts and counts on
each side of random half-plane cuts against exact two-sided binomial tail bounds, total false-alarm
budget 1e-9 per run (Bonferroni over all tests); two-element range attributes on 10 bins.
Correspondence: the bit-exact draw-replay of the sampling map is shared with C03 (re-run here)."""
import importlib, math
import numpy as np
from .common import RngRecorder
from . import geom, c03

RULE = ("1..4 disjoint simple polygons (star / comb / triangles, both orientations) with area ratios up to ~1:50, N samples per "
        "shape through the real latlon_from_poly, per-polygon counts + 6 random half-plane cuts per shape, exact binomial bounds; "
        "range attributes [lo,hi] on 10 bins. Non-trivial: every statistical experiment.")
ASSUMPTIONS = ["np.random.rand is uniform on [0,1) (numpy legacy generator, trusted; this layer validates it)",
               "'a.e.-bijection with constant Jacobian maps uniform to uniform' is cited, not formalised"]
ALPHA_TOTAL = 1e-9
MAX_TESTS = 3000
SITE = "ladim_plugins/release/makrel.py::get_polygon_sample_triangles"


def binom_ok(k, n, p):
    from scipy.stats import binom
    a = ALPHA_TOTAL / MAX_TESTS / 2
    if p <= 0:
        return k == 0
    if p >= 1:
        return k == n
    return not (binom.cdf(k, n, p) < a or binom.sf(k - 1, n, p) < a)


def run(ctx):
    mk = importlib.import_module("ladim_plugins.release.makrel")
    N = ctx.n(20000, 500000)
    for c in range(ctx.n(10, 40)):
        k = ctx.rng.randrange(1, 5)
        polys = []
        # release areas of every size: degrees across, or a fish farm / outfall a few tens of metres across
        # (1e-4 degrees of latitude are about 11 m)
        small = ctx.rng.random() < 0.35
        for i in range(k):
            r = ctx.rng.choice([1e-4, 3e-4, 1e-3]) if small else ctx.rng.choice([0.3, 1.0, 2.0])
            polys.append(geom.random_polygon(ctx.rng, 10.0 + 6.0 * i, 60.0 + 0.3 * i, r))
        areas = [abs(geom.shoelace(p)) for p in polys]
        A = sum(areas)
        plat = [np.array([p[1] for p in poly]) for poly in polys]
        plon = [np.array([p[0] for p in poly]) for poly in polys]
        with RngRecorder(ctx.sub_seed()):
            lat, lon, polynum = mk.latlon_from_poly(plat, plon, N)
        cs = dict(polys=polys, N=N, areas=areas)
        ctx.case(key=("shape", repr(polys)), nontrivial=True, sample=dict(npoly=k, areas=areas, N=N) if c < 2 else None)
        ctx.branch("npoly=%d" % k); ctx.branch("small_polygons" if small else "large_polygons")
        for i in range(k):
            cnt = int(np.sum(polynum == i))
            ctx.oracle(binom_ok(cnt, N, areas[i] / A), "C17.polygon_share", SITE,
                       "polygon %d (area share %.5f) received %d of %d particles (expected %.0f +- %.0f)" %
                       (i, areas[i] / A, cnt, N, N * areas[i] / A, math.sqrt(N * areas[i] / A * (1 - areas[i] / A))), dict(cs, polygon=i, count=cnt))
        for cut in range(6):
            i = ctx.rng.randrange(k)
            p = polys[i]
            th = ctx.rng.uniform(0, 2 * math.pi); a, b = math.cos(th), math.sin(th)
            vals = [a * x + b * y for x, y in p]
            cc = ctx.rng.uniform(min(vals), max(vals))
            part = geom.clip_halfplane(p, a, b, cc)
            share = (abs(geom.shoelace(part)) if len(part) >= 3 else 0.0) / A
            cnt = int(np.sum((polynum == i) & (a * lon + b * lat <= cc)))
            ctx.case(key=("cut", repr(p), th, cc), nontrivial=True); ctx.branch("halfplane_cut")
            ctx.oracle(binom_ok(cnt, N, min(max(share, 0.0), 1.0)), "C17.halfplane_share", SITE,
                       "half-plane cut of polygon %d: area share %.5f, received %d of %d (expected %.0f)" % (i, share, cnt, N, N * share),
                       dict(cs, polygon=i, cut=[a, b, cc], count=cnt, share=share))
    # two-element ranges uniform on their range
    for c in range(ctx.n(6, 30)):
        lo = ctx.rng.choice([0.0, -5.0, 100.0]); hi = lo + ctx.rng.choice([1.0, 10.0, 250.0])
        with RngRecorder(ctx.sub_seed()):
            v = np.array(mk.get_attr([lo, hi], N))
        cnt = np.histogram(v, bins=np.linspace(lo, hi, 11))[0]
        ctx.case(key=("range", lo, hi), nontrivial=True); ctx.branch("range_attribute")
        ctx.oracle(bool(np.all((v >= lo) & (v <= hi))), "C17.range.outside", "ladim_plugins/release/makrel.py::get_attr", "values outside", dict(lo=lo, hi=hi))
        for b in range(10):
            ctx.oracle(binom_ok(int(cnt[b]), N, 0.1), "C17.range.uniform", "ladim_plugins/release/makrel.py::get_attr",
                       "[%r,%r]: bin %d holds %d of %d" % (lo, hi, b, cnt[b], N), dict(lo=lo, hi=hi, counts=cnt.tolist()))
    # the sampling map itself is pinned bit-exactly (shared with C03)
    if not getattr(ctx, "widened", False):
        saved = ctx.tier
        ctx.tier = "quick"
        try:
            c03.run(ctx)
        finally:
            ctx.tier = saved


def replay(payload):
    print("predicate:", payload.get("predicate"), "|", payload.get("detail"))
    return False
